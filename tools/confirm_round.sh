#!/bin/sh
# usage: confirm_round.sh <letter> [Cxx ...]   confirm and file the finished outputs of one sub-agent round
L=$1; shift
if [ $# -eq 0 ]; then set -- $(ls /tmp/mut | grep "${L}\$" | cut -c1-3); fi
for p in "$@"; do
  a=${p}${L}
  for k in m1 m2 m3 r1 r2 r3 r4 r5; do
    d=/tmp/mut/$a/out/$k
    [ -f $d/patch.diff ] && [ -f $d/demo_test.go ] || { echo "$a-$k MISSING"; continue; }
    [ -f /verif/seeded/$a-$k/meta.json ] && continue
    echo "$a/out/$k"
  done
done | grep -v MISSING | xargs -P 6 -I{} sh -c 'd={}; p=$(echo $d | cut -c1-3); n=$(echo $d | sed "s#/out/#-#"); kind=breaking; case $d in *r1|*r2|*r3|*r4|*r5) kind=harmless;; esac; timeout 1500 python3 /verif/tools/confirm_seed.py /tmp/mut/$d $n $p $kind 2>&1 | tail -1 | cut -c1-300'
