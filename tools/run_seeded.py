#!/usr/bin/env python3
"""Apply each seeded change to /repo, run the checks, undo it; print a matrix.

usage: run_seeded.py [seed-name-substring ...]
Never leaves /repo modified (git checkout -- . in a finally block).
"""
import json, os, subprocess, sys, re

def sh(cmd, cwd=None):
    p = subprocess.run(cmd, shell=True, cwd=cwd, capture_output=True, text=True)
    return p.returncode, p.stdout + p.stderr

def main():
    filt = sys.argv[1:]
    seeds = sorted(os.listdir("/verif/seeded"))
    rc, out = sh("git -C /repo status --porcelain")
    if out.strip():
        print("/repo is not clean; refusing"); return 2
    results = {}
    for s in seeds:
        if filt and not any(f in s for f in filt):
            continue
        d = os.path.join("/verif/seeded", s)
        meta = json.load(open(os.path.join(d, "meta.json")))
        try:
            rc, out = sh("git -C /repo apply %s/patch.diff" % d)
            if rc != 0:
                results[s] = ("PATCH-FAILS", [], "")
                continue
            rc, out = sh("rm -rf /tmp/seedrun_out && mkdir -p /tmp/seedrun_out && /verif/bin/sidcheck -property all -tier quick -outdir /tmp/seedrun_out; rc=$?; rm -rf /tmp/seedrun_out; exit $rc", cwd="/verif")
            fired = re.findall(r"VIOLATION property=(\S+)", out)
            infra = "infrastructure failure" in out
            results[s] = ("exit=%d%s" % (rc, " INFRA" if infra else ""), fired, out)
        finally:
            sh("git -C /repo checkout -- . && git -C /repo clean -fdq")
    caught = 0
    for s, (st, fired, out) in results.items():
        meta = json.load(open("/verif/seeded/%s/meta.json" % s))
        prop = meta["property"]
        kind = meta.get("kind", "breaking")
        own = prop in fired
        caught += 1 if fired else 0
        print("%-10s %-5s %-9s %-12s own=%-5s fired=%s" % (s, prop, kind, st, own, ",".join(fired)))
        if os.environ.get("VERBOSE"):
            for l in out.splitlines():
                if re.match(r"\s+(VIOLATED|UNDECIDED|UNRESOLVED|FLOOR|rule)", l) or "FLOOR" in l:
                    print("      " + l.strip()[:300])
    print("caught %d / %d" % (caught, len(results)))
    return 0

if __name__ == "__main__":
    sys.exit(main())
