#!/usr/bin/env python3
"""Create scratch worktrees of /repo and task briefs for one round of
mutation / refactoring sub-agents (one agent per claimed property).

usage: mk_briefs.py <round-letter>      e.g.  mk_briefs.py d
Creates /tmp/mut/<Cxx><letter>/{wt,out,BRIEF.md}.  The briefs contain only
the property text; nothing from /verif is shown to the agents.
"""
import json, subprocess, os, sys

letter = sys.argv[1]
harmless_only = len(sys.argv) > 2 and sys.argv[2] == 'harmless'
breaking_heavy = len(sys.argv) > 2 and sys.argv[2] == 'breaking'   # m1 m2 m3 r1 r2
props = [json.loads(l) for l in open('/verif/properties.jsonl')]
for p in props:
    if p['id'] in ('C02', 'C17'):
        continue
    name = f"{p['id']}{letter}"
    d = f"/tmp/mut/{name}"
    if not os.path.exists(d + '/wt'):
        os.makedirs(d, exist_ok=True)
        subprocess.check_call(['git', '-C', '/repo', 'worktree', 'add', '--detach', d + '/wt', 'HEAD'],
                              stdout=subprocess.DEVNULL, stderr=subprocess.DEVNULL)
    os.makedirs(d + '/out', exist_ok=True)
    brief = f"""# Task brief ({name})

You are testing how well a verification effort for the Go library `trajectoryjp/spatial_id_go` (v4) can tell subtle regressions from harmless refactorings.
Your own scratch git worktree of the library is at `{d}/wt` (detached HEAD). Work ONLY inside `{d}`; never touch `/repo` or `/verif` (do not even read `/verif`). Never run `git stash` (the worktree shares its .git with another checkout); use `git checkout -- .` and `git clean -fdq` inside the worktree to reset. Use a private Go build cache: `export GOCACHE={d}/gocache` (delete it when done).

## The property

**{p['id']} — {p['title']}**

Statement: {p['statement']}

Quantifier: {p['quantifier']['text']}

Files where the behaviour lives: {', '.join(p['anchors']['files'])}

## What to produce: two BREAKING changes (m1, m2) and three HARMLESS refactorings (r1, r2, r3)

### m1, m2 — property-breaking mutations
Each is a change to non-test `.go` files that
1. BREAKS the property above (for some input, sequence of calls, or run),
2. still COMPILES (`go build ./...`) and still PASSES the complete existing test suite unchanged (`go test -count=1 ./...`, all packages `ok`); do not edit or add `_test.go` files as part of the mutation,
3. is REALISTIC — something a maintainer could plausibly write while refactoring, optimising, generalising or "fixing" something,
4. needs something SPECIFIC to manifest (unusual input such as a negative index, h != v zooms, grid edge, high zoom, empty or repeated list entries, malformed string; a multi-step call sequence; repeated or concurrent calls; or two cooperating sites that each look fine alone). Ordinary everyday use should NOT expose it at once.
Make m1 and m2 different in mechanism and site. Be creative: assume the obvious mutations have been tried already (wrong rounding mode at the prominent site, dropping a de-duplication call, swapping two arguments, a cache keyed on too little, an early-return shortcut before validation, clamping an index, state reused across list elements, one element's zooms used instead of per-axis maxima, a running maximum used before it is final, narrowing an integer type, strings.TrimLeft used as TrimPrefix, a guard replaced by a weaker derived test, package-level scratch state, a seen-set hit that leaves or skips a whole loop, float formatting verbs for integer fields, the sign of Go's % remainder, | versus - precedence in bit-fill idioms, a shadowed error variable, a pre-sized list that is not trimmed, a lookup table with an off-by-one end, a validation moved before/after a normalising fallback, a batch/chunk split that drops the remainder, a sub-slice window stored and appended to later, sort+Compact under a comparator that ignores a field, a 'single tile at zoom 0' fast path applied to the vertical axis, a request parameter normalised before it is echoed in the result, a quadkey accumulated in float64, an unsigned comparison trick with the wrong bound, a hand-written integer parser with a weak overflow check, a digit-run tokenizer that drops the minus sign, ParseUint for a signed field, a fused loop counter decoded with the wrong stride, an in-place subdivision that overwrites unread elements, a saturated shift count, a symmetric range test that refuses the lowest index, a setter that clamps, a pointer alias of the caller's object, a result skipped by comparing output with input, a table indexed by a signed option behind an upper bound only, a length cap that forgets the minus sign, a wrapper that calls its list function once per element, Max/Min through subtraction or negation, a single-exit return that leaks a partial list with the error, worker goroutines sharing one parser object or a loop variable, a pooled map that is not cleared on error paths). Look at interactions between functions, at rarely taken branches, at boundary conditions of loops, at error paths, at type conversions, at operator precedence, at off-by-one in range ends, at aliasing of slices.

### r1, r2, r3 — behaviour-preserving refactorings
Each is a realistic, NON-TRIVIAL refactoring (20–90 changed lines) of the functions that implement the property (and, where useful, of the helpers and validators they call), of the kind a careful maintainer does during clean-up or modernisation, and does NOT change observable behaviour for ANY input (including invalid input: same errors, same empty/partial results, same panics or absence of panics). Be bold: the more different the code looks, the better. Each of the three must use a DIFFERENT idiom family (combining two in one change is welcome); pick from: (1) closures and iterators (local closures for validation or per-element work, `func(yield)` push iterators, index-based or fused or split loops, labelled break/continue); (2) small value types with methods that carry validation, arithmetic and formatting, results passed as structs; (3) table-driven code (lookup/permutation/offset tables, precomputed power-of-two tables built at package level, dispatch maps of functions); (4) error-handling style (package-level sentinel errors, a local `fail` helper, named results with bare returns, `defer`-based adjustment of results, a single exit with an `err` variable, flags set on the failing edge, switch-true guard chains); (5) standard-library replacements (`slices`, `maps`, `strings.Cut/Count`, `strconv.AppendInt`, `strings.Builder`, `math.Ldexp`, `math/bits`, `cmp`, `min`/`max`, unsigned range tests); (6) generics (one generic helper replacing near-duplicates); (7) moving checks between caller and callee, recursion vs explicit stack; (8) representation of intermediates (parsed integers vs strings, arrays vs named fields, struct-keyed maps, sorted slices + Compact, pre-sized slices filled by index and trimmed; worker goroutines with a WaitGroup that handle every element); (9) concurrency that keeps results identical (workers filling disjoint slots of a pre-sized slice, `sync.Once` read-only tables, `sync.Pool` scratch buffers that are fully reset); (10) control-flow reshaping (state machines, loop peeling, do-while shapes, flags instead of breaks, recursion as an explicit work list, `a == b` on small arrays or structs); (11) arithmetic written differently but bit-identically for every input (shifts and masks, `math.Ldexp`, unsigned range tests). Do not touch exported signatures. The property must hold exactly as before and the existing suite must pass.

### Files to write
For each k in {{m1, m2, r1, r2, r3}} write into `{d}/out/<k>/`:
- `patch.diff` — `git diff` of the worktree for that change alone (relative to HEAD; must apply with `git apply` on a clean checkout of HEAD; exclude go.sum / go.mod drift),
- `demo_test.go` — a self-contained Go test in an external test package (e.g. `package integrate_test`), importing `github.com/trajectoryjp/spatial_id_go/v4/...`. For m1/m2 it FAILS with the mutation and PASSES on unmodified HEAD. For r1/r2/r3 it exercises the refactored code on a varied set of inputs (including unusual ones) and PASSES both with and without the refactoring. Keep each demo's run time under 20 seconds. Put a comment at the top naming the file it must be copied to, in the form `<dir>/zz_demo_test.go` (for example `integrate/zz_demo_test.go`), and the exact `go test -count=1 -run '<regexp>' ./<dir>/` command,
- `notes.md` — 5–10 lines: what was changed; for m: which clause breaks and what input/sequence is needed; for r: why behaviour is unchanged; the commands you ran and their outcome.

Verify everything yourself (suite passes with each change; demo outcome as specified with and without the change). Reset the worktree between changes and leave it clean at the end.

## Environment
Offline sandbox. Prefix every shell command that invokes go with:
`export GOFLAGS=-mod=mod GOPROXY=off GOSUMDB=off GOTOOLCHAIN=local GOWORK=off GOCACHE={d}/gocache`
The default `go` (1.23.5) works; nothing can be downloaded. The test suite runs in a few seconds.
When finished, reply with a 2-line summary per change. Do not write anywhere outside `{d}`.
"""
    if breaking_heavy:
        brief = brief.replace("two BREAKING changes (m1, m2) and three HARMLESS refactorings (r1, r2, r3)", "three BREAKING changes (m1, m2, m3) and two HARMLESS refactorings (r1, r2)")
        brief = brief.replace("### m1, m2 — property-breaking mutations", "### m1, m2, m3 — property-breaking mutations")
        brief = brief.replace("Make m1 and m2 different in mechanism and site.", "Make m1, m2 and m3 different in mechanism and site; at least one of them should break a clause of the statement other than the most prominent one, and at least one should live in a helper, validator or object method rather than in the main function.")
        brief = brief.replace("### r1, r2, r3 — behaviour-preserving refactorings", "### r1, r2 — behaviour-preserving refactorings")
        brief = brief.replace("Each of the three must use a DIFFERENT idiom family", "The two must use DIFFERENT idiom families")
        brief = brief.replace("For each k in {m1, m2, r1, r2, r3}", "For each k in {m1, m2, m3, r1, r2}")
        brief = brief.replace("For m1/m2 it FAILS", "For m1/m2/m3 it FAILS").replace("For r1/r2/r3 it exercises", "For r1/r2 it exercises")
    if harmless_only:
        a = brief.index('## What to produce')
        b = brief.index('### Files to write')
        brief = brief[:a] + f"""## What to produce: five HARMLESS refactorings (r1 .. r5)

Each is a realistic, NON-TRIVIAL refactoring (20-90 changed lines) of the functions that implement the property (and, where useful, of the helpers and validators they call), of the kind a careful maintainer does during clean-up or modernisation, and does NOT change observable behaviour for ANY input (including invalid input: same errors, same empty/partial results, same panics or absence of panics). Be bold: the more different the code looks, the better - as long as behaviour is identical. Each of the five must use a DIFFERENT idiom family; pick five from this list:
1. closures and iterators: validation or per-element work moved into local closures, `func(yield)` iterators, `slices.Values`/`maps.Keys`-style pipelines, integer `for i := range n` loops, index-based instead of range loops, fused or split loops, labelled break/continue;
2. small value types with methods (e.g. a `zoomPair`, `indexRange`, `parsedID`, `bounds` type) that carry validation (`valid()`, `contains()`), arithmetic and formatting; results passed around as structs instead of multiple return values;
3. table-driven code: lookup tables, permutation tables, offset tables, precomputed power-of-two tables (built in `init` or a package-level `var ... = func() ... {{}}()`), dispatch maps of functions;
4. error handling style: package-level sentinel errors, a local `fail := func(...) (..., error)` helper, named results with bare returns, `defer`-based error decoration that keeps the same error value/text, a single exit point with an `err` variable checked once, `errors.Is`-compatible wrapping that preserves messages, switch-true guard chains;
5. standard-library replacements: `slices`, `maps`, `strings.Cut/Count/Fields/SplitSeq`, `strconv.AppendInt` into byte buffers, `strings.Builder`, `math.Ldexp`, `math/bits`, `cmp`, `min`/`max` builtins, unsigned-comparison range tests;
6. generics: one generic helper replacing two or more near-duplicate functions (set operations, min/max selection, per-element conversion loops);
7. moving checks between caller and callee: validation hoisted into a shared `validateXxx` helper returning `(parsed, error)` or `(value, ok)`, or pushed down into the constructor/parser, early returns replaced by nested conditionals or vice versa, recursion replaced by an explicit stack/loop or vice versa;
8. data representation of intermediates: strings vs parsed integers, `[N]int64` arrays vs named fields, maps keyed by structs vs by strings, sets as `map[T]struct{{}}` vs sorted slices + `slices.Compact`, pre-sized slices filled by index and trimmed to the fill count;
9. concurrency that keeps results identical: worker goroutines with a `sync.WaitGroup` writing disjoint elements of a pre-sized slice, `sync.Once`-initialised read-only tables, `sync.Pool` for scratch buffers that are fully reset;
10. control-flow reshaping: `goto`-free state machines, loop peeling (first element handled before the loop), loop inversion (do-while shape with a guard), sentinel elements, recursion unrolled into an explicit work list, early `continue` chains turned into one nested condition or vice versa, boolean flags replacing breaks, comparison of small structs or arrays (`a == b`) instead of field-by-field tests;
11. arithmetic written differently but bit-identically for EVERY int64/float64 input (prove it in the notes): shifts vs multiplication by powers of two where no overflow difference exists, `x&(n-1)` vs `x%n` only where x is provably non-negative and n a power of two, `math.Ldexp` vs `math.Pow(2, n)`, `-(-x >> k)` style ceilings, `min`/`max` builtins for if-chains.
Feel free to COMBINE two families in one change where that is natural (for example a value type whose methods use a table and return sentinel errors; an iterator closure feeding a generic helper), and to restructure across function boundaries (split one function into three, or inline helpers). Do not touch exported signatures. The property must hold exactly as before and the existing suite must pass.

""" + brief[b:]
        brief = brief.replace("For each k in {m1, m2, r1, r2, r3}", "For each k in {r1, r2, r3, r4, r5}")
        brief = brief.replace("For m1/m2 it FAILS with the mutation and PASSES on unmodified HEAD. For r1/r2/r3 it", "It")
        brief = brief.replace("for m: which clause breaks and what input/sequence is needed; for r: why behaviour is unchanged", "why behaviour is unchanged, which idiom family (number) it uses")
    open(d + '/BRIEF.md', 'w').write(brief)
print(sorted(os.listdir('/tmp/mut')))
