#!/usr/bin/env python3
"""Regenerate expect/floors.json from the evidence of the current tree:
floor 1 for every structural rule that examined at least one construct
(KIND-* rules are opportunistic and have no floor).  A floor shortfall is a
COVERAGE warning in the check output, not an alarm."""
import json, glob, os
out = {}
for p in sorted(glob.glob('/verif/evidence/C*.json')):
    e = json.load(open(p))
    pid = e['property_id']
    rules = {}
    for rule, st in e['coverage'].get('per_rule', {}).items():
        if rule.startswith('KIND-') or rule in ('ANCHOR', 'FLOOR-NOBIAS'):
            continue
        n = sum(v for k, v in st.items() if k != 'info')
        if n > 0:
            rules[rule] = 1
    out[pid] = dict(sorted(rules.items()))
json.dump(out, open('/verif/expect/floors.json', 'w'), indent=1)
print({k: len(v) for k, v in out.items()})
