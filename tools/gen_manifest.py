#!/usr/bin/env python3
"""Generate /verif/MANIFEST.json (kept in one place so that checks, levels and
not_applicable stay consistent)."""
import json

SETUP = ("cd /verif/checker && GOFLAGS=-mod=mod GOPROXY=off GOSUMDB=off GOTOOLCHAIN=local GOWORK=off "
         "go build -o /verif/bin/sidcheck .")

OTHER = ("decides named structural clauses that are genuine necessary conditions of the property, for all inputs, from the "
         "type-checked source and SSA form of /repo's working tree; the value-level remainder of the behaviour is not decided: ")

checks = {
 "C01": ("SIGNED-FIELD (the sign of the vertical index survives tokenising), ROUND/FLOOR-NOBIAS (altitude and lon/lat quantisation floors, no bias), FOLD-EXACT (lon = 180 folded by an exact comparison), MAPORDER + ELEMENTWISE (one output per input, in order, through any number of element-wise stages; no state carried between points, neither in a loop-carried value nor in a local variable written for one point and read for the next), KIND-LAYOUT (each index labelled with its own axis' zoom), WRAPPER (spatial form = extended form with h=v), GUARD (zoom 0..35, nil points)",
         "not decided: Mercator formula correctness, boundary behaviour at lon=+-180 / lat limit, 0 <= x,y < 2^h (float facts)",
         "component-kind inference + rounding-mode classification + scenario path analysis on SSA"),
 "C03": ("INTERVAL, ASHIFT incl. saturated shift counts, ROUND (vertical zoom-out floors; sign-only floor corrections), NOSKIP (no input ID skipped on a partial seen-test), DISTINCT (every success return de-duplicated), KIND-CALL/KIND-LAYOUT (axes wired independently, every output field at the zoom of its own axis), AXISSYM (x and y bounds isomorphic), NOCLAMP (no index clamp / range check in the per-axis zoom functions; no constant vertical ID emitted), narrowing of an x/y/f index to fewer than 64 bits, WRAPPER, GUARD",
         "not decided: the child range is exactly [i*2^d,(i+1)*2^d-1] and the 4^dh*2^dv count (value arithmetic)",
         "component-kind inference, rounding-mode classification, distinctness lattice, sibling isomorphism on SSA"),
 "C04": ("DELEGATE-ONCE, ROUND (ancestor floors below ground), DISTINCT, ELIGIBILITY (3x3 ordering enumeration: pass-through iff coarser on some axis), UNIT-ZOOM (the unit zooms of the division are final per-axis maxima over all inputs: not a running maximum still in use, not one element's zooms), NOSKIP (no input, unit or group dropped), CHUNK (a split of the input into chunks covers every element), WINDOW-APPEND (no uncapped sub-slice window stored where it is later appended to: groups cannot overwrite each other), CACHE-KEY, KIND rules, WRAPPER, GUARD",
         "not decided: region equality, density threshold, idempotence (value-level)",
         "rounding-mode classification + finite ordering enumeration over the CFG"),
 "C05": ("MINSEL/REUSE (both IDs aligned to the per-axis minimum zoom with ChangeExtendedSpatialIdsZoom), EXISTS-LOOP (array form = disjunction, false for empty lists), EVERY-ELEMENT/TYPESTATE (every ID inserted/queried, empty tree never queried), RANGEUSE (both key bounds consumed: known finding D8), ERRUSED, NOPARTIAL, GUARD",
         "not decided: exactness/symmetry of the third-party radix-tree prefix search, agreement of the two implementations",
         "ordering enumeration, must-pass-through and typestate path analysis, def-use error discipline"),
 "C06": ("SIGNED-FIELD, DISTINCT, INCLUDES (end-point voxels in every result), EARLY-SINGLE, PASSTHRU (zooms and midpoint reporting through the recursion), THRESHOLD-AXIS (each termination threshold depends on the zoom of one axis only), WRAPPER, GUARD",
         "NOT decided: absence of gaps, 26-connectivity, 'only voxels the segment touches', termination thresholds (float midpoints vs voxel sizes)",
         "accumulator/def-use analysis, distinctness lattice, call-graph value identity"),
 "C07": ("LENCAP, INTERVAL, KIND-LAYOUT (hZoom/x/y/vZoom/f with zooms copied; no float-formatted index), REM-SIGN (no bare % on a moved index), FLOATGUARD (no refusal of a shift decided through float64 of the vertical index), AXISSYM (x and y wrapped by isomorphic computations and conditions), NOWRAP-F (vertical index exactly f+dv), RANGE (symbolic interval analysis: printed x,y in [0, 2^h-1] on every path), GUARD (malformed ID -> empty ID)",
         "not decided: that the float Pow/Mod/repeated-addition arithmetic equals mod 2^h (hence the algebraic laws)",
         "component-kind inference + expression-graph isomorphism"),
 "C08": ("RADIX (a fused counter over a product of spans is decoded positionally: strides totally ordered by inclusion and dividing the bound), REM-SIGN, STENCIL (partial evaluation of the constant loops: exactly the 6/8/26 offset sets, each once; N-layer nest = full box minus origin for every input ID), VIASHIFT, DISTINCT, GUARD (negative layers)",
         "not decided: neighbour counts/symmetry at low zooms (depend on C07's arithmetic)",
         "constant-propagation partial evaluation of SSA loops + symbolic loop-nest matching"),
 "C09": ("INTERVAL (index-existence tests cut at 2^z-1 / -2^z-1 / -1, also in the zoom change), ROUND-AGREE (every vertical rounding site in point lookup, zoom change, merge ancestor, key scaling is floor), MINSEL/REUSE (overlap aligns with the zoom change itself at the per-axis minimum), ELIGIBILITY",
         "not decided: zoom-in-then-out identity and merge-of-all-descendants identity as value equalities",
         "rounding-mode agreement over call-graph closures"),
 "C10": ("SIGNED-FIELD, INPLACE-GROW (no list re-using the storage of the list being ranged over grows by more than one element per iteration), KIND-LAYOUT/KIND-STORE/KIND-CALL (parser, printer, FieldParams and both notation permutations agree position by position), MAPORDER, ELEMENTWISE, MAXSEL (every zoom change of the expansion targets max(h,v); no ordering loses the voxel), NOCLAMP, narrowing index conversions, ID text used as a strings.Trim cut set, GUARD (arity)",
         "not decided: 4^d / 2^d count and region equality of the expansion",
         "component-kind/layout inference + ordering enumeration"),
 "C11": ("DELEGATE-ONCE, ECHO (every scalar the group constructor receives is a parameter of the request, the same value on every path: not a constant, not arithmetic on it, not reset on some paths), KIND-CALL (groups carry the request's zooms/height/base parameters; role wiring of HorizontalZoom/VerticalZoom), DISTINCT-PAIR (miss-then-insert on the cross-ID map), UNTRIMMED (a pre-sized pair list is cut to its fill count), no quadkey through float64, NOSKIP in both directions, ROUND over the closure, PER-ITERATION (fresh scratch lists), ELEMENTWISE (no cache carried between IDs), NOFLOAT (integer-only encoder/decoder), REUSE, ERRUSED, GUARD (zoom domains, arity, integer fields, maxHeight<minHeight)",
         "NOT decided: that the encoder is the bit interleaving and the decoder its inverse (loop-carried bit arithmetic)",
         "component-kind inference, dominance-based guard analysis, scenario path analysis"),
 "C12": ("ASHIFT/ROUND (all scaling is a signed shift = floor; no (b<<d | 1<<d) - 1 bit fill), RANGEUSE, INTERVAL (existence tests accept exactly [-2^z,2^z-1] / [0,2^z-1]), OUTRANGE (both returned bounds range-checked), UPPER-BOUND-FORM (scale(i+1)-1 only where the shift is known positive: found D11, fixed; D12 known finding), NOPARTIAL, KIND-LAYOUT (F vs key scale)",
         "NOT decided: the covering property itself (integer interval arithmetic over five unbounded parameters)",
         "rounding-mode classification + bound-expression shape analysis on SSA"),
 "C13": ("DELEGATE-ONCE (the spatial-ID form hands the whole list to the extended form in one call), NOPARTIAL incl. merged single-exit returns, NOSKIP (no tile skipped on state kept from earlier tiles), KIND-STORE/KIND-CALL (hZoom,x,y copied field for field, vZoom = request's), RANGE-LOOP (emitted range = the two results of this tile's range call, value identity, also through a helper that hands the range on), CACHE-KEY (a memo of the range call is keyed by every varying argument), ELEMENTWISE, COMPOSE, DISTINCT (incl. sort+Compact under a comparator that ignores a varying field), CHUNK, NOPARTIAL, OUTRANGE, MAXSEL, GUARD (tile zooms two-sided; undecided region rows are tried with a concrete witness call)",
         "not decided: that the emitted range is the covering range (C12's undecided part)",
         "component-kind inference + loop-bound value identity + call-graph composition"),
 "C14": ("REM-SIGN over the closure, INCLUDES (line IDs in every result variant: Unique/Union/Concat/appends flattened), FILTER-SUBSET (measured additions are current candidates behind distance < radius itself), LAYERFIT (layer counts = max fit over all line voxels), NOORDERDEP, DISTINCT, GUARD (negative radius, zooms, nil points)",
         "NOT decided: the geometric distance bound, radius-0 identity, termination of the layer fit",
         "value-identity and dominance analysis on SSA + ordering enumeration"),
 "C15": ("INDEX-SIGN (a table indexed by a signed parameter is bounded on both sides), LENCAP (no ID refused for being longer than a constant below 68 characters), NOPARTIAL incl. merged single-exit returns, HANDPARSE (a hand-written decimal field parser has a cutoff test or a length bound of at most 18 and refuses a lone sign), SIGNED-FIELD (no digit-run tokenizer, no ParseUint over all components), GUARD table (94 rows, scenario path analysis: interval / nil / arity / parse-failure / option / order / empty-list facts; a success return reached only past tests of the argument that the analysis cannot evaluate is reported as undecided, one reached without any such test as violated), ERRUSED (no strconv error of caller text dropped), ERRSWALLOW (no callee error lost through a shadowed named result), PARSE-BASE (decimal only), FIELDGUARD (who writes Point fields, rounding direction of latitude, limit test dominates store), NOPARTIAL",
         "not decided: the < 1e-10 magnitude of the latitude cut; panics inside third-party code for valid inputs; zoom fields inside well-formed IDs (excluded by the property's quantifier)",
         "abstract scenario propagation over CFGs with recursive callee summaries (no code executed, no solver)"),
 "C16": ("GOSHARED, POOL-RESET, POOL-USE-AFTER-PUT, HASHKEY (no set keyed by a hash of its elements), EFFECT-PARAM (no exported function writes caller data; type-filtered write sets), UNIT-ZOOM and NOSKIP (merge result independent of input order), NOORDERDEP (no positional use of map-ordered slices), MAPLOOP-COMMUTATIVE, DISTINCT / DISTINCT-PAIR rows, NONDET (no other nondeterminism source reachable)",
         "NOT decided: invariance of the result set under permutation / duplication of the input list in general (value-level confluence)",
         "interprocedural effect analysis + map-order taint"),
 "C18": ("FIELDGUARD (SetAlt / SetLon store their parameter itself: no normalising phi, no helper that computes), PASSTHRU (altitude same value end to end; x/y exactly the transform's results), MAPORDER, ELEMENTWISE, ERRUSED (Safe transform error tested and mapped to the conversion error), CHUNK (batched conversion covers every point), CRS-ARGS (direction)",
         "NOT decided: Mercator numerics, 2e-10 round trip, agreement with the grid constants",
         "value-identity analysis on SSA"),
 "C20": ("EXTREMUM (Max/Min replace the best value under a direct comparison, not one of arithmetic on the operands), ASHIFT (signed shift = floor), EMPTYGUARD, EFFECT-PARAM (helpers leave arguments alone), SETOP-SHAPE (the set-expression term derived from each helper - keys(set{..}), filter(P, hit|miss, set{..}), contains(P, x) - equals the definition of the operation it is named after; early exits are violations), MATMUL-INDEX",
         "NOT decided: Max/Min boundingness, set laws as value equalities, Combinations, vector/quaternion identities",
         "set-expression abstract domain over SSA + scenario path analysis + effect analysis"),
}

manifest = {
 "version": 1,
 "setup_cmd": SETUP,
 "hooks": {
  "guard": "verif",
  "enable": "none needed: the checker reads /repo's source (go/packages with -tags=verif so that any guarded file would be analysed); no hook commits exist",
  "baseline_off_cmd": "cd /repo && GOFLAGS=-mod=mod GOPROXY=off GOSUMDB=off go test -json -vet=off -count=1 -timeout 25m ./...",
  "source_commits": [],
  "add_only": True
 },
 "engines": [
  {"name": "sidcheck", "path": "/verif/checker", "serves_properties": sorted(list(checks.keys()) + ["C19"]),
   "kind_free_text": "repository-specific static analyser over go/types + go/ssa + VTA call graph (golang.org/x/tools v0.29.0, default go); analyses: component-kind inference, rounding-mode classification, scenario path analysis, effect analysis, distinctness/map-order lattices, ordering enumeration, partial evaluation of constant loops"}
 ],
 "checks": [],
 "not_applicable": [
  {"property_id": "C02", "reason": "every clause is a fact about float64 results of atan/sinh/Pow and a 1e-10 truncation (corner coordinates, centre = midpoint, centre->ID round trip, shared faces coincide); no sound static argument in reach bounds floating-point error per zoom; its structural parts (option dispatch, zoom check, notation wrapper) are decided under C15/C10 (DESIGN.md section 6)"},
  {"property_id": "C17", "reason": "contiguity, clamping and coverage of the float binary subdivision are value facts of a comparison repeated zoom times; its only structural clause (maxHeight < minHeight is an error in both directions) is checked as guard-table rows under C15/C11 and is not enough to claim C17 (DESIGN.md section 6)"}
 ],
 "notes": "Static analysis only (DESIGN.md). Every check is one sidcheck process (about 3-12 s) that loads /repo's current working tree, type-checks it, builds SSA and decides the property's rules; exit 0 = no rule instance violated (known findings printed as KNOWN-FINDING; clauses the analysis could not decide on this tree printed as UNDECIDED and counted in the evidence, never an alarm), exit 1 + VIOLATION line = positive evidence of a construct that breaks a decided clause, exit 2 = infrastructure failure (no verdict). known_findings.json lists recorded and fixed defects. seeded/ holds confirmed property-breaking changes and behaviour-preserving refactorings written by independent sub-agents; tools/run_seeded.py replays them (DESIGN.md sections 9.5, 10.5)."
}

for pid in sorted(list(checks.keys()) + ["C19"]):
    if pid == "C19":
        manifest["checks"].append({
         "property_id": "C19",
         "quick_cmd": "/verif/bin/sidcheck -property C19 -tier quick",
         "thorough_cmd": "/verif/bin/sidcheck -property C19 -tier thorough",
         "evidence_file": "/verif/evidence/C19.json",
         "replay_cmd_template": "cat {path}",
         "engine": "sidcheck",
         "level_claimed": {"category": "proof", "text": "sound over-approximating effect analysis of the whole program reachable from every exported function (dependencies analysed from their bodies): no write to package-level or argument-reachable memory, no goroutines / locks / unsafe; this implies data-race freedom for concurrent calls on shared read-only arguments and per-call determinism, under the stated trusted base On a tree that does start goroutines or uses sync.Once / sync.Pool the proof no longer applies: the check then reports positive evidence only (GOSHARED: workers writing a shared variable or one shared object, a spawning loop assigning what the workers captured; POOL-RESET / POOL-USE-AFTER-PUT; a sync.Once literal that captured its caller's data) and is undecided otherwise", "design_ref": "DESIGN.md section 4 C19, section 3 A5"},
         "level_note": "trusted: go/types, go/ssa, VTA call-graph over-approximation, the Go standard library (summarised by a mutator table); caller-supplied callbacks are the caller's code",
         "technique": "interprocedural effect (write-set) analysis on SSA with origin tracing"
        })
        continue
    decided, notdec, tech = checks[pid]
    manifest["checks"].append({
     "property_id": pid,
     "quick_cmd": "/verif/bin/sidcheck -property %s -tier quick" % pid,
     "thorough_cmd": "/verif/bin/sidcheck -property %s -tier thorough" % pid,
     "evidence_file": "/verif/evidence/%s.json" % pid,
     "replay_cmd_template": "cat {path}",
     "engine": "sidcheck",
     "level_claimed": {"category": "other", "text": OTHER + "decided = " + decided + "; " + notdec, "design_ref": "DESIGN.md section 4 " + pid},
     "level_note": "trusted: go/types, go/ssa, x/tools v0.29.0, the frozen role / guard tables transcribed from the doc comments; rules alarm only on positive evidence of a bad construct; unrecognised constructions are reported as undecided (coverage floors in expect/floors.json are warnings, canaries in checker/canary keep every rule able to fire)",
     "technique": "static analysis: " + tech
    })

json.dump(manifest, open("/verif/MANIFEST.json", "w"), indent=1)
print("wrote MANIFEST.json with", len(manifest["checks"]), "checks")
