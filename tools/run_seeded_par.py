#!/usr/bin/env python3
"""Parallel variant of run_seeded.py: works on private copies of /repo's HEAD tree
(git archive), never touches /repo's working tree.

usage: run_seeded_par.py [-bin /path/to/sidcheck] [-j N] [seed-name-substring ...]
Scratch copies live in /tmp/seedpar.<pid>/ and are removed at the end.
"""
import json, os, subprocess, sys, re, shutil, concurrent.futures as cf

def sh(cmd, cwd=None):
    p = subprocess.run(cmd, shell=True, cwd=cwd, capture_output=True, text=True)
    return p.returncode, p.stdout + p.stderr

def main():
    args = sys.argv[1:]
    binp, jobs = "/verif/bin/sidcheck", 5
    filt = []
    while args:
        a = args.pop(0)
        if a == "-bin": binp = args.pop(0)
        elif a == "-j": jobs = int(args.pop(0))
        else: filt.append(a)
    seeds = [s for s in sorted(os.listdir("/verif/seeded")) if os.path.isdir("/verif/seeded/" + s) and (not filt or any(f in s for f in filt))]
    root = "/tmp/seedpar.%d" % os.getpid()
    os.makedirs(root)
    try:
        for k in range(jobs):
            d = "%s/w%d" % (root, k)
            os.makedirs(d)
            rc, out = sh("git -C /repo archive HEAD | tar -x -C %s" % d)
            if rc: print(out); return 2
        def run(idx_s):
            idx, s = idx_s
            return s
        results = {}
        import queue, threading
        q = queue.Queue()
        for s in seeds: q.put(s)
        lock = threading.Lock()
        def worker(k):
            d = "%s/w%d" % (root, k)
            while True:
                try: s = q.get_nowait()
                except queue.Empty: return
                sd = "/verif/seeded/" + s
                rc, out = sh("patch -p1 -s --no-backup-if-mismatch < %s/patch.diff" % sd, cwd=d)
                if rc != 0:
                    res = ("PATCH-FAILS", [], out)
                else:
                    od = "%s/out%d" % (root, k)
                    rc, out = sh("rm -rf %s && mkdir -p %s && timeout 600 %s -repo %s -property all -tier quick -outdir %s; rc=$?; rm -rf %s; exit $rc" % (od, od, binp, d, od, od), cwd="/verif")
                    fired = re.findall(r"VIOLATION property=(\S+)", out)
                    infra = "infrastructure failure" in out
                    panic = "checker panic" in out or rc == 124  # 124: the checker did not finish within 10 minutes
                    res = ("exit=%d%s%s" % (rc, " INFRA" if infra else "", " PANIC" if panic else ""), fired, out)
                # restore the copy
                shutil.rmtree(d); os.makedirs(d)
                sh("git -C /repo archive HEAD | tar -x -C %s" % d)
                with lock: results[s] = res
        ths = [threading.Thread(target=worker, args=(k,)) for k in range(jobs)]
        for t in ths: t.start()
        for t in ths: t.join()
        caught = 0
        for s in seeds:
            st, fired, out = results[s]
            meta = json.load(open("/verif/seeded/%s/meta.json" % s))
            prop = meta["property"]; kind = meta.get("kind", "breaking")
            own = prop in fired
            caught += 1 if fired else 0
            print("%-10s %-5s %-9s %-12s own=%-5s fired=%s" % (s, prop, kind, st, own, ",".join(fired)))
            if os.environ.get("VERBOSE"):
                for l in out.splitlines():
                    if re.match(r"\s+(VIOLATED|UNDECIDED|UNRESOLVED|FLOOR|rule)", l) or "FLOOR" in l:
                        print("      " + l.strip()[:300])
        print("caught %d / %d" % (caught, len(results)))
    finally:
        shutil.rmtree(root, ignore_errors=True)
    return 0

if __name__ == "__main__":
    sys.exit(main())
