#!/usr/bin/env python3
"""Confirm a candidate seeded change and file it under /verif/seeded/<name>/.

usage: confirm_seed.py <src_dir> <seed_name> <property_id> [breaking|harmless]
  src_dir holds patch.diff, demo_test.go, notes.md (written by a sub-agent).

Checks, in a throw-away worktree of /repo HEAD under /tmp (removed afterwards):
  1. patch applies; go build ./... ok; complete existing suite passes
  2. demo test FAILS with the patch
  3. demo test PASSES without the patch
"""
import json, os, re, shutil, subprocess, sys, tempfile

ENV = dict(os.environ, GOFLAGS="-mod=mod", GOPROXY="off", GOSUMDB="off", GOTOOLCHAIN="local", GOWORK="off")

def run(cmd, cwd, timeout=1200):
    p = subprocess.run(cmd, cwd=cwd, env=ENV, shell=True, capture_output=True, text=True, timeout=timeout)
    return p.returncode, (p.stdout + p.stderr)

def main():
    src, name, prop = sys.argv[1], sys.argv[2], sys.argv[3]
    kind = sys.argv[4] if len(sys.argv) > 4 else "breaking"
    demo = open(os.path.join(src, "demo_test.go")).read()
    m = re.search(r'([A-Za-z_/]*zz_demo_test\.go)', demo)
    m2 = re.search(r'(go test[^`\n]*)', demo)
    if not m or not m2:
        print("cannot find demo location/command"); return 2
    rel = m.group(1).lstrip("/")
    cmd = m2.group(1).strip().rstrip(")").rstrip(".").strip()
    wt = tempfile.mkdtemp(prefix="seedwt_", dir="/tmp")
    os.rmdir(wt)
    subprocess.check_call(["git", "-C", "/repo", "worktree", "add", "--detach", wt, "HEAD"], stdout=subprocess.DEVNULL, stderr=subprocess.DEVNULL)
    res = {}
    try:
        head = subprocess.check_output(["git", "-C", "/repo", "rev-parse", "HEAD"], text=True).strip()
        rc, out = run("git apply --check %s && git apply %s" % (os.path.join(src, "patch.diff"), os.path.join(src, "patch.diff")), wt)
        res["applies"] = rc == 0
        if rc != 0:
            print("patch does not apply:", out); return 1
        rc, out = run("go build ./... && go test -count=1 ./...", wt)
        res["suite_passes_with_patch"] = rc == 0 and "FAIL" not in out
        if not res["suite_passes_with_patch"]:
            print("suite fails with patch:\n", out[-2000:]); return 1
        shutil.copy(os.path.join(src, "demo_test.go"), os.path.join(wt, rel))
        rc, out = run(cmd, wt)
        if kind == "harmless":
            res["demo_passes_with_patch"] = rc == 0
        else:
            res["demo_fails_with_patch"] = rc != 0
        demo_out_with = out[-1500:]
        run("git checkout -- . ", wt)
        rc, out = run(cmd, wt)
        res["demo_passes_without_patch"] = rc == 0
        ok = all(res.values())
        print(name, json.dumps(res))
        if not ok:
            print(demo_out_with); print(out[-1500:]); return 1
        dst = os.path.join("/verif/seeded", name)
        os.makedirs(dst, exist_ok=True)
        shutil.copy(os.path.join(src, "patch.diff"), dst)
        shutil.copy(os.path.join(src, "demo_test.go"), dst)
        notes = open(os.path.join(src, "notes.md")).read() if os.path.exists(os.path.join(src, "notes.md")) else ""
        meta = {
            "property": prop,
            "seed": name,
            "kind": kind,
            "repo_head": head,
            "demo_location": rel,
            "demo_cmd": cmd,
            "needs_to_manifest": notes.strip(),
            "confirmed": res,
            "what_was_run": [
                "git worktree add --detach <scratch> HEAD; git apply patch.diff",
                "go build ./... && go test -count=1 ./...   (all packages ok with the patch)",
                "copy demo_test.go to %s; %s   (%s with the patch)" % (rel, cmd, "passes" if kind == "harmless" else "fails"),
                "git checkout -- .; %s   (passes without the patch)" % cmd,
                "git worktree remove --force <scratch>",
            ],
            "author": "independent sub-agent given only the property text and a scratch worktree",
        }
        json.dump(meta, open(os.path.join(dst, "meta.json"), "w"), indent=1, ensure_ascii=False)
        return 0
    finally:
        subprocess.call(["git", "-C", "/repo", "worktree", "remove", "--force", wt], stdout=subprocess.DEVNULL, stderr=subprocess.DEVNULL)
        shutil.rmtree(wt, ignore_errors=True)

if __name__ == "__main__":
    sys.exit(main())
