package main

// A3 -- symbolic interval analysis relative to n = 2^hZoom (RANGE rule of C07):
// the horizontal indices printed by the shift function lie in [0, n-1] on
// every path.  Bounds have the form a*n + b (small integers a, b) or +-inf;
// branch conditions on dominating edges refine values; loops fall back to
// (-inf, +inf) for the loop-carried value and are re-refined by the exit test.

import (
	"fmt"
	"go/token"

	"golang.org/x/tools/go/ssa"
)

type sbound struct {
	inf  int // -1 = -inf, +1 = +inf, 0 finite
	a, b int64
}

var negInf = sbound{inf: -1}
var posInf = sbound{inf: 1}

func fin(a, b int64) sbound { return sbound{a: a, b: b} }

func (x sbound) String() string {
	switch x.inf {
	case -1:
		return "-inf"
	case 1:
		return "+inf"
	}
	if x.a == 0 {
		return fmt.Sprint(x.b)
	}
	return fmt.Sprintf("%d*n%+d", x.a, x.b)
}

// leq: x <= y for every n >= 1 ?  (unknown -> false)
func leq(x, y sbound) bool {
	if x.inf == -1 || y.inf == 1 {
		return true
	}
	if x.inf == 1 || y.inf == -1 {
		return false
	}
	da, db := y.a-x.a, y.b-x.b // y - x = da*n + db >= 0 for all n>=1 ?
	if da >= 0 {
		return da+db >= 0 // minimal at n = 1
	}
	return false
}

func minB(x, y sbound) sbound {
	if leq(x, y) {
		return x
	}
	if leq(y, x) {
		return y
	}
	return negInf
}
func maxB(x, y sbound) sbound {
	if leq(x, y) {
		return y
	}
	if leq(y, x) {
		return x
	}
	return posInf
}

// tighter lower bound (for intersection): the larger of the two if comparable
func tightLo(x, y sbound) sbound {
	if leq(x, y) {
		return y
	}
	return x
}
func tightHi(x, y sbound) sbound {
	if leq(x, y) {
		return x
	}
	return y
}

func addB(x, y sbound) sbound {
	if x.inf != 0 {
		return x
	}
	if y.inf != 0 {
		return y
	}
	r := fin(x.a+y.a, x.b+y.b)
	if r.a > 3 || r.a < -3 {
		if r.a > 0 {
			return posInf
		}
		return negInf
	}
	return r
}
func negB(x sbound) sbound {
	if x.inf != 0 {
		return sbound{inf: -x.inf}
	}
	return fin(-x.a, -x.b)
}

type sival struct {
	lo, hi sbound
	unk    bool // involves a construct the analysis does not model
}

var topIval = sival{lo: negInf, hi: posInf}
var unkIval = sival{lo: negInf, hi: posInf, unk: true}

func (v sival) String() string { return "[" + v.lo.String() + ", " + v.hi.String() + "]" }

func hull(x, y sival) sival { return sival{minB(x.lo, y.lo), maxB(x.hi, y.hi), x.unk || y.unk} }
func meet(x, y sival) sival { return sival{tightLo(x.lo, y.lo), tightHi(x.hi, y.hi), x.unk || y.unk} }
func addI(x, y sival) sival { return sival{addB(x.lo, y.lo), addB(x.hi, y.hi), x.unk || y.unk} }
func negI(x sival) sival    { return sival{negB(x.hi), negB(x.lo), x.unk} }
func subI(x, y sival) sival { return addI(x, negI(y)) }
func constI(k int64) sival  { return sival{lo: fin(0, k), hi: fin(0, k)} }
func nonNeg(x sival) bool   { return leq(fin(0, 0), x.lo) }

type rangeEngine struct {
	w     *World
	ke    *KindEngine
	f     *ssa.Function
	busy  map[ssa.Value]bool
	zoom  Kind                // which zoom kind defines n
	bind  map[ssa.Value]sival // parameter bindings (interprocedural)
	depth int
	// closures: captured variables are read in the creating activation
	parent *rangeEngine
	free   map[*ssa.FreeVar]ssa.Value
}

// isN: v == 2^zoom as an integer or float value
func (re *rangeEngine) isPow(v ssa.Value) bool {
	v = stripConv(v)
	if pv, pe := re.capturedValue(v); pv != nil {
		return pe.isPow(pv)
	}
	if c, ok := v.(*ssa.Convert); ok {
		return re.isPow(c.X)
	}
	if c, ok := v.(*ssa.Call); ok && calleeIs(c, "math", "Pow") {
		if k, ok := constFloat(c.Call.Args[0]); ok && k == 2 {
			a := re.ke.Eval(c.Call.Args[1])
			return a != nil && a.Scalar == ks(re.zoom)
		}
	}
	if c, ok := v.(*ssa.Call); ok && calleeIs(c, "math", "Ldexp") {
		if k, ok := constFloat(c.Call.Args[0]); ok && k == 1 {
			a := re.ke.Eval(c.Call.Args[1])
			return a != nil && a.Scalar == ks(re.zoom)
		}
	}
	if c, ok := v.(*ssa.Call); ok && calleeIs(c, modPath+"/common", "CalculateArithmeticShift") {
		if k, ok := constInt(c.Call.Args[0]); ok && k == 1 {
			a := re.ke.Eval(c.Call.Args[1])
			return a != nil && a.Scalar == ks(re.zoom)
		}
	}
	if b, ok := v.(*ssa.BinOp); ok && b.Op == token.SHL {
		if k, ok := constInt(b.X); ok && k == 1 {
			a := re.ke.Eval(b.Y)
			return a != nil && a.Scalar == ks(re.zoom)
		}
	}
	return false
}

// capturedValue: v is a load of a captured variable that is assigned exactly
// once in the creating function: that value and the engine of its function.
func (re *rangeEngine) capturedValue(v ssa.Value) (ssa.Value, *rangeEngine) {
	u, ok := v.(*ssa.UnOp)
	if !ok || u.Op != token.MUL || re.parent == nil {
		return nil, nil
	}
	fv, ok := u.X.(*ssa.FreeVar)
	if !ok {
		return nil, nil
	}
	al, ok := re.free[fv].(*ssa.Alloc)
	if !ok {
		return nil, nil
	}
	n := 0
	var val ssa.Value
	for _, ref := range *al.Referrers() {
		if st, ok := ref.(*ssa.Store); ok && st.Addr == ssa.Value(al) {
			n++
			val = st.Val
		}
	}
	if n != 1 {
		return nil, nil
	}
	return val, re.parent
}

// def: interval of v from its definition (no branch refinement of v itself)
func (re *rangeEngine) def(v ssa.Value, at *ssa.BasicBlock) sival {
	if pv, pe := re.capturedValue(stripConv(v)); pv != nil {
		return pe.def(pv, nil)
	}
	if k, ok := constInt(v); ok {
		return constI(k)
	}
	if k, ok := constFloat(v); ok && k == float64(int64(k)) {
		return constI(int64(k))
	}
	if re.isPow(v) {
		return sival{lo: fin(1, 0), hi: fin(1, 0)}
	}
	if b, ok := re.bind[v]; ok {
		return b
	}
	if re.busy[v] {
		return topIval
	}
	re.busy[v] = true
	defer delete(re.busy, v)
	switch x := v.(type) {
	case *ssa.Convert:
		return re.at(x.X, x.Block())
	case *ssa.ChangeType:
		return re.at(x.X, x.Block())
	case *ssa.BinOp:
		a, b := re.at(x.X, x.Block()), re.at(x.Y, x.Block())
		switch x.Op {
		case token.ADD:
			return addI(a, b)
		case token.SUB:
			return subI(a, b)
		case token.REM:
			return remI(a, b)
		case token.AND:
			// x & (n-1)
			if b.lo == b.hi && b.lo.inf == 0 && b.lo.a == 1 && b.lo.b == -1 {
				return sival{lo: fin(0, 0), hi: fin(1, -1)}
			}
			if a.lo == a.hi && a.lo.inf == 0 && a.lo.a == 1 && a.lo.b == -1 {
				return sival{lo: fin(0, 0), hi: fin(1, -1)}
			}
		case token.MUL, token.QUO, token.SHL, token.SHR:
			return topIval // scaling of an unbounded quantity stays unbounded
		}
		return unkIval
	case *ssa.UnOp:
		if x.Op == token.SUB {
			return negI(re.at(x.X, x.Block()))
		}
		if x.Op == token.MUL {
			// load of a local variable: hull of the stored values
			if al, ok := x.X.(*ssa.Alloc); ok {
				var out *sival
				for _, ref := range *al.Referrers() {
					if st, ok := ref.(*ssa.Store); ok && st.Addr == al {
						iv := re.at(st.Val, st.Block())
						if out == nil {
							out = &iv
						} else {
							h := hull(*out, iv)
							out = &h
						}
					}
				}
				if out != nil {
					return *out
				}
			}
			// element / field of a local aggregate: hull of everything stored into it
			// (element- and flow-insensitive, hence never grounds for a violation)
			if base := localAggregate(x.X); base != nil {
				out := unkIval
				n := 0
				for _, ref := range *base.Referrers() {
					switch a := ref.(type) {
					case *ssa.IndexAddr, *ssa.FieldAddr:
						for _, r2 := range *a.(ssa.Value).Referrers() {
							if st, ok := r2.(*ssa.Store); ok && st.Addr == a.(ssa.Value) {
								iv := re.at(st.Val, st.Block())
								if n == 0 {
									out = iv
								} else {
									out = hull(out, iv)
								}
								n++
							}
						}
					case *ssa.Store:
						if a.Addr == ssa.Value(base) {
							return unkIval // whole-aggregate copy
						}
					}
				}
				if n == 0 {
					return unkIval
				}
				out.unk = true
				return out
			}
			return topIval // field / element loads of non-local memory: unconstrained data
		}
		return unkIval
	case *ssa.Parameter:
		return topIval
	case *ssa.Extract:
		return topIval
	case *ssa.Call:
		if calleeIs(x, "math", "Mod") {
			return remI(re.at(x.Call.Args[0], x.Block()), re.at(x.Call.Args[1], x.Block()))
		}
		if calleeIs(x, "math", "Floor") || calleeIs(x, "math", "Trunc") {
			return re.at(x.Call.Args[0], x.Block())
		}
		if bn := builtinName(x); bn == "min" || bn == "max" {
			out := re.at(x.Call.Args[0], x.Block())
			for _, a := range x.Call.Args[1:] {
				o := re.at(a, x.Block())
				if bn == "min" {
					out = sival{minB(out.lo, o.lo), tightHi(out.hi, o.hi), out.unk || o.unk}
				} else {
					out = sival{tightLo(out.lo, o.lo), maxB(out.hi, o.hi), out.unk || o.unk}
				}
			}
			return out
		}
		if g := calleeOf(x); g != nil {
			if accessorField(g) != nil {
				return topIval // parsed field: unconstrained input data
			}
			if re.w != nil && re.w.InModule(g) && g.Blocks != nil && re.depth < 3 && isIntType(x.Type()) {
				sub := &rangeEngine{w: re.w, ke: re.ke, f: g, busy: map[ssa.Value]bool{}, zoom: re.zoom, bind: map[ssa.Value]sival{}, depth: re.depth + 1}
				if mc, ok := x.Call.Value.(*ssa.MakeClosure); ok {
					sub.parent, sub.free = re, map[*ssa.FreeVar]ssa.Value{}
					for i, fv := range g.FreeVars {
						if i < len(mc.Bindings) {
							sub.free[fv] = mc.Bindings[i]
						}
					}
				}
				for i, p := range g.Params {
					if i < len(x.Call.Args) && (isIntType(p.Type()) || isFloatType(p.Type())) {
						sub.bind[p] = re.at(x.Call.Args[i], x.Block())
					}
				}
				var out *sival
				for _, ret := range returnsOf(g) {
					if len(ret.Results) != 1 {
						return unkIval
					}
					iv := sub.at(ret.Results[0], ret.Block())
					if out == nil {
						out = &iv
					} else {
						h := hull(*out, iv)
						out = &h
					}
				}
				if out != nil {
					return *out
				}
			}
		}
		return unkIval
	case *ssa.Phi:
		var out *sival
		for i, e := range x.Edges {
			iv := re.onEdge(e, x.Block().Preds[i], x.Block())
			if out == nil {
				out = &iv
			} else {
				h := hull(*out, iv)
				out = &h
			}
		}
		if out == nil {
			return topIval
		}
		return *out
	}
	return unkIval
}

// remI: a mod m (Go % or math.Mod: sign follows the dividend)
func remI(a, m sival) sival {
	if !(m.lo == m.hi && m.lo.inf == 0) {
		return topIval
	}
	mm := m.lo // modulus value (a*n+b), assumed >= 1
	top := addB(mm, fin(0, -1))
	if nonNeg(a) {
		return sival{lo: fin(0, 0), hi: top, unk: a.unk}
	}
	return sival{lo: negB(top), hi: top, unk: a.unk}
}

// constraint of `cond == outcome` on value v
func (re *rangeEngine) constraint(cond ssa.Value, outcome bool, v ssa.Value, at *ssa.BasicBlock) (sival, bool) {
	b, ok := cond.(*ssa.BinOp)
	if !ok {
		return topIval, false
	}
	op := b.Op
	var other ssa.Value
	if stripConv(b.X) == stripConv(v) {
		other = b.Y
	} else if stripConv(b.Y) == stripConv(v) {
		other = b.X
		op = flipOp(op)
	} else {
		return topIval, false
	}
	if !outcome {
		switch op {
		case token.LSS:
			op = token.GEQ
		case token.LEQ:
			op = token.GTR
		case token.GTR:
			op = token.LEQ
		case token.GEQ:
			op = token.LSS
		case token.EQL:
			return topIval, false
		case token.NEQ:
			op = token.EQL
		}
	}
	o := re.def(other, at)
	one := fin(0, 1)
	switch op {
	case token.LSS:
		return sival{lo: negInf, hi: addB(o.hi, negB(one))}, true
	case token.LEQ:
		return sival{lo: negInf, hi: o.hi}, true
	case token.GTR:
		return sival{lo: addB(o.lo, one), hi: posInf}, true
	case token.GEQ:
		return sival{lo: o.lo, hi: posInf}, true
	case token.EQL:
		return o, true
	}
	return topIval, false
}

// at: interval of v when control is in block B
func (re *rangeEngine) at(v ssa.Value, B *ssa.BasicBlock) sival {
	iv := re.def(v, B)
	if B == nil {
		return iv
	}
	for _, blk := range re.f.Blocks {
		t, fl, ifi := ifSuccs(blk)
		if ifi == nil || t == fl {
			continue
		}
		for _, s := range []*ssa.BasicBlock{t, fl} {
			if s == B && len(s.Preds) == 1 || edgeDominates(re.f, blk, s, B) {
				if c, ok := re.constraint(ifi.Cond, s == t, v, blk); ok {
					iv = meet(iv, c)
				} else if _, isCall := stripConv(ifi.Cond).(*ssa.Call); isCall {
					iv.unk = true // a predicate the analysis does not interpret guards this block
				} else if u, isNot := ifi.Cond.(*ssa.UnOp); isNot {
					if _, isCall := stripConv(u.X).(*ssa.Call); isCall {
						iv.unk = true
					}
				}
			}
		}
	}
	return iv
}

// onEdge: interval of v when control flows pred -> succ
func (re *rangeEngine) onEdge(v ssa.Value, pred, succ *ssa.BasicBlock) sival {
	iv := re.at(v, pred)
	t, fl, ifi := ifSuccs(pred)
	if ifi != nil && t != fl {
		if c, ok := re.constraint(ifi.Cond, succ == t, v, pred); ok {
			iv = meet(iv, c)
		}
	}
	return iv
}

func ruleIndexRange(w *World, r *Report) {
	r.Rule("RANGE", "symbolic interval analysis relative to n = 2^hZoom over the SSA of the shift function: on every path the printed x and y indices lie in [0, n-1] (sum, difference, remainder/math.Mod with a non-negative dividend, masks and comparison-guarded values are interpreted; anything else is unbounded). Float exactness of Pow/Mod is assumed, not decided")
	fn := "operated.GetShiftingSpatialID"
	f := lookupByName(w, fn)
	if f == nil {
		r.add("RANGE", fn, "?", Unresolved, "function not found")
		return
	}
	ke := kindsFor(w)
	n := 0
	for _, m := range shiftOutputs(w, f) {
		for _, i := range []int{1, 2} {
			axis := map[int]string{1: "x", 2: "y"}[i]
			v, ok := m[i]
			if !ok {
				continue
			}
			n++
			re := &rangeEngine{w: w, ke: ke, f: f, busy: map[ssa.Value]bool{}, zoom: kHZ, bind: map[ssa.Value]sival{}}
			var blk *ssa.BasicBlock
			if in, ok := v.(ssa.Instruction); ok {
				blk = in.Block()
			}
			// evaluate at the block of the consumer (the last block dominated by all refinements): use the return blocks
			iv := re.at(v, blk)
			for _, ret := range returnsOf(f) {
				if s, isS := constString(ret.Results[0]); isS && s == "" {
					continue
				}
				iv = re.at(v, ret.Block())
			}
			key := fmt.Sprintf("%s / printed %s index", fn, axis)
			okLo := leq(fin(0, 0), iv.lo)
			okHi := leq(iv.hi, fin(1, -1))
			pos := w.Pos(f.Pos())
			switch {
			case okLo && okHi:
				r.add("RANGE", key, pos, Discharged, "interval "+iv.String()+" is inside [0, n-1]")
			case iv.unk:
				r.add("RANGE", key, pos, Info, "the printed "+axis+" index passes through a construct the interval analysis does not model; bound "+iv.String()+" (no verdict)")
			case iv.lo == negInf && iv.hi == posInf && reducingConstruct(w, v, 0, map[ssa.Value]bool{}):
				// a remainder, mask, comparison-selected value or helper stands between the index and
				// the printed value, in a form the interval analysis does not read: no verdict
				r.add("RANGE", key, pos, Undecided, "the printed "+axis+" index could only be bounded by "+iv.String()+" (n = 2^hZoom), but its derivation contains a reducing construct the interval analysis does not interpret")
			default:
				r.add("RANGE", key, pos, Violated, "the printed "+axis+" index can only be bounded by "+iv.String()+" (n = 2^hZoom) and nothing in its derivation reduces it; the property requires [0, n-1] on every path")
			}
		}
	}
	if n < 2 {
		r.add("RANGE", fn+" / outputs", w.Pos(f.Pos()), Info, "could not locate the printed x and y indices")
	}
}

// localAggregate: addr is &a[i] / &a.f of an aggregate allocated in this function.
func localAggregate(addr ssa.Value) *ssa.Alloc {
	switch a := addr.(type) {
	case *ssa.IndexAddr:
		if al, ok := a.X.(*ssa.Alloc); ok {
			return al
		}
		if sl, ok := a.X.(*ssa.Slice); ok {
			if al, ok := sl.X.(*ssa.Alloc); ok {
				return al
			}
		}
	case *ssa.FieldAddr:
		if al, ok := a.X.(*ssa.Alloc); ok {
			return al
		}
	}
	return nil
}

// reducingConstruct: the derivation of v (through arithmetic, conversions,
// local variables, phis and the bodies of module callees, three calls deep)
// contains something that can bring a value back into a range: a remainder, a
// mask, math.Mod/Remainder/Floor-based reduction, a value selected by a branch
// (phi), a table lookup, or a call the walk cannot enter.  Its absence means the
// printed index is plain arithmetic on the parsed index and the shift.
func reducingConstruct(w *World, v ssa.Value, depth int, seen map[ssa.Value]bool) bool {
	v = resolve(v)
	if v == nil || seen[v] {
		return false
	}
	seen[v] = true
	switch x := v.(type) {
	case *ssa.BinOp:
		switch x.Op {
		case token.REM, token.AND, token.AND_NOT, token.SHR:
			return true
		}
		return reducingConstruct(w, x.X, depth, seen) || reducingConstruct(w, x.Y, depth, seen)
	case *ssa.UnOp:
		if x.Op == token.MUL {
			return true // a load the walk could not resolve (table, field, captured variable)
		}
		return reducingConstruct(w, x.X, depth, seen)
	case *ssa.Convert:
		return reducingConstruct(w, x.X, depth, seen)
	case *ssa.Phi:
		return true
	case *ssa.Extract:
		return reducingConstruct(w, x.Tuple, depth, seen)
	case *ssa.Call:
		g := calleeOf(x)
		if g == nil {
			return true // closure or interface call
		}
		if accessorField(g) != nil {
			return false // a getter of the parsed ID
		}
		if !w.InModule(g) || g.Blocks == nil {
			if p := pkgOf(g); p != nil && p.Path() == "math" {
				switch g.Name() {
				case "Mod", "Remainder", "Floor", "Trunc", "Min", "Max":
					return true
				}
				for _, a := range x.Call.Args {
					if reducingConstruct(w, a, depth, seen) {
						return true
					}
				}
				return false
			}
			return true
		}
		if depth >= 3 {
			return true
		}
		for _, ret := range returnsOf(g) {
			for _, rv := range ret.Results {
				if reducingConstruct(w, rv, depth+1, seen) {
					return true
				}
			}
		}
		for _, a := range x.Call.Args {
			if reducingConstruct(w, a, depth, seen) {
				return true
			}
		}
		return false
	case *ssa.Parameter, *ssa.Const:
		return false
	}
	return true
}
