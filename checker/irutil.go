package main

import (
	"go/constant"
	"go/token"
	"go/types"
	"strings"

	"golang.org/x/tools/go/ssa"
)

// calleeOf returns the statically resolved callee of a call (function,
// method, or closure created in place); nil for dynamic calls.
func calleeOf(c ssa.CallInstruction) *ssa.Function {
	return c.Common().StaticCallee()
}

// calleeIs reports whether the call's static callee is pkgPath.name (for
// methods: name is "(T).M" or "(*T).M" as printed by RelString).
func calleeIs(c ssa.CallInstruction, pkgPath, name string) bool {
	f := calleeOf(c)
	if f == nil {
		return false
	}
	return funcIs(f, pkgPath, name)
}

func funcIs(f *ssa.Function, pkgPath, name string) bool {
	if f == nil {
		return false
	}
	if o := f.Origin(); o != nil {
		f = o
	}
	p := pkgOf(f)
	if p == nil || p.Path() != pkgPath {
		return false
	}
	return f.RelString(p) == name
}

func isStdCall(c ssa.CallInstruction, pkg, name string) bool { return calleeIs(c, pkg, name) }

// builtinName returns the name of the builtin called ("append", "len", ...), or "".
func builtinName(c ssa.CallInstruction) string {
	if b, ok := c.Common().Value.(*ssa.Builtin); ok {
		return b.Name()
	}
	return ""
}

// constInt returns the value of an integer constant.
func constInt(v ssa.Value) (int64, bool) {
	c, ok := v.(*ssa.Const)
	if !ok || c.Value == nil {
		return 0, false
	}
	if c.Value.Kind() == constant.Int {
		return c.Int64(), true
	}
	if c.Value.Kind() == constant.Float {
		f, _ := constant.Float64Val(c.Value)
		if f == float64(int64(f)) {
			return int64(f), true
		}
	}
	return 0, false
}

func constFloat(v ssa.Value) (float64, bool) {
	c, ok := v.(*ssa.Const)
	if !ok || c.Value == nil {
		return 0, false
	}
	switch c.Value.Kind() {
	case constant.Int, constant.Float:
		f, _ := constant.Float64Val(constant.ToFloat(c.Value))
		return f, true
	}
	return 0, false
}

func constString(v ssa.Value) (string, bool) {
	c, ok := v.(*ssa.Const)
	if !ok || c.Value == nil || c.Value.Kind() != constant.String {
		return "", false
	}
	return constant.StringVal(c.Value), true
}

func isNilConst(v ssa.Value) bool {
	c, ok := v.(*ssa.Const)
	return ok && c.Value == nil
}

// strip removes value-preserving wrappers: ChangeType, numeric Convert between
// integer types of >= width (or int<->int64), MakeInterface is NOT stripped.
func stripConv(v ssa.Value) ssa.Value {
	for {
		switch x := v.(type) {
		case *ssa.ChangeType:
			v = x.X
		case *ssa.Convert:
			if isIntType(x.Type()) && isIntType(x.X.Type()) {
				v = x.X
				continue
			}
			return v
		default:
			return v
		}
	}
}

func isIntType(t types.Type) bool {
	b, ok := t.Underlying().(*types.Basic)
	return ok && b.Info()&types.IsInteger != 0
}

func isSignedInt(t types.Type) bool {
	b, ok := t.Underlying().(*types.Basic)
	return ok && b.Info()&types.IsInteger != 0 && b.Info()&types.IsUnsigned == 0
}

func isFloatType(t types.Type) bool {
	b, ok := t.Underlying().(*types.Basic)
	return ok && b.Info()&types.IsFloat != 0
}

func isStringType(t types.Type) bool {
	b, ok := t.Underlying().(*types.Basic)
	return ok && b.Info()&types.IsString != 0
}

func isErrorType(t types.Type) bool {
	return types.Identical(t, types.Universe.Lookup("error").Type())
}

func isPointer(t types.Type) bool { _, ok := t.Underlying().(*types.Pointer); return ok }
func isSlice(t types.Type) bool   { _, ok := t.Underlying().(*types.Slice); return ok }
func isMap(t types.Type) bool     { _, ok := t.Underlying().(*types.Map); return ok }

// instrs iterates all instructions of a function.
func instrs(f *ssa.Function, fn func(ssa.Instruction)) {
	for _, b := range f.Blocks {
		for _, in := range b.Instrs {
			fn(in)
		}
	}
}

// loadOf: if v is *p (UnOp MUL) returns p.
func loadOf(v ssa.Value) (ssa.Value, bool) {
	u, ok := v.(*ssa.UnOp)
	if ok && u.Op == token.MUL {
		return u.X, true
	}
	return nil, false
}

// fieldOfAddr: if v is &x.f (FieldAddr) or x.f (Field) returns the field var and base.
func fieldOf(v ssa.Value) (*types.Var, ssa.Value, bool) {
	switch x := v.(type) {
	case *ssa.FieldAddr:
		st := derefStruct(x.X.Type())
		if st == nil {
			return nil, nil, false
		}
		return st.Field(x.Field), x.X, true
	case *ssa.Field:
		st, _ := x.X.Type().Underlying().(*types.Struct)
		if st == nil {
			return nil, nil, false
		}
		return st.Field(x.Field), x.X, true
	}
	return nil, nil, false
}

func derefStruct(t types.Type) *types.Struct {
	if p, ok := t.Underlying().(*types.Pointer); ok {
		t = p.Elem()
	}
	st, _ := t.Underlying().(*types.Struct)
	return st
}

// succEdge: for an If instruction block b, returns (trueSucc, falseSucc).
func ifSuccs(b *ssa.BasicBlock) (*ssa.BasicBlock, *ssa.BasicBlock, *ssa.If) {
	if len(b.Instrs) == 0 {
		return nil, nil, nil
	}
	i, ok := b.Instrs[len(b.Instrs)-1].(*ssa.If)
	if !ok {
		return nil, nil, nil
	}
	return b.Succs[0], b.Succs[1], i
}

// reachableFrom computes blocks reachable from start (inclusive) without
// passing through 'avoid' blocks.
func reachableFrom(start *ssa.BasicBlock, avoid map[*ssa.BasicBlock]bool) map[*ssa.BasicBlock]bool {
	seen := map[*ssa.BasicBlock]bool{}
	var walk func(b *ssa.BasicBlock)
	walk = func(b *ssa.BasicBlock) {
		if seen[b] || avoid[b] {
			return
		}
		seen[b] = true
		for _, s := range b.Succs {
			walk(s)
		}
	}
	walk(start)
	return seen
}

// edgeDominates reports whether every path from entry to block t passes
// through the CFG edge from->to.  Computed by removing the edge and testing
// reachability (functions are small).
func edgeDominates(f *ssa.Function, from, to, t *ssa.BasicBlock) bool {
	if len(f.Blocks) == 0 {
		return false
	}
	seen := map[*ssa.BasicBlock]bool{}
	var walk func(b *ssa.BasicBlock)
	walk = func(b *ssa.BasicBlock) {
		if seen[b] {
			return
		}
		seen[b] = true
		for _, s := range b.Succs {
			if b == from && s == to {
				// the removed edge; but if both succs are the same block the
				// edge is not distinguishing
				continue
			}
			walk(s)
		}
	}
	walk(f.Blocks[0])
	return !seen[t]
}

// returnsOf lists the Return instructions of f.
func returnsOf(f *ssa.Function) []*ssa.Return {
	var out []*ssa.Return
	instrs(f, func(in ssa.Instruction) {
		if r, ok := in.(*ssa.Return); ok {
			// the recover block of a function with defer is entered only after a recovered
			// panic; none of the analysed functions recovers
			if f.Recover != nil && r.Block() == f.Recover {
				return
			}
			out = append(out, r)
		}
	})
	return out
}

// errResultIndex returns the index of the (last) error-typed result, or -1.
func errResultIndex(f *ssa.Function) int {
	res := f.Signature.Results()
	for i := res.Len() - 1; i >= 0; i-- {
		if isErrorType(res.At(i).Type()) {
			return i
		}
	}
	return -1
}

// phiLeaves expands phi nodes (transitively) into their non-phi inputs.
func phiLeaves(v ssa.Value) []ssa.Value {
	var out []ssa.Value
	seen := map[ssa.Value]bool{}
	var walk func(ssa.Value)
	walk = func(x ssa.Value) {
		if seen[x] {
			return
		}
		seen[x] = true
		if p, ok := x.(*ssa.Phi); ok {
			for _, e := range p.Edges {
				walk(e)
			}
			return
		}
		out = append(out, x)
	}
	walk(v)
	return out
}

// paramIndex returns the index of v among f's parameters, or -1.
func paramIndex(f *ssa.Function, v ssa.Value) int {
	for i, p := range f.Params {
		if p == v {
			return i
		}
	}
	return -1
}

func shortInstr(in ssa.Instruction) string {
	s := in.String()
	if v, ok := in.(ssa.Value); ok {
		s = v.Name() + " = " + s
	}
	if len(s) > 140 {
		s = s[:140] + "..."
	}
	return strings.ReplaceAll(s, modPath+"/", "")
}

// isErrorCtor: the value is certainly a non-nil error: result of
// errors.NewSpatialIdError / fmt.Errorf / errors.New, or a MakeInterface of a
// non-nil pointer allocation.
var errCtorBusy = map[*ssa.Function]bool{}

func isErrorCtor(v ssa.Value) bool {
	switch x := v.(type) {
	case *ssa.Call:
		f := calleeOf(x)
		if f == nil {
			return false
		}
		if funcIs(f, modPath+"/common/errors", "NewSpatialIdError") || funcIs(f, "fmt", "Errorf") || funcIs(f, "errors", "New") {
			return true
		}
		// module helper that only ever returns a freshly constructed error
		if p := pkgOf(f); p != nil && strings.HasPrefix(p.Path(), modPath) && f.Blocks != nil && f.Signature.Results().Len() == 1 && !errCtorBusy[f] {
			errCtorBusy[f] = true
			defer delete(errCtorBusy, f)
			n := 0
			for _, ret := range returnsOf(f) {
				if len(ret.Results) != 1 || !isErrorCtor(ret.Results[0]) {
					return false
				}
				n++
			}
			return n > 0
		}
	case *ssa.MakeInterface:
		return true
	case *ssa.ChangeInterface:
		return isErrorCtor(x.X)
	case *ssa.UnOp:
		// a package-level sentinel: var errX = errors.New(..), never assigned anything else
		if x.Op == token.MUL {
			if g, ok := x.X.(*ssa.Global); ok {
				return sentinelError(g)
			}
		}
	}
	return false
}

var sentinelCache = map[*ssa.Global]bool{}

// sentinelError: every store to the package-level variable, anywhere in its
// package, stores a freshly constructed error (and there is at least one).
func sentinelError(g *ssa.Global) bool {
	if v, ok := sentinelCache[g]; ok {
		return v
	}
	sentinelCache[g] = false
	if g.Pkg == nil {
		return false
	}
	n, ok := 0, true
	var scan func(f *ssa.Function)
	scan = func(f *ssa.Function) {
		if f == nil || f.Blocks == nil {
			return
		}
		instrs(f, func(in ssa.Instruction) {
			switch y := in.(type) {
			case *ssa.Store:
				if y.Addr == ssa.Value(g) {
					n++
					if !isErrorCtor(y.Val) {
						ok = false
					}
				}
			case *ssa.Call:
				// the address handed to a call: anything may be stored
				for _, a := range y.Call.Args {
					if a == ssa.Value(g) {
						ok = false
					}
				}
			}
		})
		for _, an := range f.AnonFuncs {
			scan(an)
		}
	}
	for _, m := range g.Pkg.Members {
		switch mm := m.(type) {
		case *ssa.Function:
			scan(mm)
		case *ssa.Type:
			mset := g.Pkg.Prog.MethodSets.MethodSet(types.NewPointer(mm.Type()))
			for i := 0; i < mset.Len(); i++ {
				scan(g.Pkg.Prog.MethodValue(mset.At(i)))
			}
		}
	}
	sentinelCache[g] = ok && n > 0
	return ok && n > 0
}

// isSplitCall: strings.Split(x, sep), or strings.SplitN(x, sep, n) with a
// constant n that cannot truncate a text of `fields` fields (n < 0 or
// n > fields): for such texts, and for the question "does the text have
// exactly `fields` fields", both calls agree.
func isSplitCall(call *ssa.Call, fields int64) bool {
	if calleeIs(call, "strings", "Split") {
		return true
	}
	if calleeIs(call, "strings", "SplitN") && len(call.Call.Args) == 3 {
		if n, ok := constInt(call.Call.Args[2]); ok && (n < 0 || n > fields) {
			return true
		}
	}
	return false
}

// argStatus judges "argument a is parameter want, unchanged": discharged when it
// is; violated on positive evidence only (another parameter of the same type --
// a swap -- a constant, or arithmetic on the wanted parameter); anything else
// (a copy in a struct field, a slice element, a helper's result) is undecided.
func argStatus(a ssa.Value, want *ssa.Parameter) Status {
	v := resolve(a)
	if v == ssa.Value(want) {
		return Discharged
	}
	switch x := v.(type) {
	case *ssa.Parameter:
		if types.Identical(x.Type(), want.Type()) {
			return Violated
		}
	case *ssa.Const:
		return Violated
	case *ssa.BinOp:
		if resolve(x.X) == ssa.Value(want) || resolve(x.Y) == ssa.Value(want) {
			return Violated
		}
	}
	return Undecided
}

// worst combines argument verdicts: violated beats undecided beats discharged.
func worst(sts ...Status) Status {
	out := Discharged
	for _, s := range sts {
		if s == Violated {
			return Violated
		}
		if s != Discharged {
			out = Undecided
		}
	}
	return out
}
