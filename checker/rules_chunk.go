package main

// CHUNK: a list cut into K pieces of len/K elements loses its len%K trailing
// elements unless the remainder is dealt with somewhere.

import (
	"fmt"
	"go/token"

	"golang.org/x/tools/go/ssa"
)

// funcGroup: f and the anonymous functions nested in it.
func funcGroup(f *ssa.Function) []*ssa.Function {
	out := []*ssa.Function{f}
	for _, a := range f.AnonFuncs {
		out = append(out, funcGroup(a)...)
	}
	return out
}

// ruleChunks: in every function of the set, `q := len(xs) / K` (K a constant >= 2)
// whose multiples (w*q, (w+1)*q) bound pieces of the work must be accompanied by
// some treatment of the remainder: len(xs) % K, a comparison or difference
// between a multiple of q and len(xs), a piece that runs to the end of the list
// (xs[w*q:]), or min(.., len(xs)).  Otherwise the last len(xs) % K elements
// belong to no piece.
func ruleChunks(w *World, r *Report, in map[*ssa.Function]bool) {
	// the storage-reuse and counter-decoding rules travel with the chunk rule: all three
	// are about loops that must visit every element exactly once
	ruleInplaceGrow(w, r, in)
	ruleRadix(w, r, in)
	r.Rule("CHUNK", "a list that is processed in K pieces of len/K elements (q := len(xs)/K with a constant K; bounds w*q, (w+1)*q) also treats the len%K trailing elements: a remainder, a comparison or difference between a multiple of q and len(xs), a last piece that runs to the end of the list, or min(.., len(xs)); otherwise those elements are silently left out")
	done := map[*ssa.Function]bool{}
	for _, f := range w.ModFuncs {
		if f.Synthetic != "" || f.Blocks == nil || f.Parent() != nil || done[f] {
			continue
		}
		can := w.IsCanary(f)
		if !can && (in == nil || !in[f]) {
			continue
		}
		done[f] = true
		group := funcGroup(f)
		// variables shared with closures: FreeVar -> the captured cell of the parent
		cell := map[ssa.Value]ssa.Value{}
		for _, g := range group {
			instrs(g, func(in ssa.Instruction) {
				mc, ok := in.(*ssa.MakeClosure)
				if !ok {
					return
				}
				fn, _ := mc.Fn.(*ssa.Function)
				if fn == nil {
					return
				}
				for i, b := range mc.Bindings {
					if i < len(fn.FreeVars) {
						cell[fn.FreeVars[i]] = b
					}
				}
			})
		}
		root := func(v ssa.Value) ssa.Value {
			for i := 0; i < 6; i++ {
				v = stripConv(v)
				if fv, ok := v.(*ssa.FreeVar); ok {
					if c, ok := cell[fv]; ok {
						v = c
						continue
					}
				}
				if ld, ok := loadOf(v); ok {
					p := ld
					if fv, ok := p.(*ssa.FreeVar); ok {
						if c, ok := cell[fv]; ok {
							p = c
						}
					}
					if al, ok := p.(*ssa.Alloc); ok {
						if s := onlyStore(al, cell); s != nil {
							v = s
							continue
						}
					}
				}
				r2 := resolve(v)
				if r2 == v {
					break
				}
				v = r2
			}
			return v
		}
		// q = len(list) / K
		ord := 0
		for _, g := range group {
			instrs(g, func(in ssa.Instruction) {
				q, ok := in.(*ssa.BinOp)
				if !ok || q.Op != token.QUO {
					return
				}
				k, isK := constInt(q.Y)
				if !isK || k < 2 {
					return
				}
				lc, ok := root(q.X).(*ssa.Call)
				if !ok || builtinName(lc) != "len" {
					return
				}
				list := root(lc.Call.Args[0])
				isN := func(v ssa.Value) bool {
					c, ok := root(v).(*ssa.Call)
					return ok && builtinName(c) == "len" && root(c.Call.Args[0]) == list
				}
				// Q: values derived from q
				Q := map[ssa.Value]bool{q: true}
				inQ := func(v ssa.Value) bool {
					if Q[v] || Q[stripConv(v)] {
						return true
					}
					rv := root(v)
					return Q[rv]
				}
				mul := false
				for changed := true; changed; {
					changed = false
					for _, h := range group {
						instrs(h, func(in2 ssa.Instruction) {
							switch x := in2.(type) {
							case *ssa.BinOp:
								if Q[x] {
									return
								}
								switch x.Op {
								case token.MUL, token.ADD, token.SUB:
									if inQ(x.X) || inQ(x.Y) {
										Q[x] = true
										changed = true
										if x.Op == token.MUL {
											mul = true
										}
									}
								}
							case *ssa.Phi:
								if Q[x] {
									return
								}
								for _, e := range x.Edges {
									if inQ(e) {
										Q[x] = true
										changed = true
									}
								}
							case *ssa.Convert:
								if !Q[x] && inQ(x.X) {
									Q[x] = true
									changed = true
								}
							case ssa.CallInstruction:
								// arguments handed to a closure of the group
								var fn *ssa.Function
								if mc, ok := x.Common().Value.(*ssa.MakeClosure); ok {
									fn, _ = mc.Fn.(*ssa.Function)
								} else if ff, ok := x.Common().Value.(*ssa.Function); ok {
									fn = ff
								}
								if fn == nil {
									return
								}
								isMember := false
								for _, m := range group {
									if m == fn {
										isMember = true
									}
								}
								if !isMember {
									return
								}
								for i, a := range x.Common().Args {
									if i < len(fn.Params) && inQ(a) && !Q[fn.Params[i]] {
										Q[fn.Params[i]] = true
										changed = true
									}
								}
							}
						})
					}
				}
				if !mul {
					return // n/2 as a midpoint, an average, ...: not a partition into pieces
				}
				handled := ""
				for _, h := range group {
					instrs(h, func(in2 ssa.Instruction) {
						if handled != "" {
							return
						}
						switch x := in2.(type) {
						case *ssa.BinOp:
							switch x.Op {
							case token.REM:
								if isN(x.X) {
									handled = "remainder " + shortInstr(x)
								}
							case token.SUB, token.LSS, token.LEQ, token.GTR, token.GEQ, token.EQL, token.NEQ:
								if (inQ(x.X) && isN(x.Y)) || (inQ(x.Y) && isN(x.X)) {
									handled = "compared with / subtracted from the length: " + shortInstr(x)
								}
							}
						case *ssa.Slice:
							if root(x.X) == list && x.Low != nil && inQ(x.Low) && (x.High == nil || isN(x.High)) {
								handled = "a piece that runs to the end of the list: " + shortInstr(x)
							}
						case *ssa.Call:
							if bn := builtinName(x); bn == "min" || bn == "max" {
								hasQ, hasN := false, false
								for _, a := range x.Call.Args {
									if inQ(a) {
										hasQ = true
									}
									if isN(a) {
										hasN = true
									}
								}
								if hasQ && hasN {
									handled = shortInstr(x)
								}
							}
						}
					})
				}
				ord++
				key := fmt.Sprintf("CHUNK / %s / division#%d of a length by %d", w.FuncName(f), ord, k)
				if handled != "" {
					r.Add(Obligation{Rule: "CHUNK", Key: key, Pos: w.Pos(q.Pos()), Status: Discharged, Detail: "the remainder is treated: " + handled, Canary: can})
				} else {
					r.Add(Obligation{Rule: "CHUNK", Key: key, Pos: w.Pos(q.Pos()), Status: Violated, Detail: fmt.Sprintf("the list is processed in pieces of len/%d elements (%s) whose bounds are multiples of that quotient, and nothing treats the len%%%d trailing elements: they are in no piece", k, shortInstr(q), k), Canary: can})
				}
			})
		}
	}
}

// onlyStore: the single value ever stored into the local variable, counting
// stores made through the free variables of closures that captured it.
func onlyStore(al *ssa.Alloc, cell map[ssa.Value]ssa.Value) ssa.Value {
	var val ssa.Value
	n := 0
	count := func(addr ssa.Value) {
		if addr.Referrers() == nil {
			return
		}
		for _, ref := range *addr.Referrers() {
			if st, ok := ref.(*ssa.Store); ok && st.Addr == addr {
				n++
				val = st.Val
			}
		}
	}
	count(al)
	for fv, c := range cell {
		if c == ssa.Value(al) {
			count(fv)
		}
	}
	if n == 1 {
		return val
	}
	return nil
}
