package main

func init() {
	register(&propSpec{ID: "KDUMP", Level: "other", Explain: "debug", Run: func(w *World, r *Report, tier string) {
		kr := kindRulesFor(w)
		unresolvedSeeds(w, r)
		kr.emit(w, r, []string{"KIND-CALL", "KIND-LAYOUT", "KIND-STORE", "ROUND", "FLOOR-NOBIAS"}, nil)
		ashiftRule(w, r)
	}})
}
