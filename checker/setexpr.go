package main

// Set expressions: a small abstract domain for the generic list helpers of
// package common (C20).  A list or map value is described, relative to the
// list parameters of the function under analysis, by a term
//
//	P<i>                         the list parameter i (a sequence)
//	cat(a,b,..)                  concatenation
//	set{a,b,..}                  the set of all elements of the lists a, b, ..
//	keys(S)                      every element of the set S once, any order
//	filter(a,hit|miss,S)         the sub-sequence of a whose elements are / are not in S
//	contains(a,x<i>)             bool: parameter i occurs in the list a
//
// Terms are derived from the SSA form: total range loops that insert every
// element into a map, loops that append the keys of a map range, loops that
// append the current element behind a membership test, the slices/maps
// helpers of the standard library (Concat, Clone, Contains, Index,
// DeleteFunc with a membership closure, Collect(maps.Keys)), spread appends
// onto an empty list, and module helpers through their own terms with the
// arguments substituted.  Anything else has no term (""), which the rule
// reports as undecided; a term that differs from the operation's definition
// is positive evidence of a different operation.

import (
	"fmt"
	"go/token"
	"go/types"
	"sort"
	"strings"

	"golang.org/x/tools/go/ssa"
)

type sxEngine struct {
	w    *World
	busy map[string]bool
}

func (e *sxEngine) stdName(c *ssa.Call) (pkg, name string) {
	g := calleeOf(c)
	if g == nil || pkgOf(g) == nil {
		return "", ""
	}
	name = g.Name()
	if o := g.Origin(); o != nil {
		name = o.Name()
	}
	return pkgOf(g).Path(), name
}

func sxCat(parts []string) string {
	var flat []string
	for _, p := range parts {
		if p == "" {
			return ""
		}
		if p == "nil" {
			continue
		}
		if strings.HasPrefix(p, "cat(") {
			flat = append(flat, splitTop(p[4:len(p)-1])...)
		} else {
			flat = append(flat, p)
		}
	}
	switch len(flat) {
	case 0:
		return "nil"
	case 1:
		return flat[0]
	}
	return "cat(" + strings.Join(flat, ",") + ")"
}

func sxSet(lists []string) string {
	m := map[string]bool{}
	for _, l := range lists {
		if l == "" {
			return ""
		}
		if l == "nil" {
			continue
		}
		if strings.HasPrefix(l, "cat(") {
			for _, p := range splitTop(l[4 : len(l)-1]) {
				m[p] = true
			}
		} else if strings.HasPrefix(l, "keys(set{") {
			// the keys of a set carry the same elements as the set
			for _, p := range splitTop(l[len("keys(set{") : len(l)-2]) {
				m[p] = true
			}
		} else {
			m[l] = true
		}
	}
	var ks []string
	for k := range m {
		ks = append(ks, k)
	}
	sort.Strings(ks)
	return "set{" + strings.Join(ks, ",") + "}"
}

// splitTop splits a comma list at nesting depth 0.
func splitTop(s string) []string {
	var out []string
	d, start := 0, 0
	for i, r := range s {
		switch r {
		case '(', '{':
			d++
		case ')', '}':
			d--
		case ',':
			if d == 0 {
				out = append(out, s[start:i])
				start = i + 1
			}
		}
	}
	if start < len(s) {
		out = append(out, s[start:])
	}
	return out
}

// list: term of a slice value in function f (env: terms of f's parameters).
func (e *sxEngine) list(f *ssa.Function, v ssa.Value, env map[*ssa.Parameter]string, depth int) string {
	if depth > 8 {
		return ""
	}
	v = resolve(v)
	switch x := v.(type) {
	case *ssa.Parameter:
		return env[x]
	case *ssa.Const:
		if x.Value == nil {
			return "nil"
		}
		return ""
	case *ssa.Slice:
		if x.Low == nil && x.High == nil && x.Max == nil {
			if _, isAlloc := x.X.(*ssa.Alloc); !isAlloc {
				return e.list(f, x.X, env, depth+1)
			}
		}
		if isEmptySliceBase(v) {
			return "nil"
		}
		return ""
	case *ssa.MakeSlice:
		if isEmptySliceBase(v) {
			return "nil"
		}
		return ""
	case *ssa.Extract:
		return ""
	case *ssa.Phi:
		return e.accumulator(f, x, env, depth+1)
	case *ssa.Call:
		if builtinName(x) == "append" {
			if reachesItself(x) {
				return ""
			}
			elems, spread := appendedElems(x)
			if spread == nil || len(elems) != 0 {
				return ""
			}
			return sxCat([]string{e.list(f, x.Call.Args[0], env, depth+1), e.list(f, spread, env, depth+1)})
		}
		pkg, name := e.stdName(x)
		switch {
		case pkg == "slices" && name == "Concat":
			vals, ok := sliceLiteral(x.Call.Args[0])
			if !ok {
				return ""
			}
			var parts []string
			for _, p := range vals {
				parts = append(parts, e.list(f, p, env, depth+1))
			}
			return sxCat(parts)
		case pkg == "slices" && (name == "Clone" || name == "Clip" || name == "Grow"):
			return e.list(f, x.Call.Args[0], env, depth+1)
		case pkg == "slices" && (name == "Collect" || name == "Sorted"):
			if kc, ok := resolve(x.Call.Args[0]).(*ssa.Call); ok {
				if p2, n2 := e.stdName(kc); p2 == "maps" && n2 == "Keys" {
					if s := e.set(f, kc.Call.Args[0], env, depth+1); s != "" {
						return "keys(" + s + ")"
					}
				}
			}
			return ""
		case pkg == "slices" && name == "DeleteFunc":
			src := e.list(f, x.Call.Args[0], env, depth+1)
			set, hit := e.membershipClosure(f, x.Call.Args[1], env, depth+1)
			if src == "" || set == "" {
				return ""
			}
			// elements for which the predicate holds are deleted
			if hit {
				return "filter(" + src + ",miss," + set + ")"
			}
			return "filter(" + src + ",hit," + set + ")"
		}
		g := calleeOf(x)
		if g != nil && e.w.InModule(g) && g.Blocks != nil {
			return e.summary(g, x.Call.Args, f, env, depth+1)
		}
	}
	if isEmptySliceBase(v) {
		return "nil"
	}
	return ""
}

// summary: term of the (first) result of module function g for the given arguments.
func (e *sxEngine) summary(g *ssa.Function, args []ssa.Value, f *ssa.Function, env map[*ssa.Parameter]string, depth int) string {
	genv := map[*ssa.Parameter]string{}
	keyParts := []string{fmt.Sprintf("%p", g)}
	for i, p := range g.Params {
		if i >= len(args) {
			break
		}
		switch p.Type().Underlying().(type) {
		case *types.Slice:
			genv[p] = e.list(f, args[i], env, depth+1)
		case *types.Map:
			genv[p] = e.set(f, args[i], env, depth+1)
		default:
			if ap, ok := resolve(args[i]).(*ssa.Parameter); ok {
				genv[p] = env[ap]
				if genv[p] == "" {
					genv[p] = fmt.Sprintf("x%d", paramIndex(f, ap))
				}
			}
		}
		keyParts = append(keyParts, genv[p])
	}
	key := strings.Join(keyParts, "|")
	if e.busy[key] {
		return ""
	}
	e.busy[key] = true
	defer delete(e.busy, key)
	out := ""
	for _, ret := range returnsOf(g) {
		if len(ret.Results) == 0 {
			return ""
		}
		var t string
		switch ret.Results[0].Type().Underlying().(type) {
		case *types.Map:
			t = e.set(g, ret.Results[0], genv, depth+1)
		case *types.Basic:
			t = e.boolean(g, ret.Results[0], genv, depth+1)
		default:
			t = e.list(g, ret.Results[0], genv, depth+1)
		}
		if t == "" || (out != "" && out != t) {
			return ""
		}
		out = t
	}
	return out
}

// totalLoop: the range loop has no exit other than exhausting its operand.
func totalLoop(blocks map[*ssa.BasicBlock]bool, header *ssa.BasicBlock) bool {
	for b := range blocks {
		for _, s := range b.Succs {
			if !blocks[s] && s != header && b != header {
				return false
			}
		}
		if _, ok := b.Instrs[len(b.Instrs)-1].(*ssa.Return); ok {
			return false
		}
	}
	return true
}

// set: term of a map value used as a set.
func (e *sxEngine) set(f *ssa.Function, v ssa.Value, env map[*ssa.Parameter]string, depth int) string {
	if depth > 8 {
		return ""
	}
	v = resolve(v)
	switch x := v.(type) {
	case *ssa.Parameter:
		return env[x]
	case *ssa.Call:
		if g := calleeOf(x); g != nil && e.w.InModule(g) && g.Blocks != nil {
			base := e.summary(g, x.Call.Args, f, env, depth+1)
			// s := setOf(l1); for _, d := range l2 { s[d] = struct{}{} }: the helper's set plus
			// what this function inserts into it with total loops
			if strings.HasPrefix(base, "set{") && strings.HasSuffix(base, "}") && x.Referrers() != nil {
				lists := splitTop(base[4 : len(base)-1])
				for _, ref := range *x.Referrers() {
					mu, ok := ref.(*ssa.MapUpdate)
					if !ok {
						continue
					}
					found := false
					for _, sr := range findSliceRanges(f) {
						if !sr.blocks()[mu.Block()] || !sr.isElem(resolve(mu.Key)) {
							continue
						}
						if !totalLoop(sr.blocks(), sr.Header) || reachableFrom(sr.Body, map[*ssa.BasicBlock]bool{mu.Block(): true})[sr.Header] {
							return ""
						}
						l := e.list(f, sr.X, env, depth+1)
						if l == "" {
							return ""
						}
						lists = append(lists, l)
						found = true
					}
					if !found {
						return ""
					}
				}
				return sxSet(lists)
			}
			return base
		}
		return ""
	case *ssa.MakeMap:
		var lists []string
		n := 0
		// the map and the loads of a write-once local cell that holds it
		refs := append([]ssa.Instruction{}, *x.Referrers()...)
		for _, ref := range *x.Referrers() {
			st, ok := ref.(*ssa.Store)
			if !ok {
				continue
			}
			al, ok := st.Addr.(*ssa.Alloc)
			if !ok || singleStore2(al) != ssa.Value(x) {
				return ""
			}
			for _, r2 := range *al.Referrers() {
				switch ld := r2.(type) {
				case *ssa.UnOp:
					refs = append(refs, *ld.Referrers()...)
				case *ssa.Store, *ssa.MakeClosure, *ssa.DebugRef:
				default:
					return ""
				}
			}
		}
		for _, ref := range refs {
			switch y := ref.(type) {
			case *ssa.MapUpdate:
				n++
				ok := false
				for _, sr := range findSliceRanges(f) {
					if !sr.blocks()[y.Block()] || !sr.isElem(resolve(y.Key)) {
						continue
					}
					if !totalLoop(sr.blocks(), sr.Header) {
						return ""
					}
					if reachableFrom(sr.Body, map[*ssa.BasicBlock]bool{y.Block(): true})[sr.Header] {
						return "" // an element can be skipped
					}
					l := e.list(f, sr.X, env, depth+1)
					if l == "" {
						return ""
					}
					lists = append(lists, l)
					ok = true
				}
				if !ok {
					return ""
				}
			case *ssa.Lookup, *ssa.Range, *ssa.DebugRef, *ssa.Return, *ssa.Store, *ssa.MakeClosure:
			case *ssa.Call:
				if bn := builtinName(y); bn == "len" {
					continue
				}
				// handed to a callee: it must not change the map
				g := calleeOf(y)
				if g == nil || !e.w.InModule(g) {
					if p, _ := e.stdName(y); p == "maps" || p == "slices" {
						continue
					}
					return ""
				}
				writes := false
				instrs(g, func(in ssa.Instruction) {
					switch z := in.(type) {
					case *ssa.MapUpdate:
						if _, isP := resolve(z.Map).(*ssa.Parameter); isP {
							writes = true
						}
					case *ssa.Call:
						if bn := builtinName(z); bn == "delete" || bn == "clear" {
							writes = true
						}
					}
				})
				if writes {
					return ""
				}
			default:
				return ""
			}
		}
		if n == 0 {
			return ""
		}
		return sxSet(lists)
	}
	return ""
}

// membership: cond is a test "elem is in S": returns the set term and whether
// a true outcome means a hit.
func (e *sxEngine) membership(f *ssa.Function, cond ssa.Value, isElem func(ssa.Value) bool, env map[*ssa.Parameter]string, depth int) (string, bool) {
	cond = resolve(cond)
	switch x := cond.(type) {
	case *ssa.UnOp:
		if x.Op == token.NOT {
			s, hit := e.membership(f, x.X, isElem, env, depth+1)
			return s, !hit
		}
	case *ssa.Extract:
		if lk, ok := x.Tuple.(*ssa.Lookup); ok && x.Index == 1 && isElem(resolve(lk.Index)) {
			return e.set(f, lk.X, env, depth+1), true
		}
	case *ssa.Lookup:
		if b, ok := x.Type().Underlying().(*types.Basic); ok && b.Kind() == types.Bool && isElem(resolve(x.Index)) {
			// map[T]bool used as a set: only true is ever stored
			return e.set(f, x.X, env, depth+1), true
		}
	case *ssa.Call:
		pkg, name := e.stdName(x)
		if (pkg == "slices" && name == "Contains" || pkg == modPath+"/common" && name == "Include") && len(x.Call.Args) == 2 && isElem(resolve(x.Call.Args[1])) {
			if l := e.list(f, x.Call.Args[0], env, depth+1); l != "" {
				return sxSet([]string{l}), true
			}
		}
	}
	return "", false
}

// membershipClosure: fn is func(x T) bool { return x is (not) in S }.
func (e *sxEngine) membershipClosure(f *ssa.Function, fn ssa.Value, env map[*ssa.Parameter]string, depth int) (string, bool) {
	mc, ok := fn.(*ssa.MakeClosure)
	if !ok {
		return "", false
	}
	g := mc.Fn.(*ssa.Function)
	if len(g.Params) != 1 {
		return "", false
	}
	// captured variables: the closure reads *freevar; map it to the value stored in the cell
	captured := func(v ssa.Value) ssa.Value {
		if ld, ok := loadOf(v); ok {
			if fv, ok := ld.(*ssa.FreeVar); ok {
				for i, x := range g.FreeVars {
					if x == fv && i < len(mc.Bindings) {
						if al, ok := mc.Bindings[i].(*ssa.Alloc); ok {
							return singleStore2(al)
						}
					}
				}
			}
		}
		return nil
	}
	set, hit, n := "", false, 0
	for _, ret := range returnsOf(g) {
		if len(ret.Results) != 1 {
			return "", false
		}
		cond := resolve(ret.Results[0])
		neg := false
		if u, ok := cond.(*ssa.UnOp); ok && u.Op == token.NOT {
			cond, neg = resolve(u.X), true
		}
		var mv ssa.Value
		switch x := cond.(type) {
		case *ssa.Extract:
			if lk, ok := x.Tuple.(*ssa.Lookup); ok && x.Index == 1 && resolve(lk.Index) == ssa.Value(g.Params[0]) {
				mv = captured(lk.X)
			}
		case *ssa.Lookup:
			if resolve(x.Index) == ssa.Value(g.Params[0]) {
				mv = captured(x.X)
			}
		}
		if mv == nil {
			return "", false
		}
		s := e.set(f, mv, env, depth+1)
		if s == "" || (n > 0 && (s != set || hit != !neg)) {
			return "", false
		}
		set, hit = s, !neg
		n++
	}
	return set, hit
}

// singleStore2: the only value ever stored (as a whole) into the local cell.
func singleStore2(al *ssa.Alloc) ssa.Value {
	var val ssa.Value
	n := 0
	for _, ref := range *al.Referrers() {
		if st, ok := ref.(*ssa.Store); ok && st.Addr == ssa.Value(al) {
			n++
			val = st.Val
		}
	}
	if n == 1 {
		return val
	}
	return nil
}

// accumulator: term of a loop-carried list (phi of an append chain).
func (e *sxEngine) accumulator(f *ssa.Function, p *ssa.Phi, env map[*ssa.Parameter]string, depth int) string {
	ai := appendChain(p)
	if len(ai.Appends) != 1 {
		return ""
	}
	for _, b := range ai.Bases {
		if !isEmptySliceBase(b) && !isNilConst(b) {
			return ""
		}
	}
	ap := ai.Appends[0]
	elems, spread := appendedElems(ap)
	if spread != nil || len(elems) != 1 {
		return ""
	}
	el := resolve(elems[0])
	// keys of a map range
	for _, mr := range findMapRanges(f) {
		if k := mr.key(); k != nil && el == k && mr.blocks()[ap.Block()] {
			if !totalLoop(mr.blocks(), mr.Header) || reachableFrom(mr.Body, map[*ssa.BasicBlock]bool{ap.Block(): true})[mr.Header] {
				return ""
			}
			if s := e.set(f, mr.Range.X, env, depth+1); s != "" {
				return "keys(" + s + ")"
			}
			return ""
		}
	}
	for _, sr := range findSliceRanges(f) {
		if !sr.blocks()[ap.Block()] || !sr.isElem(el) {
			continue
		}
		for _, in := range findSliceRanges(f) {
			if in != sr && sr.blocks()[in.Header] && in.blocks()[ap.Block()] {
				return ""
			}
		}
		if !totalLoop(sr.blocks(), sr.Header) {
			return ""
		}
		src := e.list(f, sr.X, env, depth+1)
		if src == "" {
			return ""
		}
		// unconditional copy?
		if !reachableFrom(sr.Body, map[*ssa.BasicBlock]bool{ap.Block(): true})[sr.Header] {
			return src
		}
		// one membership test decides
		for b := range sr.blocks() {
			t, fl, ifi := ifSuccs(b)
			if ifi == nil {
				continue
			}
			set, hitOnTrue := e.membership(f, ifi.Cond, sr.isElem, env, depth+1)
			if set == "" {
				continue
			}
			for _, side := range []struct {
				succ, other *ssa.BasicBlock
				hit         bool
			}{{t, fl, hitOnTrue}, {fl, t, !hitOnTrue}} {
				if !(side.succ == ap.Block() || blockDominatedByEdge(f, b, side.succ, ap.Block())) {
					continue
				}
				// every element on this side is appended, none on the other side
				if side.succ != ap.Block() && reachableFrom(side.succ, map[*ssa.BasicBlock]bool{ap.Block(): true})[sr.Header] {
					return ""
				}
				if reachableFrom(side.other, map[*ssa.BasicBlock]bool{sr.Header: true})[ap.Block()] {
					return ""
				}
				// and the test is reached by every iteration
				if reachableFrom(sr.Body, map[*ssa.BasicBlock]bool{b: true})[sr.Header] {
					return ""
				}
				if side.hit {
					return "filter(" + src + ",hit," + set + ")"
				}
				return "filter(" + src + ",miss," + set + ")"
			}
		}
		return ""
	}
	return ""
}

// boolean: term of a bool result: contains(list, x<i>).
func (e *sxEngine) boolean(f *ssa.Function, v ssa.Value, env map[*ssa.Parameter]string, depth int) string {
	v = resolve(v)
	if c, ok := v.(*ssa.Call); ok {
		pkg, name := e.stdName(c)
		if pkg == "slices" && name == "Contains" && len(c.Call.Args) == 2 {
			if p, ok := resolve(c.Call.Args[1]).(*ssa.Parameter); ok {
				if l := e.list(f, c.Call.Args[0], env, depth+1); l != "" {
					return fmt.Sprintf("contains(%s,x%d)", l, paramIndex(f, p))
				}
			}
		}
		if g := calleeOf(c); g != nil && e.w.InModule(g) && g.Blocks != nil {
			return e.summary(g, c.Call.Args, f, env, depth+1)
		}
	}
	if b, ok := v.(*ssa.BinOp); ok {
		// slices.Index(list, x) >= 0 / != -1
		if c, ok := resolve(b.X).(*ssa.Call); ok {
			pkg, name := e.stdName(c)
			k, isK := constInt(b.Y)
			if pkg == "slices" && name == "Index" && isK && ((b.Op == token.GEQ && k == 0) || (b.Op == token.NEQ && k == -1) || (b.Op == token.GTR && k == -1)) {
				if p, ok := resolve(c.Call.Args[1]).(*ssa.Parameter); ok {
					if l := e.list(f, c.Call.Args[0], env, depth+1); l != "" {
						return fmt.Sprintf("contains(%s,x%d)", l, paramIndex(f, p))
					}
				}
			}
		}
	}
	return ""
}

// scanContains: f is a linear scan answering true from inside the loop behind
// elem == target and false after the total scan: contains(list, x<i>).
func (e *sxEngine) scanContains(f *ssa.Function, env map[*ssa.Parameter]string) string {
	var loop *sliceRange
	for _, sr := range findSliceRanges(f) {
		if loop != nil {
			return ""
		}
		loop = sr
	}
	if loop == nil {
		return ""
	}
	src := e.list(f, loop.X, env, 0)
	if src == "" {
		return ""
	}
	target := -1
	nT, nF := 0, 0
	for _, ret := range returnsOf(f) {
		k, ok := resolve(ret.Results[0]).(*ssa.Const)
		if !ok || k.Value == nil {
			return ""
		}
		inLoop := loop.blocks()[ret.Block()]
		switch {
		case k.Value.String() == "true" && inLoop:
			okc := false
			for _, blk := range f.Blocks {
				t, _, ifi := ifSuccs(blk)
				if ifi == nil || t != ret.Block() {
					continue
				}
				c, ok := ifi.Cond.(*ssa.BinOp)
				if !ok || c.Op != token.EQL {
					continue
				}
				for _, pr := range [][2]ssa.Value{{c.X, c.Y}, {c.Y, c.X}} {
					if p, isP := resolve(pr[1]).(*ssa.Parameter); isP && loop.isElem(resolve(pr[0])) {
						target = paramIndex(f, p)
						okc = true
					}
				}
			}
			if !okc {
				return ""
			}
			nT++
		case k.Value.String() == "false" && !inLoop:
			nF++
		default:
			return "other"
		}
	}
	// the loop leaves only through its exhaustion or the true answer
	for b := range loop.blocks() {
		for _, s := range b.Succs {
			if !loop.blocks()[s] && s != loop.Header && b != loop.Header {
				if _, isRet := s.Instrs[len(s.Instrs)-1].(*ssa.Return); !isRet {
					return "other"
				}
			}
		}
	}
	if nT == 0 || nF == 0 || target < 0 {
		return ""
	}
	return fmt.Sprintf("contains(%s,x%d)", src, target)
}
