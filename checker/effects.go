package main

// A5 EFFECT: which abstract locations may a function write?
//
//   Param(i)   memory reachable from parameter i (receiver = parameter 0)
//   Global(g)  memory reachable from package-level variable g
//   FreeVar(k) memory reachable from captured variable k (closures)
//   Unknown    origin could not be traced
//   Fresh      allocated during this activation (not reported)
//
// Summaries are computed to a fixpoint over the resolved call graph (static
// callees + VTA edges), for module code and third-party dependencies from
// their SSA bodies; the Go standard library is summarised by a small table.

import (
	"fmt"
	"go/types"
	"os"
	"sort"
	"strings"

	"golang.org/x/tools/go/callgraph"
	"golang.org/x/tools/go/ssa"
)

type rootKind int

const (
	rParam rootKind = iota
	rGlobal
	rFreeVar
	rUnknown
	rFresh
)

type Root struct {
	Kind rootKind
	Idx  int
	G    *ssa.Global
	Site ssa.Value // for rFresh: the allocating value
	Deep bool      // reached through at least one load from the root's memory
}

func (r Root) String() string {
	switch r.Kind {
	case rParam:
		if r.Deep {
			return fmt.Sprintf("param#%d(deep)", r.Idx)
		}
		return fmt.Sprintf("param#%d", r.Idx)
	case rGlobal:
		return "global " + r.G.String()
	case rFreeVar:
		return fmt.Sprintf("freevar#%d", r.Idx)
	case rUnknown:
		return "unknown"
	}
	return "fresh"
}

type rootSet map[Root]bool

func (s rootSet) addAll(o rootSet) bool {
	ch := false
	for r := range o {
		if !s[r] {
			s[r] = true
			ch = true
		}
	}
	return ch
}

type Witness struct {
	Pos   string
	What  string
	Chain []string
	// Loc: type of the object written into (the struct of a field store, the
	// slice/array of an element store, the map of an update, else the type of
	// the stored location); nil = unknown.  Go being type-safe, such a write
	// can only land in memory reachable from a root whose type can contain a
	// location of that type.
	Loc types.Type
}

func (w *Witness) String() string {
	if w == nil {
		return ""
	}
	s := w.What + " at " + w.Pos
	if len(w.Chain) > 0 {
		s += " via " + strings.Join(w.Chain, " -> ")
	}
	return s
}

type FuncEffect struct {
	WritesParam     map[int]*Witness // writes the object the parameter refers to directly
	WritesParamDeep map[int]*Witness // writes memory reached from the parameter through a load
	WritesGlobal    map[*ssa.Global]*Witness
	WritesFree      map[int]*Witness // writes the captured variable's own cell (*fv = v)
	WritesFreeDeep  map[int]*Witness // writes memory reached from the captured variable through a load
	WritesUnknown   *Witness
	// roots the results may alias / reach (rFresh collapsed to Site=nil)
	RetFrom rootSet
	// the same, per result position (a pointer result does not alias what only the
	// error result refers to); nil for table-summarised functions
	RetIdx map[int]rootSet
	// the objects the results ARE (top level), as opposed to what they contain: a helper
	// that returns a fresh map filled from its parameter has RetTop = {fresh}, RetIdx =
	// {fresh, param}; writing an entry of that map does not write the parameter
	RetTop map[int]rootSet
	Spawns *Witness // go statement reachable
}

func newEffect() *FuncEffect {
	return &FuncEffect{WritesParam: map[int]*Witness{}, WritesParamDeep: map[int]*Witness{}, WritesGlobal: map[*ssa.Global]*Witness{}, WritesFree: map[int]*Witness{}, WritesFreeDeep: map[int]*Witness{}, RetFrom: rootSet{}}
}

type Effects struct {
	w        *World
	sum      map[*ssa.Function]*FuncEffect
	callees  map[ssa.CallInstruction][]*ssa.Function
	Reach    []*ssa.Function // analysed (non-std) functions reachable from the roots
	reachSet map[*ssa.Function]bool
	StdCalls map[string]int // std functions called from analysed code
	changed  bool
	// statistics
	Stores, MapUpdates, Calls, DynCalls, Callbacks int
	UnknownNotes                                   []string
}

func isStd(f *ssa.Function) bool {
	p := pkgOf(f)
	if p == nil {
		return false
	}
	path := p.Path()
	first := path
	if i := strings.Index(path, "/"); i >= 0 {
		first = path[:i]
	}
	return !strings.Contains(first, ".")
}

func refCarrying(t types.Type) bool {
	return refCarryingDepth(t, 0)
}

func refCarryingDepth(t types.Type, d int) bool {
	if d > 6 {
		return true
	}
	switch u := t.Underlying().(type) {
	case *types.Basic:
		return u.Kind() == types.UnsafePointer
	case *types.Pointer, *types.Slice, *types.Map, *types.Chan, *types.Signature, *types.Interface:
		return true
	case *types.Struct:
		for i := 0; i < u.NumFields(); i++ {
			if refCarryingDepth(u.Field(i).Type(), d+1) {
				return true
			}
		}
		return false
	case *types.Array:
		return refCarryingDepth(u.Elem(), d+1)
	case *types.Tuple:
		for i := 0; i < u.Len(); i++ {
			if refCarryingDepth(u.At(i).Type(), d+1) {
				return true
			}
		}
		return false
	}
	return true // type parameters etc.
}

// std summary table -----------------------------------------------------

// stdMutatesArg0: standard-library functions that write through argument 0.
func stdMutatesArg0(f *ssa.Function) bool {
	p := pkgOf(f)
	if p == nil {
		return false
	}
	name := f.Name()
	if o := f.Origin(); o != nil {
		name = o.Name()
	}
	switch p.Path() {
	case "sort":
		switch name {
		case "Float64s", "Strings", "Ints", "Slice", "SliceStable", "Sort", "Stable":
			return true
		}
	case "slices":
		switch name {
		case "Sort", "SortFunc", "SortStableFunc", "Reverse", "Insert", "Delete", "DeleteFunc", "Compact", "CompactFunc", "Replace", "Grow", "Clip":
			return true
		}
	case "maps":
		switch name {
		case "Copy", "DeleteFunc", "Insert":
			return true
		}
	case "math/rand", "math/rand/v2":
		return name == "Shuffle"
	}
	// (*sync.Once).Do writes nothing but the Once itself, exactly once and with a
	// happens-before edge to every later Do: it is how a read-only table is built lazily
	if p.Path() == "sync" && name == "Do" && f.Signature.Recv() != nil && strings.Contains(f.Signature.Recv().Type().String(), "sync.Once") {
		return false
	}
	// pointer-receiver methods of std types may write their receiver
	if f.Signature.Recv() != nil {
		if _, ok := f.Signature.Recv().Type().Underlying().(*types.Pointer); ok {
			return true
		}
	}
	return false
}

func stdReturnsArg0(f *ssa.Function) bool {
	p := pkgOf(f)
	if p == nil {
		return false
	}
	switch p.Path() {
	case "slices":
		return true
	}
	if f.Signature.Recv() != nil {
		return true // methods may return receiver-reachable memory
	}
	return false
}

// ----------------------------------------------------------------------

func NewEffects(w *World, roots []*ssa.Function) *Effects {
	e := &Effects{w: w, sum: map[*ssa.Function]*FuncEffect{}, callees: map[ssa.CallInstruction][]*ssa.Function{}, reachSet: map[*ssa.Function]bool{}, StdCalls: map[string]int{}}
	cg := w.CallGraph()
	for _, n := range cg.Nodes {
		for _, ed := range n.Out {
			if ed.Site == nil {
				continue
			}
			e.callees[ed.Site] = append(e.callees[ed.Site], ed.Callee.Func)
		}
	}
	_ = callgraph.Edge{}
	// reachability over resolved callees, not descending into std
	var stack []*ssa.Function
	push := func(f *ssa.Function) {
		if f == nil || e.reachSet[f] {
			return
		}
		e.reachSet[f] = true
		stack = append(stack, f)
	}
	for _, r := range roots {
		push(r)
	}
	for len(stack) > 0 {
		f := stack[len(stack)-1]
		stack = stack[:len(stack)-1]
		if isStd(f) {
			continue
		}
		if f.Blocks == nil {
			continue
		}
		e.Reach = append(e.Reach, f)
		instrs(f, func(in ssa.Instruction) {
			switch x := in.(type) {
			case ssa.CallInstruction:
				for _, c := range e.calleesOf(x) {
					push(c)
				}
			case *ssa.MakeClosure:
				push(x.Fn.(*ssa.Function))
			}
		})
	}
	sort.Slice(e.Reach, func(i, j int) bool { return w.FuncName(e.Reach[i]) < w.FuncName(e.Reach[j]) })
	// fixpoint
	for iter := 0; iter < 50; iter++ {
		e.changed = false
		for _, f := range e.Reach {
			e.analyse(f, iter == 0)
		}
		if !e.changed {
			break
		}
	}
	return e
}

func (e *Effects) calleesOf(c ssa.CallInstruction) []*ssa.Function {
	if f := c.Common().StaticCallee(); f != nil {
		return []*ssa.Function{f}
	}
	return e.callees[c]
}

func (e *Effects) Summary(f *ssa.Function) *FuncEffect {
	if s, ok := e.sum[f]; ok {
		return s
	}
	s := newEffect()
	if isStd(f) || f.Blocks == nil {
		if isStd(f) {
			if stdMutatesArg0(f) {
				s.WritesParam[0] = &Witness{Pos: "(standard library)", What: "standard-library mutator " + f.String()}
				if f.Signature.Recv() != nil {
					s.WritesParamDeep[0] = s.WritesParam[0]
				}
			}
			if stdReturnsArg0(f) {
				s.RetFrom[Root{Kind: rParam, Idx: 0}] = true
			}
			s.RetFrom[Root{Kind: rFresh}] = true
		} else {
			// body-less non-std function (assembly / linkname): unknown
			s.WritesUnknown = &Witness{Pos: "?", What: "function without Go body " + f.String()}
			s.RetFrom[Root{Kind: rUnknown}] = true
		}
	}
	e.sum[f] = s
	return s
}

type funcState struct {
	e        *Effects
	f        *ssa.Function
	orig     map[ssa.Value]rootSet
	contents map[ssa.Value]rootSet // fresh site -> roots of values stored inside
	busy     map[ssa.Value]bool
	dirty    bool
}

func (st *funcState) origins(v ssa.Value) rootSet {
	if !refCarrying(v.Type()) {
		if _, isG := v.(*ssa.Global); !isG {
			if _, isA := v.(*ssa.Alloc); !isA {
				return nil
			}
		}
	}
	if o, ok := st.orig[v]; ok {
		return o
	}
	if st.busy[v] {
		return nil
	}
	st.busy[v] = true
	o := st.compute(v)
	delete(st.busy, v)
	st.orig[v] = o
	return o
}

func (st *funcState) loadFrom(p ssa.Value) rootSet {
	out := rootSet{}
	for r := range st.origins(p) {
		if r.Kind == rFresh {
			// the loaded value refers to what was stored in the object, not to
			// the object itself (a site-less fresh root stands for itself)
			if r.Site != nil {
				out.addAll(st.contents[r.Site])
			} else {
				out[r] = true
			}
			continue
		}
		r.Deep = true
		out[r] = true
	}
	return out
}

func markDeep(rs rootSet) rootSet {
	out := rootSet{}
	for r := range rs {
		if r.Kind != rFresh {
			r.Deep = true
		}
		out[r] = true
	}
	return out
}

// deep: roots plus everything stored (transitively) inside fresh sites.
func (st *funcState) deep(v ssa.Value) rootSet {
	out := rootSet{}
	var work []Root
	for r := range st.origins(v) {
		work = append(work, r)
	}
	for len(work) > 0 {
		r := work[len(work)-1]
		work = work[:len(work)-1]
		if out[r] {
			continue
		}
		out[r] = true
		if r.Kind == rFresh && r.Site != nil {
			for c := range st.contents[r.Site] {
				work = append(work, c)
			}
		}
	}
	return out
}

func (st *funcState) addContents(site ssa.Value, rs rootSet) {
	if len(rs) == 0 {
		return
	}
	c := st.contents[site]
	if c == nil {
		c = rootSet{}
		st.contents[site] = c
	}
	if c.addAll(rs) {
		st.dirty = true
	}
}

func fresh(v ssa.Value) rootSet { return rootSet{Root{Kind: rFresh, Site: v}: true} }

func (st *funcState) compute(v ssa.Value) rootSet {
	switch x := v.(type) {
	case *ssa.Parameter:
		return rootSet{Root{Kind: rParam, Idx: paramIndex(st.f, x)}: true}
	case *ssa.FreeVar:
		for i, fv := range st.f.FreeVars {
			if fv == x {
				return rootSet{Root{Kind: rFreeVar, Idx: i}: true}
			}
		}
		return rootSet{Root{Kind: rUnknown}: true}
	case *ssa.Global:
		return rootSet{Root{Kind: rGlobal, G: x}: true}
	case *ssa.Alloc, *ssa.MakeSlice, *ssa.MakeMap, *ssa.MakeChan:
		return fresh(v)
	case *ssa.MakeClosure:
		for _, b := range x.Bindings {
			st.addContents(v, st.origins(b))
		}
		return fresh(v)
	case *ssa.Const:
		return nil
	case *ssa.Function:
		return nil
	case *ssa.Builtin:
		return nil
	case *ssa.FieldAddr:
		return st.origins(x.X)
	case *ssa.IndexAddr:
		return st.origins(x.X)
	case *ssa.Field:
		return st.origins(x.X)
	case *ssa.Index:
		return st.origins(x.X)
	case *ssa.UnOp:
		// load *p or channel receive
		return st.loadFrom(x.X)
	case *ssa.Slice:
		return st.origins(x.X)
	case *ssa.Phi:
		out := rootSet{}
		for _, ed := range x.Edges {
			out.addAll(st.origins(ed))
		}
		return out
	case *ssa.ChangeType:
		return st.origins(x.X)
	case *ssa.Convert:
		return st.origins(x.X)
	case *ssa.ChangeInterface:
		return st.origins(x.X)
	case *ssa.MakeInterface:
		return st.origins(x.X)
	case *ssa.SliceToArrayPointer:
		return st.origins(x.X)
	case *ssa.MultiConvert:
		return st.origins(x.X)
	case *ssa.TypeAssert:
		return st.origins(x.X)
	case *ssa.Extract:
		if call, ok := x.Tuple.(*ssa.Call); ok {
			return st.callResultAt(call, x.Index)
		}
		return st.origins(x.Tuple)
	case *ssa.Lookup:
		return st.loadFrom(x.X)
	case *ssa.Range:
		return st.origins(x.X)
	case *ssa.Next:
		return st.loadFrom(x.Iter)
	case *ssa.Select:
		return rootSet{Root{Kind: rUnknown}: true}
	case *ssa.BinOp:
		return nil
	case *ssa.Call:
		return st.callResult(x)
	}
	return rootSet{Root{Kind: rUnknown}: true}
}

func (st *funcState) callResult(c *ssa.Call) rootSet { return st.callResultAt(c, -1) }

// callResultAt: what result #idx of the call may refer to (idx < 0: any result).
func (st *funcState) callResultAt(c *ssa.Call, idx int) rootSet {
	com := c.Common()
	if b, ok := com.Value.(*ssa.Builtin); ok {
		switch b.Name() {
		case "append":
			out := fresh(c)
			out.addAll(st.origins(com.Args[0]))
			if sl, ok := c.Type().Underlying().(*types.Slice); ok && refCarrying(sl.Elem()) {
				st.addContents(c, st.loadFrom(com.Args[0]))
				if len(com.Args) > 1 {
					st.addContents(c, st.loadFrom(com.Args[1]))
				}
			}
			return out
		case "min", "max":
			return nil
		}
		return nil
	}
	callees := st.e.calleesOf(c)
	if len(callees) == 0 {
		if refCarrying(c.Type()) {
			return rootSet{Root{Kind: rUnknown}: true}
		}
		return nil
	}
	out := rootSet{}
	args := st.callArgs(c)
	for _, g := range callees {
		s := st.e.Summary(g)
		retFrom := s.RetFrom
		if idx >= 0 && s.RetIdx != nil {
			retFrom = s.RetIdx[idx]
		}
		isTop := func(r Root) bool {
			if s.RetTop == nil {
				return true // table-summarised callee: no distinction
			}
			if idx >= 0 {
				return s.RetTop[idx][r]
			}
			for _, t := range s.RetTop {
				if t[r] {
					return true
				}
			}
			return false
		}
		inside := rootSet{} // what the (fresh) result object merely contains
		for r := range retFrom {
			dst := out
			if !isTop(r) {
				dst = inside
			}
			switch r.Kind {
			case rParam:
				if r.Idx < len(args) {
					// the result may contain/alias memory reachable from arg
					if r.Deep {
						dst.addAll(markDeep(st.deep(args[r.Idx])))
					} else {
						dst.addAll(st.deep(args[r.Idx]))
					}
				}
			case rGlobal, rUnknown:
				dst[r] = true
			case rFresh:
				out[Root{Kind: rFresh, Site: c}] = true
			case rFreeVar:
				// result aliases a captured variable of the callee closure
				if mc, ok := com.Value.(*ssa.MakeClosure); ok && r.Idx < len(mc.Bindings) {
					dst.addAll(st.deep(mc.Bindings[r.Idx]))
				} else {
					dst[Root{Kind: rUnknown}] = true
				}
			}
		}
		if len(inside) > 0 {
			out[Root{Kind: rFresh, Site: c}] = true
			st.addContents(c, inside)
		}
	}
	if len(out) == 0 {
		out[Root{Kind: rFresh, Site: c}] = true
	}
	return out
}

// callArgs returns the arguments in callee-parameter order (receiver first
// for invoke-mode calls).
func (st *funcState) callArgs(c ssa.CallInstruction) []ssa.Value {
	com := c.Common()
	if com.IsInvoke() {
		return append([]ssa.Value{com.Value}, com.Args...)
	}
	return com.Args
}

func (e *Effects) note(s string) {
	for _, x := range e.UnknownNotes {
		if x == s {
			return
		}
	}
	e.UnknownNotes = append(e.UnknownNotes, s)
}

func (e *Effects) analyse(f *ssa.Function, first bool) {
	sum := e.Summary(f)
	st := &funcState{e: e, f: f, orig: map[ssa.Value]rootSet{}, contents: map[ssa.Value]rootSet{}, busy: map[ssa.Value]bool{}}
	// local fixpoint of the contents relation
	for pass := 0; pass < 12; pass++ {
		st.dirty = false
		st.orig = map[ssa.Value]rootSet{}
		instrs(f, func(in ssa.Instruction) {
			switch x := in.(type) {
			case *ssa.Store:
				if refCarrying(x.Val.Type()) {
					// direct referents only: what they contain in turn is found
					// through their own contents when a reader goes deep
					vals := st.origins(x.Val)
					for r := range st.origins(x.Addr) {
						if r.Kind == rFresh && r.Site != nil {
							st.addContents(r.Site, vals)
						}
					}
				}
			case *ssa.MapUpdate:
				vals := rootSet{}
				vals.addAll(st.origins(x.Value))
				vals.addAll(st.origins(x.Key))
				for r := range st.origins(x.Map) {
					if r.Kind == rFresh && r.Site != nil {
						st.addContents(r.Site, vals)
					}
				}
			case *ssa.Send:
				vals := st.deep(x.X)
				for r := range st.origins(x.Chan) {
					if r.Kind == rFresh && r.Site != nil {
						st.addContents(r.Site, vals)
					}
				}
			case ssa.Value:
				st.origins(x)
				// a callee that writes through param j may store arg k's memory into it;
				// over-approximate: a call may store any argument into any fresh argument
				if c, ok := in.(*ssa.Call); ok {
					st.crossStore(c)
				}
			}
		})
		if !st.dirty {
			break
		}
	}
	wr := func(rs rootSet, wit *Witness) {
		for r := range rs {
			if wit != nil && wit.Loc != nil {
				var rt types.Type
				switch r.Kind {
				case rParam:
					if r.Idx < len(f.Params) {
						rt = f.Params[r.Idx].Type()
					}
				case rGlobal:
					rt = r.G.Type()
				case rFreeVar:
					if r.Idx < len(f.FreeVars) {
						rt = f.FreeVars[r.Idx].Type()
					}
				}
				if rt != nil && !typeMayContain(rt, wit.Loc) {
					continue
				}
			}
			switch r.Kind {
			case rParam:
				if r.Deep {
					if sum.WritesParamDeep[r.Idx] == nil {
						sum.WritesParamDeep[r.Idx] = wit
						e.changed = true
					}
				} else if sum.WritesParam[r.Idx] == nil {
					sum.WritesParam[r.Idx] = wit
					e.changed = true
				}
			case rGlobal:
				if sum.WritesGlobal[r.G] == nil {
					sum.WritesGlobal[r.G] = wit
					e.changed = true
				}
			case rFreeVar:
				if r.Deep {
					if sum.WritesFreeDeep[r.Idx] == nil {
						sum.WritesFreeDeep[r.Idx] = wit
						e.changed = true
					}
				} else if sum.WritesFree[r.Idx] == nil {
					sum.WritesFree[r.Idx] = wit
					e.changed = true
				}
			case rUnknown:
				if sum.WritesUnknown == nil {
					sum.WritesUnknown = wit
					e.changed = true
				}
			}
		}
	}
	fname := e.w.FuncName(f)
	instrs(f, func(in ssa.Instruction) {
		pos := e.w.Pos(in.Pos())
		switch x := in.(type) {
		case *ssa.Store:
			if first {
				e.Stores++
			}
			if _, isAlloc := x.Addr.(*ssa.Alloc); isAlloc {
				return
			}
			wr(st.origins(x.Addr), &Witness{Pos: pos, What: "store " + shortInstr(x) + " in " + fname, Loc: storeContainer(x.Addr)})
		case *ssa.MapUpdate:
			if first {
				e.MapUpdates++
			}
			if os.Getenv("SID_DEBUG_EFFECTS") != "" && strings.Contains(fname, os.Getenv("SID_DEBUG_EFFECTS")) {
				fmt.Fprintf(os.Stderr, "DEBUG %s: map %s origins=%v\n", fname, x.Map.Name(), st.origins(x.Map))
				for site, c := range st.contents {
					fmt.Fprintf(os.Stderr, "   contents[%s]=%v\n", site.Name(), c)
				}
			}
			wr(st.origins(x.Map), &Witness{Pos: pos, What: "map update " + shortInstr(x) + " in " + fname, Loc: x.Map.Type()})
		case *ssa.Send:
			wr(st.origins(x.Chan), &Witness{Pos: pos, What: "channel send in " + fname})
		case *ssa.Go:
			if sum.Spawns == nil {
				sum.Spawns = &Witness{Pos: pos, What: "go statement in " + fname}
				e.changed = true
			}
			e.applyCall(st, sum, x, pos, fname, wr, first)
		case *ssa.Defer:
			e.applyCall(st, sum, x, pos, fname, wr, first)
		case *ssa.Call:
			e.applyCall(st, sum, x, pos, fname, wr, first)
		case *ssa.MakeClosure:
			cl := x.Fn.(*ssa.Function)
			cs := e.Summary(cl)
			// *fv = v overwrites the captured cell itself (the binding is its address); only a
			// write behind a load from the cell reaches what the cell refers to
			for k, wit := range cs.WritesFree {
				if k < len(x.Bindings) {
					wr(st.origins(x.Bindings[k]), &Witness{Pos: wit.Pos, What: wit.What, Chain: append([]string{fname + " (creates closure)"}, wit.Chain...), Loc: wit.Loc})
				}
			}
			for k, wit := range cs.WritesFreeDeep {
				if k < len(x.Bindings) {
					wr(markDeep(st.deep(x.Bindings[k])), &Witness{Pos: wit.Pos, What: wit.What, Chain: append([]string{fname + " (creates closure)"}, wit.Chain...), Loc: wit.Loc})
				}
			}
		case *ssa.Return:
			if sum.RetIdx == nil {
				sum.RetIdx = map[int]rootSet{}
			}
			if sum.RetTop == nil {
				sum.RetTop = map[int]rootSet{}
			}
			for i, rv := range x.Results {
				if sum.RetTop[i] == nil {
					sum.RetTop[i] = rootSet{}
				}
				for r := range st.origins(rv) {
					rr := r
					if rr.Kind == rFresh {
						rr.Site = nil
					}
					if !sum.RetTop[i][rr] {
						sum.RetTop[i][rr] = true
						e.changed = true
					}
				}
				if sum.RetIdx[i] == nil {
					sum.RetIdx[i] = rootSet{}
				}
				for r := range st.deep(rv) {
					rr := r
					if rr.Kind == rFresh {
						rr.Site = nil
					}
					if !sum.RetFrom[rr] {
						sum.RetFrom[rr] = true
						e.changed = true
					}
					if !sum.RetIdx[i][rr] {
						sum.RetIdx[i][rr] = true
						e.changed = true
					}
				}
			}
		}
	})
}

// crossStore: conservative modelling of callee-side stores of one argument's
// memory into another argument's fresh object (e.g. list.Add(ptr)).
func (st *funcState) crossStore(c *ssa.Call) {
	callees := st.e.calleesOf(c)
	if len(callees) == 0 {
		return
	}
	args := st.callArgs(c)
	for _, g := range callees {
		s := st.e.Summary(g)
		js := map[int]bool{} // value: the callee also writes memory reached through loads
		for j := range s.WritesParam {
			js[j] = false
		}
		for j := range s.WritesParamDeep {
			js[j] = true
		}
		for j, deepWrite := range js {
			if j >= len(args) || !holdsRefs(args[j].Type()) {
				continue
			}
			targets := st.origins(args[j]) // a shallow writer reaches the referred object only
			if deepWrite {
				targets = st.deep(args[j])
			}
			for r := range targets {
				if r.Kind != rFresh || r.Site == nil {
					continue
				}
				for k, a := range args {
					if k == j || !refCarrying(a.Type()) {
						continue
					}
					st.addContents(r.Site, st.deep(a))
				}
			}
		}
	}
}

func (e *Effects) applyCall(st *funcState, sum *FuncEffect, c ssa.CallInstruction, pos, fname string, wr func(rootSet, *Witness), first bool) {
	com := c.Common()
	if first {
		e.Calls++
	}
	if b, ok := com.Value.(*ssa.Builtin); ok {
		switch b.Name() {
		case "append":
			// append may write into the spare capacity of its first argument's array
			if len(com.Args) > 1 {
				wr(st.origins(com.Args[0]), &Witness{Pos: pos, What: "append into possibly shared backing array (" + shortInstr(c) + ") in " + fname, Loc: com.Args[0].Type()})
			}
		case "copy":
			wr(st.origins(com.Args[0]), &Witness{Pos: pos, What: "copy into destination in " + fname, Loc: com.Args[0].Type()})
		case "delete", "clear":
			wr(st.origins(com.Args[0]), &Witness{Pos: pos, What: b.Name() + " in " + fname, Loc: com.Args[0].Type()})
		}
		return
	}
	callees := e.calleesOf(c)
	args := st.callArgs(c)
	if len(callees) == 0 {
		// dynamic call without known callees
		isCallback := false
		for r := range st.origins(com.Value) {
			if r.Kind == rParam {
				isCallback = true
			}
		}
		if isCallback {
			if first {
				e.Callbacks++
			}
			return // caller-supplied code: effects are the caller's
		}
		if first {
			e.DynCalls++
		}
		wr(rootSet{Root{Kind: rUnknown}: true}, &Witness{Pos: pos, What: "dynamic call with no resolvable callee " + shortInstr(c) + " in " + fname})
		return
	}
	if com.StaticCallee() == nil && first {
		e.DynCalls++
	}
	for _, g := range callees {
		if isStd(g) && first {
			e.StdCalls[g.String()]++
		}
		s := e.Summary(g)
		chain := func(w *Witness) *Witness {
			return &Witness{Pos: w.Pos, What: w.What, Chain: append([]string{fname + " (" + pos + ")"}, w.Chain...), Loc: w.Loc}
		}
		for j, wit := range s.WritesParam {
			if j < len(args) {
				wr(st.origins(args[j]), chain(wit))
			}
		}
		for j, wit := range s.WritesParamDeep {
			if j < len(args) {
				wr(markDeep(st.deep(args[j])), chain(wit))
			}
		}
		for g2, wit := range s.WritesGlobal {
			wr(rootSet{Root{Kind: rGlobal, G: g2}: true}, chain(wit))
		}
		if s.WritesUnknown != nil {
			wr(rootSet{Root{Kind: rUnknown}: true}, chain(s.WritesUnknown))
		}
		if s.Spawns != nil && sum.Spawns == nil {
			sum.Spawns = chain(s.Spawns)
			e.changed = true
		}
		// immediately invoked closure / closure value with known bindings
		if mc, ok := com.Value.(*ssa.MakeClosure); ok {
			for k, wit := range s.WritesFree {
				if k < len(mc.Bindings) {
					wr(st.origins(mc.Bindings[k]), chain(wit))
				}
			}
			for k, wit := range s.WritesFreeDeep {
				if k < len(mc.Bindings) {
					wr(markDeep(st.deep(mc.Bindings[k])), chain(wit))
				}
			}
		}
	}
}

// holdsRefs: memory reachable from a value of type t can hold a reference
// (a []string, *int64 or map[string]bool cannot: nothing another argument
// refers to can be stored inside it).
func holdsRefs(t types.Type) bool {
	switch u := t.Underlying().(type) {
	case *types.Pointer:
		return refCarrying(u.Elem())
	case *types.Slice:
		return refCarrying(u.Elem())
	case *types.Map:
		return refCarrying(u.Key()) || refCarrying(u.Elem())
	case *types.Chan:
		return refCarrying(u.Elem())
	}
	return refCarrying(t)
}

// storeContainer: the type of the object a store through addr writes into.
func storeContainer(addr ssa.Value) types.Type {
	switch a := addr.(type) {
	case *ssa.FieldAddr:
		if p, ok := a.X.Type().Underlying().(*types.Pointer); ok {
			return p.Elem()
		}
	case *ssa.IndexAddr:
		t := a.X.Type()
		if p, ok := t.Underlying().(*types.Pointer); ok {
			return p.Elem() // *[n]T
		}
		return t
	}
	if p, ok := addr.Type().Underlying().(*types.Pointer); ok {
		return p.Elem()
	}
	return nil
}

var typeContainMemo = map[[2]types.Type]bool{}

// typeMayContain: memory reachable from a value of type root may hold a
// location of (or inside an object of) type loc.  Interfaces, type
// parameters, functions (captured variables) and unsafe pointers may lead
// anywhere.
func typeMayContain(root, loc types.Type) bool {
	key := [2]types.Type{root, loc}
	if v, ok := typeContainMemo[key]; ok {
		return v
	}
	seen := map[types.Type]bool{}
	var walk func(t types.Type) bool
	walk = func(t types.Type) bool {
		if t == nil || seen[t] {
			return false
		}
		seen[t] = true
		if types.Identical(t, loc) || (isAggregate(loc) && types.Identical(t.Underlying(), loc.Underlying())) {
			return true
		}
		switch u := t.Underlying().(type) {
		case *types.Basic:
			return u.Kind() == types.UnsafePointer
		case *types.Pointer:
			return walk(u.Elem())
		case *types.Slice:
			return walk(u.Elem())
		case *types.Array:
			return walk(u.Elem())
		case *types.Map:
			return walk(u.Key()) || walk(u.Elem())
		case *types.Chan:
			return walk(u.Elem())
		case *types.Struct:
			for i := 0; i < u.NumFields(); i++ {
				if walk(u.Field(i).Type()) {
					return true
				}
			}
			return false
		case *types.Tuple:
			for i := 0; i < u.Len(); i++ {
				if walk(u.At(i).Type()) {
					return true
				}
			}
			return false
		}
		return true // interface, signature, type parameter, ...
	}
	out := walk(root)
	typeContainMemo[key] = out
	return out
}

func isAggregate(t types.Type) bool {
	switch t.Underlying().(type) {
	case *types.Struct, *types.Slice, *types.Array, *types.Map:
		return true
	}
	return false
}
