package main

// Loading: go/packages (LoadAllSyntax) + go/ssa + VTA call graph over /repo's
// current working tree.  "Cover what the build covers": every non-test .go file
// under the module (outside examples/) must belong to a loaded package.

import (
	"fmt"
	"go/token"
	"go/types"
	"os"
	"path/filepath"
	"sort"
	"strings"

	"golang.org/x/tools/go/callgraph"
	"golang.org/x/tools/go/callgraph/cha"
	"golang.org/x/tools/go/callgraph/vta"
	"golang.org/x/tools/go/packages"
	"golang.org/x/tools/go/ssa"
	"golang.org/x/tools/go/ssa/ssautil"
)

const modPath = "github.com/trajectoryjp/spatial_id_go/v4"

// the module's own packages (relative import path -> must be present)
var wantPkgs = []string{
	"common", "common/consts", "common/enum", "common/errors", "common/object",
	"common/spatial", "detector", "integrate", "operated", "shape", "transform",
}

type World struct {
	Repo     string
	Fset     *token.FileSet
	Pkgs     []*packages.Package          // module packages
	PkgByRel map[string]*packages.Package // "integrate" -> pkg
	Prog     *ssa.Program
	SSAPkg   map[string]*ssa.Package // rel -> ssa pkg
	// every function with a body that belongs to a module package
	// (declared functions, methods, anonymous functions, generic instances,
	// package initialisers)
	ModFuncs  []*ssa.Function
	AllFuncs  map[*ssa.Function]bool
	cg        *callgraph.Graph
	Files     int
	CanaryOK  bool   // canary overlay type-checked
	CanaryWhy string // reason when it did not
}

func goEnv() []string {
	env := os.Environ()
	out := env[:0]
	for _, e := range env {
		if strings.HasPrefix(e, "GOFLAGS=") || strings.HasPrefix(e, "GOWORK=") ||
			strings.HasPrefix(e, "GOPROXY=") || strings.HasPrefix(e, "GOSUMDB=") ||
			strings.HasPrefix(e, "GOTOOLCHAIN=") || strings.HasPrefix(e, "GOOS=") ||
			strings.HasPrefix(e, "GOARCH=") || strings.HasPrefix(e, "CGO_ENABLED=") {
			continue
		}
		out = append(out, e)
	}
	return append(out, "GOFLAGS=-mod=mod", "GOWORK=off", "GOPROXY=off", "GOSUMDB=off",
		"GOTOOLCHAIN=local", "GOOS=linux", "GOARCH=amd64", "CGO_ENABLED=0")
}

// canaryOverlay maps /repo/<pkg>/zz_verif_canary.go -> content, from
// <verif>/checker/canary/<pkg with / as _>.go.txt
func canaryOverlay(repo, canaryDir string) map[string][]byte {
	ov := map[string][]byte{}
	ents, err := os.ReadDir(canaryDir)
	if err != nil {
		return ov
	}
	for _, e := range ents {
		if !strings.HasSuffix(e.Name(), ".go.txt") {
			continue
		}
		rel := strings.ReplaceAll(strings.TrimSuffix(e.Name(), ".go.txt"), "__", "/")
		b, err := os.ReadFile(filepath.Join(canaryDir, e.Name()))
		if err != nil {
			continue
		}
		ov[filepath.Join(repo, rel, "zz_verif_canary.go")] = b
	}
	return ov
}

func loadOnce(repo string, overlay map[string][]byte) ([]*packages.Package, *token.FileSet, error) {
	fset := token.NewFileSet()
	cfg := &packages.Config{
		Mode:       packages.LoadAllSyntax,
		Dir:        repo,
		Fset:       fset,
		Env:        goEnv(),
		Tests:      false,
		BuildFlags: []string{"-tags=verif"},
		Overlay:    overlay,
	}
	pkgs, err := packages.Load(cfg, "./...")
	if err != nil {
		return nil, nil, err
	}
	var errs []string
	packages.Visit(pkgs, nil, func(p *packages.Package) {
		for _, e := range p.Errors {
			errs = append(errs, e.Error())
		}
	})
	if len(errs) > 0 {
		sort.Strings(errs)
		if len(errs) > 8 {
			errs = errs[:8]
		}
		return nil, nil, fmt.Errorf("package errors: %s", strings.Join(errs, "; "))
	}
	return pkgs, fset, nil
}

func Load(repo, canaryDir string) (*World, error) {
	w := &World{Repo: repo, PkgByRel: map[string]*packages.Package{}, SSAPkg: map[string]*ssa.Package{}, AllFuncs: map[*ssa.Function]bool{}}
	ov := canaryOverlay(repo, canaryDir)
	pkgs, fset, err := loadOnce(repo, ov)
	w.CanaryOK = err == nil && len(ov) > 0
	if err != nil && len(ov) > 0 {
		// The canaries are written against today's API.  If they do not
		// type-check on this tree the real code is still analysed; the
		// canary step is reported as skipped (never as a violation).
		w.CanaryWhy = err.Error()
		pkgs, fset, err = loadOnce(repo, nil)
	}
	if err != nil {
		return nil, err
	}
	w.Fset = fset
	for _, p := range pkgs {
		if p.PkgPath == modPath || strings.HasPrefix(p.PkgPath, modPath+"/") {
			rel := strings.TrimPrefix(strings.TrimPrefix(p.PkgPath, modPath), "/")
			w.Pkgs = append(w.Pkgs, p)
			w.PkgByRel[rel] = p
		}
	}
	for _, want := range wantPkgs {
		if w.PkgByRel[want] == nil {
			return nil, fmt.Errorf("module package %q not loaded (got %d module packages)", want, len(w.Pkgs))
		}
	}
	// every buildable source file must be part of a loaded package
	loaded := map[string]bool{}
	for _, p := range w.Pkgs {
		for _, f := range p.CompiledGoFiles {
			loaded[f] = true
		}
		for _, f := range p.IgnoredFiles {
			loaded[f] = true // reported below
		}
	}
	var missing []string
	filepath.Walk(repo, func(path string, info os.FileInfo, err error) error {
		if err != nil {
			return nil
		}
		if info.IsDir() {
			n := info.Name()
			if path != repo && (n == "examples" || n == "documentation" || strings.HasPrefix(n, ".") || n == "testdata" || n == "vendor") {
				return filepath.SkipDir
			}
			if path != repo {
				if _, e := os.Stat(filepath.Join(path, "go.mod")); e == nil {
					return filepath.SkipDir
				}
			}
			return nil
		}
		if strings.HasSuffix(path, ".go") && !strings.HasSuffix(path, "_test.go") {
			w.Files++
			if !loaded[path] {
				missing = append(missing, path)
			}
		}
		return nil
	})
	for _, p := range w.Pkgs {
		if len(p.IgnoredFiles) > 0 {
			missing = append(missing, p.IgnoredFiles...)
		}
	}
	if len(missing) > 0 {
		return nil, fmt.Errorf("source files not covered by the analysed build (linux/amd64, -tags=verif): %v", missing)
	}

	prog, _ := ssautil.AllPackages(pkgs, ssa.InstantiateGenerics)
	prog.Build()
	w.Prog = prog
	for rel, p := range w.PkgByRel {
		sp := prog.Package(p.Types)
		if sp == nil {
			return nil, fmt.Errorf("no SSA package for %s", rel)
		}
		w.SSAPkg[rel] = sp
	}
	all := ssautil.AllFunctions(prog)
	w.AllFuncs = all
	for f := range all {
		if f.Blocks == nil {
			continue
		}
		if w.InModule(f) {
			w.ModFuncs = append(w.ModFuncs, f)
		}
	}
	sort.Slice(w.ModFuncs, func(i, j int) bool { return w.FuncName(w.ModFuncs[i]) < w.FuncName(w.ModFuncs[j]) })
	return w, nil
}

func (w *World) CallGraph() *callgraph.Graph {
	if w.cg == nil {
		w.cg = vta.CallGraph(w.AllFuncs, cha.CallGraph(w.Prog))
	}
	return w.cg
}

// pkgOf returns the types.Package a function belongs to (following parents of
// closures and origins of generic instances).
func pkgOf(f *ssa.Function) *types.Package {
	for f != nil {
		if f.Pkg != nil {
			return f.Pkg.Pkg
		}
		if o := f.Origin(); o != nil && o != f {
			f = o
			continue
		}
		if f.Parent() != nil {
			f = f.Parent()
			continue
		}
		if obj := f.Object(); obj != nil {
			return obj.Pkg()
		}
		return nil
	}
	return nil
}

func (w *World) InModule(f *ssa.Function) bool {
	p := pkgOf(f)
	if p == nil {
		return false
	}
	return p.Path() == modPath || strings.HasPrefix(p.Path(), modPath+"/")
}

func relPkg(p *types.Package) string {
	if p == nil {
		return "?"
	}
	s := strings.TrimPrefix(p.Path(), modPath)
	s = strings.TrimPrefix(s, "/")
	if s == "" {
		return "."
	}
	return s
}

// FuncName is a stable, position-free display name: pkg.Func, pkg.(Recv).Method,
// pkg.Func$1 for closures, pkg.Func[T] for instances.
func (w *World) FuncName(f *ssa.Function) string {
	p := pkgOf(f)
	name := f.RelString(p)
	if p == nil {
		return name
	}
	if p.Path() == modPath || strings.HasPrefix(p.Path(), modPath+"/") {
		return relPkg(p) + "." + name
	}
	return p.Path() + "." + name
}

func (w *World) IsCanary(f *ssa.Function) bool {
	for g := f; g != nil; g = g.Parent() {
		n := g.Name()
		if o := g.Origin(); o != nil {
			n = o.Name()
		}
		if strings.HasPrefix(n, "canaryBad") || strings.HasPrefix(n, "canaryGood") || strings.HasPrefix(n, "canary") {
			return true
		}
	}
	return false
}

func (w *World) Pos(p token.Pos) string {
	if !p.IsValid() {
		return "?"
	}
	ps := w.Fset.Position(p)
	f := ps.Filename
	if r, err := filepath.Rel(w.Repo, f); err == nil && !strings.HasPrefix(r, "..") {
		f = r
	}
	return fmt.Sprintf("%s:%d", f, ps.Line)
}

// Func looks up a package-level function of a module package.
func (w *World) Func(rel, name string) *ssa.Function {
	sp := w.SSAPkg[rel]
	if sp == nil {
		return nil
	}
	return sp.Func(name)
}

// Method looks up a method (value or pointer receiver) of a named type.
func (w *World) Method(rel, typ, name string) *ssa.Function {
	sp := w.SSAPkg[rel]
	if sp == nil {
		return nil
	}
	t := sp.Type(typ)
	if t == nil {
		return nil
	}
	nt := t.Type()
	for _, T := range []types.Type{nt, types.NewPointer(nt)} {
		ms := w.Prog.MethodSets.MethodSet(T)
		for i := 0; i < ms.Len(); i++ {
			if ms.At(i).Obj().Name() == name {
				fn := w.Prog.MethodValue(ms.At(i))
				if fn != nil && fn.Synthetic != "" {
					// wrapper: find the declared one
					if obj, ok := ms.At(i).Obj().(*types.Func); ok {
						if d := w.Prog.FuncValue(obj); d != nil {
							return d
						}
					}
				}
				return fn
			}
		}
	}
	return nil
}

// ExportedRoots: every exported function and every method (exported name) of
// an exported or unexported named type in the module's packages.
func (w *World) ExportedRoots() []*ssa.Function {
	var out []*ssa.Function
	seen := map[*ssa.Function]bool{}
	for _, rel := range sortedKeys(w.SSAPkg) {
		sp := w.SSAPkg[rel]
		for _, name := range sortedKeys(sp.Members) {
			switch m := sp.Members[name].(type) {
			case *ssa.Function:
				if token.IsExported(name) && m.Blocks != nil && !seen[m] {
					seen[m] = true
					out = append(out, m)
				}
			case *ssa.Type:
				nt := m.Type()
				if _, isIface := nt.Underlying().(*types.Interface); isIface {
					continue
				}
				if tn, ok := nt.(*types.Named); ok && tn.TypeParams().Len() > 0 {
					continue
				}
				for _, T := range []types.Type{nt, types.NewPointer(nt)} {
					ms := w.Prog.MethodSets.MethodSet(T)
					for i := 0; i < ms.Len(); i++ {
						obj, ok := ms.At(i).Obj().(*types.Func)
						if !ok || !obj.Exported() {
							continue
						}
						fn := w.Prog.FuncValue(obj)
						if fn != nil && fn.Blocks != nil && !seen[fn] && w.InModule(fn) {
							seen[fn] = true
							out = append(out, fn)
						}
					}
				}
			}
		}
	}
	return out
}

func sortedKeys[V any](m map[string]V) []string {
	ks := make([]string, 0, len(m))
	for k := range m {
		ks = append(ks, k)
	}
	sort.Strings(ks)
	return ks
}
