package main

// Thorough tier: (a) cross-check pass -- every kind-based rule is also run
// unscoped over all module functions and instances outside the property's
// anchored closure are reported as INFO (no verdict); (b) seeded self-test --
// every confirmed seeded change recorded for this property under
// /verif/seeded is applied to a scratch copy of /repo (outside /repo and
// /verif, removed afterwards) and the quick check is run on it in a child
// process; the outcome is recorded in the evidence (it never changes the
// verdict on /repo itself).

import (
	"encoding/json"
	"fmt"
	"os"
	"os/exec"
	"path/filepath"
	"sort"
	"strings"
)

func thoroughExtras(w *World, r *Report, id, verif, repo string) {
	r.Thorough = map[string]any{}
	// (a) cross-check
	kr := kindRulesFor(w)
	inReport := map[string]bool{}
	for _, o := range r.Obls {
		inReport[o.Key] = true
	}
	extra, extraBad := 0, 0
	for _, fd := range kr.Findings {
		if w.IsCanary(fd.F) {
			continue
		}
		key := fd.Rule + " / " + w.FuncName(fd.F) + " / " + fd.Sub
		if inReport[key] {
			continue
		}
		extra++
		if fd.Status == Violated {
			extraBad++
			r.Notes = append(r.Notes, fmt.Sprintf("INFO unscoped %s at %s: %s -- %s", fd.Rule, fd.Pos, key, fd.Detail))
		}
	}
	r.Thorough["crosscheck_unscoped_instances"] = extra
	r.Thorough["crosscheck_unscoped_violations"] = extraBad

	// (b) seeded self-test
	seeds, _ := filepath.Glob(filepath.Join(verif, "seeded", "*", "meta.json"))
	sort.Strings(seeds)
	type res struct {
		Seed     string `json:"seed"`
		Applies  bool   `json:"applies"`
		Detected bool   `json:"detected"`
		Kind     string `json:"kind"`
	}
	var out []res
	det, missed, skipped, quiet, noisy := 0, 0, 0, 0, 0
	self, _ := os.Executable()
	for _, mp := range seeds {
		var meta struct {
			Property string `json:"property"`
			Seed     string `json:"seed"`
			Kind     string `json:"kind"`
		}
		b, err := os.ReadFile(mp)
		if err != nil || json.Unmarshal(b, &meta) != nil || meta.Property != id {
			continue
		}
		if meta.Kind == "" {
			meta.Kind = "breaking"
		}
		scratch, err := os.MkdirTemp("", "sidcheck_seed_")
		if err != nil {
			continue
		}
		func() {
			defer os.RemoveAll(scratch)
			rr := res{Seed: meta.Seed, Kind: meta.Kind}
			cp := exec.Command("sh", "-c", fmt.Sprintf("cd %s && tar --exclude=.git -cf - . | (cd %s && tar -xf -)", repo, scratch))
			if err := cp.Run(); err != nil {
				return
			}
			ap := exec.Command("git", "apply", filepath.Join(filepath.Dir(mp), "patch.diff"))
			ap.Dir = scratch
			if err := ap.Run(); err != nil {
				skipped++
				out = append(out, rr)
				return
			}
			rr.Applies = true
			od := filepath.Join(scratch, ".sidcheck_out")
			os.MkdirAll(od, 0o755)
			ch := exec.Command(self, "-property", id, "-tier", "quick", "-repo", scratch, "-verif", verif, "-outdir", od)
			ch.Env = append(os.Environ(), "GOFLAGS=-mod=mod")
			o, _ := ch.CombinedOutput()
			rr.Detected = strings.Contains(string(o), "VIOLATION property="+id)
			if meta.Kind == "harmless" {
				if rr.Detected {
					noisy++
				} else {
					quiet++
				}
			} else if rr.Detected {
				det++
			} else {
				missed++
			}
			out = append(out, rr)
		}()
	}
	r.Thorough["seeded_selftest"] = out
	r.Thorough["seeded_breaking_detected"] = det
	r.Thorough["seeded_breaking_missed"] = missed
	r.Thorough["seeded_harmless_quiet"] = quiet
	r.Thorough["seeded_harmless_flagged"] = noisy
	r.Thorough["seeded_not_applicable_to_tree"] = skipped
	r.Notes = append(r.Notes, fmt.Sprintf("seeded self-test for %s: %d breaking change(s) detected, %d missed; %d harmless refactoring(s) quiet, %d flagged; %d patch(es) do not apply to this tree", id, det, missed, quiet, noisy, skipped))
}
