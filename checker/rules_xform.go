package main

// Rules for the transform package: MAXSEL (expansion), DISTINCT-PAIR,
// PER-ITERATION, NOFLOAT, INTERVAL (index validators), OUTRANGE,
// UPPER-BOUND-FORM, loop-bound identity, COMPOSE.

import (
	"fmt"
	"go/token"
	"go/types"
	"strings"

	"golang.org/x/tools/go/ssa"
)

// ---------------------------------------------------------------- MAXSEL (expansion of an extended ID)

func ruleExpansion(w *World, r *Report) {
	r.Rule("MAXSEL", "the expansion of an extended ID into spatial IDs targets max(hZoom, vZoom): under hZoom < vZoom only the horizontal axis is raised (integrate.HorizontalZoomMinMax to VZoom()), under hZoom > vZoom only the vertical axis (integrate.VerticalZoom to HZoom()), under equality the ID is emitted as is; decided by enumerating the three orderings over the control-flow graph")
	fn := "transform.ConvertExtendedSpatialIDToSpatialIDs"
	f := lookupByName(w, fn)
	if f == nil {
		r.add("MAXSEL", fn, "?", Unresolved, "function not found")
		return
	}
	ke := kindsFor(w)
	pos := w.Pos(f.Pos())
	var hz, vz ssa.Value
	instrs(f, func(in ssa.Instruction) {
		c, ok := in.(*ssa.Call)
		if !ok || calleeOf(c) == nil {
			return
		}
		fv := accessorField(calleeOf(c))
		if fv == nil {
			return
		}
		if ke.fieldK[fv] == ks(kHZ) && hz == nil {
			hz = c
		}
		if ke.fieldK[fv] == ks(kVZ) && vz == nil {
			vz = c
		}
	})
	if hz == nil || vz == nil {
		r.add("MAXSEL", fn+" / zoom reads", pos, Undecided, "HZoom() and VZoom() of the argument are not both read")
		return
	}
	isH := func(g *ssa.Function) bool {
		return funcIs(g, modPath+"/integrate", "HorizontalZoomMinMax") || funcIs(g, modPath+"/integrate", "HorizontalZoom")
	}
	isV := func(g *ssa.Function) bool { return funcIs(g, modPath+"/integrate", "VerticalZoom") }
	names := map[rel]string{relLT: "hZoom < vZoom", relEQ: "hZoom == vZoom", relGT: "hZoom > vZoom"}
	for _, rl := range []rel{relLT, relEQ, relGT} {
		orc := oracleFor([]pairRel{{hz, vz, rl}})
		// which of the two zooms does a target expression denote under this ordering?
		var denotes func(v ssa.Value, d int) string
		denotes = func(v ssa.Value, d int) string {
			v = resolve(v)
			if d > 4 {
				return "?"
			}
			if equivValue(v, hz) {
				return "h"
			}
			if equivValue(v, vz) {
				return "v"
			}
			if c, ok := v.(*ssa.Call); ok && builtinName(c) == "max" && len(c.Call.Args) == 2 {
				a, b := denotes(c.Call.Args[0], d+1), denotes(c.Call.Args[1], d+1)
				if (a == "h" && b == "v") || (a == "v" && b == "h") {
					return "max"
				}
			}
			if p, ok := v.(*ssa.Phi); ok {
				if pv, uniq := phiValueUnder(f, p, orc); uniq {
					return denotes(pv, d+1)
				}
			}
			return "?"
		}
		okTarget := func(s string) bool {
			switch rl {
			case relLT:
				return s == "v" || s == "max"
			case relGT:
				return s == "h" || s == "max"
			}
			return s == "h" || s == "v" || s == "max"
		}
		reach := simulate(f.Blocks[0], nil, orc)
		nH, nV, appends := 0, 0, 0
		bad := ""
		unknownTarget := false
		for _, b := range f.Blocks {
			if !reach[b] {
				continue
			}
			for _, in := range b.Instrs {
				c, ok := in.(*ssa.Call)
				if !ok {
					continue
				}
				if builtinName(c) == "append" {
					appends++
				}
				g := calleeOf(c)
				if g == nil {
					continue
				}
				if isH(g) {
					nH++
					if t := denotes(c.Call.Args[3], 0); t == "?" {
						unknownTarget = true
					} else if !okTarget(t) {
						bad = "the horizontal axis is brought to the wrong zoom (target denotes " + t + ")"
					}
				}
				if isV(g) {
					nV++
					if t := denotes(c.Call.Args[2], 0); t == "?" {
						unknownTarget = true
					} else if !okTarget(t) {
						bad = "the vertical axis is brought to the wrong zoom (target denotes " + t + ")"
					}
				}
			}
		}
		if bad == "" && rl == relLT && nH == 0 {
			bad = "the coarser horizontal axis is not raised with integrate.HorizontalZoom*"
		}
		if bad == "" && rl == relGT && nV == 0 {
			bad = "the coarser vertical axis is not raised with integrate.VerticalZoom"
		}
		if bad == "" && appends == 0 {
			// nothing is appended: the voxel is lost if every reachable return hands back an empty list
			lost := true
			for _, ret := range returnsOf(f) {
				if !reach[ret.Block()] || len(ret.Results) == 0 {
					continue
				}
				v := ret.Results[0]
				if vals, ok := sliceLiteral(v); ok && len(vals) > 0 {
					lost = false
				} else if !isEmptySliceBase(resolve(v)) && !isNilConst(resolve(v)) {
					lost = false // a list the rule does not trace: no verdict on this clause
				}
			}
			if lost {
				bad = "no spatial ID is emitted in this case (the voxel is lost)"
			}
		}
		key := fn + " / " + names[rl]
		if bad == "" && unknownTarget {
			r.add("MAXSEL", key, pos, Undecided, "the target zoom of a zoom change could not be related to HZoom() / VZoom() of the argument")
		} else if bad != "" {
			st := Violated
			if strings.Contains(bad, "is not raised with") {
				st = Undecided // the zoom change may be done by other means: nothing wrong was seen
			}
			r.add("MAXSEL", key, pos, st, bad)
		} else {
			r.add("MAXSEL", key, pos, Discharged, "every zoom change in this case targets max(hZoom, vZoom); at least one ID emitted")
		}
	}
}

// ---------------------------------------------------------------- DISTINCT-PAIR / PER-ITERATION

func rulePairDedup(w *World, r *Report, fn string) {
	r.Rule("DISTINCT-PAIR", "a (quadkey, vertical key) pair is appended to a group only behind a miss on the function-level (cross-ID) map looked up with that same pair, and the pair is inserted on that path: no pair is reported twice across the returned groups")
	r.Rule("PER-ITERATION", "the per-ID scratch lists that are multiplied into pairs are created inside the iteration for that ID (no list carried over from the previous ID)")
	f := lookupByName(w, fn)
	if f == nil {
		r.add("DISTINCT-PAIR", fn, "?", Unresolved, "function not found")
		return
	}
	// a duplicate pair skips that pair only, and every input ID reaches the pair loops
	if why := seenLeavesLoop(w, f); why != "" {
		r.Rule("NOSKIP", "a duplicate found in a seen-set skips that element only: the hit edge of the test returns to the header of the innermost loop around it")
		r.add("NOSKIP", fn+" / seen-set hit", w.Pos(f.Pos()), Violated, why)
	}
	ruleNoSkip(w, r, fn)
	pos := w.Pos(f.Pos())
	outer := loopOverParam(f, 0)
	if outer == nil {
		r.add("DISTINCT-PAIR", fn+" / loop", pos, Undecided, "no loop over the ID list")
		return
	}
	ob := outer.blocks()
	n := 0
	instrs(f, func(in ssa.Instruction) {
		c, ok := in.(*ssa.Call)
		if !ok || builtinName(c) != "append" || !ob[c.Block()] {
			return
		}
		sl, ok := c.Type().Underlying().(*types.Slice)
		if !ok {
			return
		}
		arr, ok := sl.Elem().Underlying().(*types.Array)
		if !ok || arr.Len() != 2 {
			return
		}
		n++
		key := fmt.Sprintf("%s / pair append#%d", fn, n)
		elems, _ := appendedElems(c)
		if len(elems) != 1 {
			r.add("DISTINCT-PAIR", key, w.Pos(c.Pos()), Undecided, "append of several pairs at once")
			return
		}
		pair, ok := arrayLiteral(elems[0])
		if !ok {
			r.add("DISTINCT-PAIR", key, w.Pos(c.Pos()), Undecided, "appended pair is not a literal")
			return
		}
		// find a comma-ok lookup with an equivalent key whose miss edge dominates the append
		found := false
		why := "no map lookup with this pair as key guards the append"
		instrs(f, func(in2 ssa.Instruction) {
			lk, ok := in2.(*ssa.Lookup)
			if !ok || !lk.CommaOk || found {
				return
			}
			if !samePairKey(w, f, lk.Index, pair) {
				return
			}
			mm, ok := resolve(lk.X).(*ssa.MakeMap)
			if !ok {
				why = "the guarding map is not a local map created in this call"
				return
			}
			if ob[mm.Block()] {
				why = "the guarding map is re-created for every ID, so pairs repeat across groups"
				return
			}
			okv := extractOf(lk, 1)
			if okv == nil {
				return
			}
			// miss edge dominates append?
			for _, blk := range f.Blocks {
				t, fl, i := ifSuccs(blk)
				if i == nil || resolve(i.Cond) != ssa.Value(okv) {
					continue
				}
				if !(fl == c.Block() || blockDominatedByEdge(f, blk, fl, c.Block())) {
					why = "the append is not confined to the miss branch of the lookup"
					continue
				}
				_ = t
				// insertion on the miss path
				ins := false
				instrs(f, func(in3 ssa.Instruction) {
					mu, ok := in3.(*ssa.MapUpdate)
					if !ok || resolve(mu.Map) != ssa.Value(mm) {
						return
					}
					if samePairKey(w, f, mu.Key, pair) && (mu.Block() == fl || blockDominatedByEdge(f, blk, fl, mu.Block())) {
						ins = true
					}
				})
				if ins {
					found = true
				} else {
					why = "the pair is not inserted into the map on the miss path"
				}
			}
		})
		if !found {
			// helper form: if register(m, pair) { append }
			for _, blk := range f.Blocks {
				t, _, ifi := ifSuccs(blk)
				if ifi == nil {
					continue
				}
				hc, ok := resolve(ifi.Cond).(*ssa.Call)
				if !ok || calleeOf(hc) == nil || !w.InModule(calleeOf(hc)) || len(hc.Call.Args) != 2 {
					continue
				}
				mm, ok := resolve(hc.Call.Args[0]).(*ssa.MakeMap)
				if !ok || ob[mm.Block()] {
					continue
				}
				kp, ok := arrayLiteral(hc.Call.Args[1])
				if !ok || len(kp) != 2 || !equivValue(kp[0], pair[0]) || !equivValue(kp[1], pair[1]) {
					if !(resolve(hc.Call.Args[1]) == resolve(elems[0])) {
						continue
					}
				}
				if !(t == c.Block() || blockDominatedByEdge(f, blk, t, c.Block())) {
					continue
				}
				if missThenInsertHelper(calleeOf(hc)) {
					found = true
				} else {
					why = "helper " + w.FuncName(calleeOf(hc)) + " does not have the shape: return false on hit; insert and return true on miss"
				}
			}
		}
		switch {
		case found:
			r.add("DISTINCT-PAIR", key, w.Pos(c.Pos()), Discharged, "append guarded by miss-then-insert on the function-level map")
		case why == "no map lookup with this pair as key guards the append" && packedPairKey(w, f, c, pair) != "":
			r.add("DISTINCT-PAIR", key, w.Pos(c.Pos()), Violated, "the membership test that guards the append is keyed by one integer computed from both components ("+packedPairKey(w, f, c, pair)+"): a quadkey alone takes up to 62 bits, so distinct pairs collide and the later one is dropped")
		case why == "no map lookup with this pair as key guards the append" && guardedBySetTest(w, f, c):
			// some membership test (a map lookup with a key in another representation, a set
			// helper, slices.Contains) stands in front of the append: not read, no verdict
			r.add("DISTINCT-PAIR", key, w.Pos(c.Pos()), Undecided, "the append is guarded by a membership test whose key was not recognised as this pair")
		default:
			r.add("DISTINCT-PAIR", key, w.Pos(c.Pos()), Violated, why)
		}
	})
	if n == 0 {
		r.add("DISTINCT-PAIR", fn+" / pair appends", pos, Undecided, "no append of a (quadkey, key) pair found")
	}
	// PER-ITERATION: inner range loops inside the outer loop
	k := 0
	for _, sr := range findSliceRanges(f) {
		if sr == outer || !ob[sr.Header] {
			continue
		}
		ai := appendChain(sr.X)
		if len(ai.Appends) == 0 && len(ai.Bases) == 1 {
			if _, isCall := ai.Bases[0].(*ssa.Call); isCall {
				continue // result of a call made in this iteration
			}
			if _, isEx := ai.Bases[0].(*ssa.Extract); isEx {
				continue
			}
		}
		k++
		key := fmt.Sprintf("%s / scratch list#%d", fn, k)
		bad := ""
		for _, b := range ai.Bases {
			in, ok := b.(ssa.Instruction)
			if !ok {
				if _, isConst := b.(*ssa.Const); isConst {
					continue
				}
				bad = "list base " + b.String() + " is not created in the iteration"
				continue
			}
			if !ob[in.Block()] {
				bad = "the list ranged over at " + w.Pos(sr.Header.Instrs[0].Pos()) + " starts from a value created outside the per-ID loop (" + shortInstr(in) + "): entries of earlier IDs leak into later ones"
			}
		}
		if bad != "" {
			r.add("PER-ITERATION", key, w.Pos(f.Pos()), Violated, bad)
		} else {
			r.add("PER-ITERATION", key, w.Pos(f.Pos()), Discharged, "scratch list is created inside the iteration")
		}
	}
}

// missThenInsertHelper: h(m, k) bool returns true only on the miss branch of
// m[k] after inserting k, and false on the hit branch.
func missThenInsertHelper(h *ssa.Function) bool {
	if len(h.Params) != 2 || h.Blocks == nil {
		return false
	}
	var lk *ssa.Lookup
	instrs(h, func(in ssa.Instruction) {
		if l, ok := in.(*ssa.Lookup); ok && l.CommaOk && resolve(l.X) == ssa.Value(h.Params[0]) && resolve(l.Index) == ssa.Value(h.Params[1]) {
			lk = l
		}
	})
	if lk == nil {
		return false
	}
	okv := extractOf(lk, 1)
	if okv == nil {
		return false
	}
	for _, blk := range h.Blocks {
		t, fl, ifi := ifSuccs(blk)
		if ifi == nil || resolve(ifi.Cond) != ssa.Value(okv) {
			continue
		}
		ins := false
		instrs(h, func(in ssa.Instruction) {
			if mu, ok := in.(*ssa.MapUpdate); ok && resolve(mu.Map) == ssa.Value(h.Params[0]) && resolve(mu.Key) == ssa.Value(h.Params[1]) && (mu.Block() == fl || blockDominatedByEdge(h, blk, fl, mu.Block())) {
				ins = true
			}
		})
		if !ins {
			return false
		}
		good := true
		for _, ret := range returnsOf(h) {
			k, ok := resolve(ret.Results[0]).(*ssa.Const)
			if !ok || k.Value == nil {
				return false
			}
			onMiss := ret.Block() == fl || blockDominatedByEdge(h, blk, fl, ret.Block())
			onHit := ret.Block() == t || blockDominatedByEdge(h, blk, t, ret.Block())
			if k.Value.String() == "true" && !onMiss {
				good = false
			}
			if k.Value.String() == "false" && !onHit {
				good = false
			}
		}
		return good
	}
	return false
}

// ---------------------------------------------------------------- NOFLOAT

func ruleNoFloat(w *World, r *Report, cl map[*ssa.Function]bool) {
	r.Rule("NOFLOAT", "the quadkey encoder/decoder (the functions of the conversion closure that mix x and y bits into one integer, or take a quadkey) contain no floating-point value: keys reach 2^62 and a float64 detour loses the low bits above 2^53")
	ke := kindsFor(w)
	n := 0
	for f := range cl {
		if f.Synthetic != "" || f.Blocks == nil {
			continue
		}
		p := pkgOf(f)
		if p == nil || p.Path() != modPath+"/transform" || f.Parent() != nil {
			continue
		}
		if tokenExported(f.Name()) {
			continue
		}
		target := false
		for _, pa := range f.Params {
			if a := ke.Eval(pa); a != nil && a.Scalar.has(kQK) {
				target = true
			}
		}
		if rs := ke.retAV[f]; len(rs) > 0 && rs[0] != nil && rs[0].Scalar.has(kX) && rs[0].Scalar.has(kY) && isIntType(f.Signature.Results().At(0).Type()) {
			target = true
		}
		if !target {
			continue
		}
		n++
		bad := ""
		instrs(f, func(in ssa.Instruction) {
			if v, ok := in.(ssa.Value); ok && isFloatType(v.Type()) && bad == "" {
				bad = shortInstr(in) + " at " + w.Pos(in.Pos())
			}
		})
		key := w.FuncName(f)
		if bad != "" {
			r.add("NOFLOAT", key, w.Pos(f.Pos()), Violated, "floating-point value in the quadkey bit arithmetic: "+bad)
		} else {
			r.add("NOFLOAT", key, w.Pos(f.Pos()), Discharged, "integer-only bit arithmetic")
		}
	}
	if n < 2 {
		r.add("NOFLOAT", "quadkey encoder and decoder", "-", Undecided, fmt.Sprintf("expected to recognise the encoder and the decoder, recognised %d function(s)", n))
	}
}

func tokenExported(name string) bool { return token.IsExported(name) }

// ---------------------------------------------------------------- INTERVAL (index existence validators)

// ruleIndexInterval: in every function of the closure that computes
// R = CalculateArithmeticShift(1, zoom), the bounds compared against are
// exactly R-1 (upper) and -R or 0 (lower).
func ruleIndexInterval(w *World, r *Report, cl map[*ssa.Function]bool) {
	ruleIndexIntervalOpt(w, r, cl, false)
}

// ruleIndexIntervalOpt: quiet = the closure need not contain a validator at all.
func ruleIndexIntervalOpt(w *World, r *Report, cl map[*ssa.Function]bool, quiet bool) {
	r.Rule("INTERVAL", "an index-existence test at zoom z accepts exactly [-2^z, 2^z - 1] (signed) or [0, 2^z - 1] (unsigned): with R = CalculateArithmeticShift(1, z) the upper bound compared is R - 1 and the lower bound is -R or 0; the failing side of each comparison leads to failure")
	n := 0
	for _, f := range sortedFuncSet(w, cl) {
		if f.Blocks == nil || f.Synthetic != "" {
			continue
		}
		var R []ssa.Value
		instrs(f, func(in ssa.Instruction) {
			c, ok := in.(*ssa.Call)
			if ok && calleeIs(c, modPath+"/common", "CalculateArithmeticShift") {
				if k, ok := constInt(c.Call.Args[0]); ok && k == 1 {
					R = append(R, c)
				}
			}
			// 1 << zoom
			if sh, ok := in.(*ssa.BinOp); ok && sh.Op == token.SHL {
				if k, ok := constInt(sh.X); ok && k == 1 {
					if _, isK := constInt(sh.Y); !isK {
						R = append(R, sh)
					}
				}
			}
		})
		if len(R) == 0 {
			continue
		}
		isR := func(v ssa.Value) bool {
			for _, x := range R {
				if resolve(v) == x {
					return true
				}
			}
			return false
		}
		derivesR := func(v ssa.Value) bool {
			found := false
			var walk func(x ssa.Value, d int)
			walk = func(x ssa.Value, d int) {
				x = resolve(x)
				if d > 6 || found {
					return
				}
				if isR(x) {
					found = true
					return
				}
				switch y := x.(type) {
				case *ssa.BinOp:
					walk(y.X, d+1)
					walk(y.Y, d+1)
				case *ssa.UnOp:
					walk(y.X, d+1)
				case *ssa.Phi:
					for _, e := range y.Edges {
						walk(e, d+1)
					}
				}
			}
			walk(v, 0)
			return found
		}
		name := w.FuncName(f)
		ord := 0
		instrs(f, func(in ssa.Instruction) {
			b, ok := in.(*ssa.BinOp)
			if !ok {
				return
			}
			switch b.Op {
			case token.GTR, token.LSS, token.GEQ, token.LEQ:
			default:
				return
			}
			var bound ssa.Value
			op := b.Op
			if derivesR(b.Y) && !derivesR(b.X) {
				bound = b.Y
			} else if derivesR(b.X) && !derivesR(b.Y) {
				bound = b.X
				op = flipOp(op)
			} else {
				return
			}
			ord++
			n++
			key := fmt.Sprintf("INTERVAL / %s / bound comparison#%d", name, ord)
			// every comparison of an integer index with a bound B cuts the integers in two:
			// idx > B / idx <= B at B, idx >= B / idx < B at B-1.  With R = 2^z the cut of
			// an upper limit must be R-1, of a signed lower limit -R-1, of an unsigned one -1:
			// in each case B + delta = a*R - 1 with a in {1, -1, 0}.
			delta := int64(0)
			if op == token.GEQ || op == token.LSS {
				delta = -1
			}
			var lin func(v ssa.Value, d int) (a, k int64, ok bool)
			lin = func(v ssa.Value, d int) (int64, int64, bool) {
				v = resolve(v)
				if d > 6 {
					return 0, 0, false
				}
				if c, ok := constInt(v); ok {
					return 0, c, true
				}
				if isR(v) {
					return 1, 0, true
				}
				switch y := v.(type) {
				case *ssa.UnOp:
					if y.Op == token.SUB {
						a, k, ok := lin(y.X, d+1)
						return -a, -k, ok
					}
				case *ssa.BinOp:
					a1, k1, ok1 := lin(y.X, d+1)
					a2, k2, ok2 := lin(y.Y, d+1)
					if ok1 && ok2 {
						switch y.Op {
						case token.ADD:
							return a1 + a2, k1 + k2, true
						case token.SUB:
							return a1 - a2, k1 - k2, true
						}
					}
				}
				return 0, 0, false
			}
			verdict, detail := Discharged, ""
			for _, leaf := range phiLeaves(resolve(bound)) {
				a, k, ok := lin(leaf, 0)
				switch {
				case !ok:
					if verdict == Discharged {
						verdict, detail = Undecided, "the bound "+describeValue(leaf)+" is not of the form a*2^z + k"
					}
				case (a == 1 || a == -1 || a == 0) && k+delta == -1:
				default:
					verdict, detail = Violated, fmt.Sprintf("the comparison cuts the index range at %d*2^z%+d; an existence test must cut at 2^z-1 (upper), -2^z-1 (signed lower) or -1 (unsigned lower): %s", a, k+delta, shortInstr(b))
				}
			}
			if verdict == Discharged {
				detail = "the comparison cuts the index range exactly at 2^z - 1 / -2^z - 1 / -1 (" + shortInstr(b) + ")"
			}
			r.Add(Obligation{Rule: "INTERVAL", Key: key, Pos: w.Pos(b.Pos()), Status: verdict, Detail: detail, Canary: w.IsCanary(f)})
		})
	}
	if n == 0 && !quiet {
		r.add("INTERVAL", "index validators", "-", Undecided, "no index-existence comparison recognised in the closure")
	}
}

func sortedFuncSet(w *World, cl map[*ssa.Function]bool) []*ssa.Function {
	var out []*ssa.Function
	for _, f := range w.ModFuncs {
		if cl[f] {
			out = append(out, f)
		}
	}
	return out
}

// ---------------------------------------------------------------- OUTRANGE

// validatedValue: v is range-checked: it is compared in an If one of whose
// edges leads only to failure returns, or passed as first argument to a module
// function whose (bool/error) result is tested that way, or it is the result
// of a module function whose own success result is validated.
func validatedValue(w *World, f *ssa.Function, v ssa.Value, depth int) bool {
	if depth > 4 {
		return false
	}
	e := scFor(w)
	v = resolve(v)
	if p, ok := v.(*ssa.Phi); ok {
		n := 0
		for _, ed := range p.Edges {
			// a constant merged in at a single exit is the placeholder of a failure path
			if _, isConst := resolve(ed).(*ssa.Const); isConst {
				continue
			}
			n++
			if !validatedValue(w, f, ed, depth+1) {
				return false
			}
		}
		return n > 0
	}
	failingEdge := func(blk *ssa.BasicBlock) bool {
		for _, s := range blk.Succs {
			// path-sensitive in the nil-ness of error variables: `err = sentinel` followed by a
			// single `if err != nil { return ..., err }` is a failing side
			reach := simulateFrom(s, blk, nil, noOracle)
			any, all := false, true
			for _, ret := range returnsOf(f) {
				if reach[ret.Block()] {
					any = true
					if !e.isFailureReturn(f, ret) {
						all = false
					}
				}
			}
			if any && all {
				return true
			}
		}
		return false
	}
	uses := func(cond ssa.Value, x ssa.Value) bool {
		found := false
		var walk func(c ssa.Value, d int)
		walk = func(c ssa.Value, d int) {
			raw := stripConv(c)
			c = resolve(c)
			if d > 5 || found {
				return
			}
			if c == x || equivValue(c, x) {
				found = true
				return
			}
			// the whole write-once local struct is examined and x is one of its fields
			if la, ok := loadOf(raw); ok {
				if al, isAl := la.(*ssa.Alloc); isAl && writeOnceStruct(al) {
					if lx, ok := loadOf(x); ok {
						if fa, isFA := lx.(*ssa.FieldAddr); isFA && fa.X == ssa.Value(al) {
							found = true
							return
						}
					}
				}
			}
			switch y := c.(type) {
			case *ssa.BinOp:
				walk(y.X, d+1)
				walk(y.Y, d+1)
			case *ssa.UnOp:
				walk(y.X, d+1)
			case *ssa.Extract:
				walk(y.Tuple, d+1)
			case *ssa.Call:
				// a validator may take the value in any argument position (method receivers first)
				for _, a := range y.Call.Args {
					walk(a, d+1)
				}
			case *ssa.Phi:
				for _, ed := range y.Edges {
					walk(ed, d+1)
				}
			}
		}
		walk(cond, 0)
		return found
	}
	for _, blk := range f.Blocks {
		_, _, i := ifSuccs(blk)
		if i == nil {
			continue
		}
		if uses(i.Cond, v) && failingEdge(blk) {
			return true
		}
	}
	// result of a validating callee
	var call *ssa.Call
	if ex, ok := v.(*ssa.Extract); ok && ex.Index == 0 {
		call, _ = ex.Tuple.(*ssa.Call)
	} else if c, ok := v.(*ssa.Call); ok {
		call = c
	}
	if call != nil {
		g := calleeOf(call)
		if g != nil && w.InModule(g) && g.Blocks != nil {
			ok := true
			n := 0
			for _, ret := range returnsOf(g) {
				if e.isFailureReturn(g, ret) {
					continue
				}
				if _, isConst := resolve(ret.Results[0]).(*ssa.Const); isConst && classifyReturn(g, ret) != retSuccess {
					continue // a zero placeholder returned together with a callee's error
				}
				n++
				if !validatedValue(w, g, ret.Results[0], depth+1) {
					ok = false
				}
			}
			if ok && n > 0 {
				return true
			}
		}
	}
	return false
}

// comparedAnywhere: the value (or one of its phi leaves) is an operand of an
// ordering comparison somewhere in f.
func comparedAnywhere(f *ssa.Function, v ssa.Value) bool {
	leaves := map[ssa.Value]bool{}
	for _, l := range phiLeaves(resolve(v)) {
		leaves[resolve(l)] = true
	}
	leaves[resolve(v)] = true
	found := false
	instrs(f, func(in ssa.Instruction) {
		b, ok := in.(*ssa.BinOp)
		if !ok || found {
			return
		}
		switch b.Op {
		case token.LSS, token.LEQ, token.GTR, token.GEQ:
			if leaves[resolve(b.X)] || leaves[resolve(b.Y)] {
				found = true
			}
			// the phi itself compared
			for _, o := range []ssa.Value{b.X, b.Y} {
				if ph, ok := resolve(o).(*ssa.Phi); ok {
					for _, l := range phiLeaves(ph) {
						if leaves[resolve(l)] {
							found = true
						}
					}
				}
			}
		}
	})
	return found
}

func ruleOutRange(w *World, r *Report, fn string) {
	r.Rule("OUTRANGE", "both ends of the returned index range are range-checked before a success return: each returned bound is compared (directly, through an existence validator, or inside the helper that produced it) in a test whose failing side leads to failure returns only")
	f := lookupByName(w, fn)
	if f == nil {
		r.add("OUTRANGE", fn, "?", Unresolved, "function not found")
		return
	}
	n := 0
	for _, ret := range returnsOf(f) {
		if classifyReturn(f, ret) != retSuccess {
			continue
		}
		n++
		okMin, okMax := validatedValue(w, f, ret.Results[0], 0), validatedValue(w, f, ret.Results[1], 0)
		for i, nm := range []string{"minimum", "maximum"} {
			key := fmt.Sprintf("%s / success return#%d / %s", fn, n, nm)
			if okMin != okMax && ((i == 0 && !okMin) || (i == 1 && !okMax)) && comparedAnywhere(f, ret.Results[i]) {
				// this end does appear in a comparison (part of a compound condition the rule did
				// not resolve to a failing side): not "compared with nothing"
				r.add("OUTRANGE", key, w.Pos(ret.Pos()), Undecided, "the returned "+nm+" ("+describeValue(ret.Results[i])+") is compared, but the comparison could not be tied to a failing side")
				continue
			}
			if okMin != okMax && ((i == 0 && !okMin) || (i == 1 && !okMax)) {
				// the sibling bound is range-checked and this one is not: one-sided validation
				r.add("OUTRANGE", key, w.Pos(ret.Pos()), Violated, "only the other end of the returned range is range-checked; the returned "+nm+" ("+describeValue(ret.Results[i])+") is compared with nothing: an index that does not exist can be returned without an error")
				continue
			}
			if validatedValue(w, f, ret.Results[i], 0) {
				r.add("OUTRANGE", key, w.Pos(ret.Pos()), Discharged, "returned "+nm+" is range-checked")
			} else if hasRangeValidation(w, f, 0, map[*ssa.Function]bool{}) {
				// some range validation with a failing side exists on the way, in a form that
				// could not be tied to this value: no verdict
				r.add("OUTRANGE", key, w.Pos(ret.Pos()), Undecided, "the returned "+nm+" ("+describeValue(ret.Results[i])+") could not be tied to the range validation found in the function")
			} else {
				r.add("OUTRANGE", key, w.Pos(ret.Pos()), Violated, "the returned "+nm+" ("+describeValue(ret.Results[i])+") is never compared with the bounds of the output zoom, and the function contains no range validation at all: an index that does not exist can be returned without an error")
			}
		}
	}
	if n == 0 {
		r.add("OUTRANGE", fn, w.Pos(f.Pos()), Undecided, "no success return")
	}
}

// ---------------------------------------------------------------- UPPER-BOUND-FORM

// ruleUpperBoundForm: `scale(v+1, d) - 1` is the last index covered only when
// scaling up; when d can be negative the form must be guarded by d > 0 or be
// followed by the min > max clamp.
func ruleUpperBoundForm(w *World, r *Report, cl map[*ssa.Function]bool) {
	r.Rule("UPPER-BOUND-FORM", "an exclusive upper bound may be turned into an inclusive one by `scale(index+1) - 1` only when scaling up: every such expression must be dominated by the test shift > 0 on the same shift value (when scaling down, (E >> b) - 1 differs from (E - 1) >> b for every E that is not a multiple of 2^b and the last cell is lost). Sites are keyed by package and order")
	n := 0
	ord := map[string]int{}
	for _, f := range sortedFuncSet(w, cl) {
		if f.Blocks == nil || f.Synthetic != "" {
			continue
		}
		name := w.FuncName(f)
		scope := "package " + relPkg(pkgOf(f))
		if w.IsCanary(f) {
			scope = name
		}
		instrs(f, func(in ssa.Instruction) {
			sub, ok := in.(*ssa.BinOp)
			if !ok || sub.Op != token.SUB {
				return
			}
			if k, ok := constInt(sub.Y); !ok || k != 1 {
				return
			}
			call, ok := resolve(sub.X).(*ssa.Call)
			if !ok || !calleeIs(call, modPath+"/common", "CalculateArithmeticShift") {
				return
			}
			a, ok := resolve(call.Call.Args[0]).(*ssa.BinOp)
			if !ok || a.Op != token.ADD {
				return
			}
			if k, ok := constInt(a.Y); !ok || k != 1 {
				return
			}
			n++
			d := resolve(call.Call.Args[1])
			good := false
			if k, ok := constInt(d); ok && k >= 0 {
				good = true
			}
			for _, blk := range f.Blocks {
				t, _, i := ifSuccs(blk)
				if i == nil {
					continue
				}
				c, ok := i.Cond.(*ssa.BinOp)
				if !ok || !(c.Op == token.GTR || c.Op == token.GEQ) || !(resolve(c.X) == d || equivValue(resolve(c.X), d)) {
					continue
				}
				if k, ok := constInt(c.Y); !ok || k != 0 {
					continue
				}
				if t == sub.Block() || blockDominatedByEdge(f, blk, t, sub.Block()) {
					good = true
				}
			}
			// identity of a site: package, guarded or not, and order (functions by name, then
			// position): it must not change when the operands of the shift move into
			// fields, parameters, tables or helpers
			kind := "unguarded form"
			if good {
				kind = "guarded form"
			}
			ord[scope+kind]++
			key := fmt.Sprintf("UPPER-BOUND-FORM / %s / %s#%d", scope, kind, ord[scope+kind])
			if good {
				r.Add(Obligation{Rule: "UPPER-BOUND-FORM", Key: key, Pos: w.Pos(sub.Pos()), Status: Discharged, Detail: "in " + name + ": guarded by shift > 0", Canary: w.IsCanary(f)})
			} else {
				r.Add(Obligation{Rule: "UPPER-BOUND-FORM", Key: key, Pos: w.Pos(sub.Pos()), Status: Violated, Detail: "in " + name + ": scale(index+1) - 1 is used as an inclusive upper bound although the shift " + describeValue(call.Call.Args[1]) + " may be negative (scaling down): the last cell is lost whenever the exclusive bound is not aligned -- " + shortInstr(sub), Canary: w.IsCanary(f)})
			}
		})
	}
	if n == 0 {
		r.add("UPPER-BOUND-FORM", "exclusive-bound forms", "-", Undecided, "no scale(index+1)-1 expression recognised in the closure")
	}
}

// ---------------------------------------------------------------- tile conversion

// rangeSource: v is result #idx of a transform.ConvertAltitudekeyToMinMaxZ call
// made in f, or of a module helper called in f that hands the results of its
// own single range call through unchanged.  site is the call in f; conv the
// range call itself; elemArg the value in f that supplies the tile whose key
// and key zoom the range call reads (nil if they are not both getters on one
// object).
type rangeSrc struct {
	site, conv *ssa.Call
	idx        int
	tile       ssa.Value
}

func isRangeConv(g *ssa.Function) bool {
	return funcIs(g, modPath+"/transform", "ConvertAltitudekeyToMinMaxZ")
}

func tileOfRangeCall(c *ssa.Call) ssa.Value {
	var obj ssa.Value
	for i := 0; i < 2; i++ {
		ac, ok := resolve(c.Call.Args[i]).(*ssa.Call)
		if !ok || calleeOf(ac) == nil || accessorField(calleeOf(ac)) == nil || len(ac.Call.Args) != 1 {
			return nil
		}
		o := resolve(ac.Call.Args[0])
		if obj != nil && o != obj {
			return nil
		}
		obj = o
	}
	return obj
}

func rangeSource(w *World, v ssa.Value) *rangeSrc {
	ex, ok := resolve(v).(*ssa.Extract)
	if !ok {
		return nil
	}
	c, ok := ex.Tuple.(*ssa.Call)
	if !ok {
		return nil
	}
	g := calleeOf(c)
	if g == nil {
		return nil
	}
	if isRangeConv(g) {
		return &rangeSrc{site: c, conv: c, idx: ex.Index, tile: tileOfRangeCall(c)}
	}
	if !w.InModule(g) || g.Blocks == nil {
		return nil
	}
	inner := callsTo(g, isRangeConv)
	if len(inner) != 1 {
		return nil
	}
	e := scFor(w)
	idx := -1
	for _, ret := range returnsOf(g) {
		if e.isFailureReturn(g, ret) || ex.Index >= len(ret.Results) {
			continue
		}
		ie, ok := resolve(ret.Results[ex.Index]).(*ssa.Extract)
		if !ok || ie.Tuple != ssa.Value(inner[0]) {
			if classifyReturn(g, ret) != retSuccess {
				continue // placeholder next to a propagated error
			}
			return nil
		}
		if idx >= 0 && idx != ie.Index {
			return nil
		}
		idx = ie.Index
	}
	if idx < 0 {
		return nil
	}
	out := &rangeSrc{site: c, conv: inner[0], idx: idx}
	if t := tileOfRangeCall(inner[0]); t != nil {
		if pi := paramIndex(g, t); pi >= 0 && pi < len(c.Call.Args) {
			out.tile = resolve(c.Call.Args[pi])
		}
	}
	return out
}

// mentions: the expression tree of v (arithmetic only) contains x.
func mentions(v, x ssa.Value, d int) bool {
	v = resolve(v)
	if v == x {
		return true
	}
	if d > 4 {
		return false
	}
	switch y := v.(type) {
	case *ssa.BinOp:
		return mentions(y.X, x, d+1) || mentions(y.Y, x, d+1)
	case *ssa.UnOp:
		return mentions(y.X, x, d+1)
	case *ssa.Extract:
		return y.Tuple == x
	}
	return false
}

func ruleTileLoop(w *World, r *Report) {
	r.Rule("RANGE-LOOP", "for each tile the emitted vertical indices are exactly zMin..zMax inclusive, where zMin and zMax are the two results of the transform.ConvertAltitudekeyToMinMaxZ call made for that same tile in that iteration (value identity, directly or through a helper that hands the range through unchanged; not a cached or recomputed value), and the loop variable is what SetZ receives")
	fn := "transform.ConvertTileXYZsToExtendedSpatialIDs"
	f := lookupByName(w, fn)
	if f == nil {
		r.add("RANGE-LOOP", fn, "?", Unresolved, "function not found")
		return
	}
	pos := w.Pos(f.Pos())
	outer := loopOverParam(f, 0)
	ke := kindsFor(w)
	// the loop variable that SetZ receives
	var zphi *ssa.Phi
	var zinit ssa.Value
	nSet := 0
	instrs(f, func(in ssa.Instruction) {
		sc, ok := in.(*ssa.Call)
		if !ok || calleeOf(sc) == nil || len(sc.Call.Args) != 2 {
			return
		}
		role := ke.paramRole(calleeOf(sc), 1)
		if role == nil || role.Scalar != ks(kF) {
			return
		}
		nSet++
		p, ok := resolve(sc.Call.Args[1]).(*ssa.Phi)
		if !ok || len(p.Edges) != 2 {
			return
		}
		for i := range p.Edges {
			if inc, ok := p.Edges[1-i].(*ssa.BinOp); ok && inc.Op == token.ADD && inc.X == ssa.Value(p) {
				if k, ok := constInt(inc.Y); ok && k == 1 {
					zphi, zinit = p, p.Edges[i]
				}
			}
		}
	})
	if outer == nil || zphi == nil {
		if nSet > 0 && outer != nil {
			r.add("RANGE-LOOP", fn+" / emitted index", pos, Undecided, "the stored vertical index was not recognised as a loop variable stepping by one through the converted range")
			return
		}
		r.add("RANGE-LOOP", fn+" / shape", pos, Undecided, "no loop over the tiles with an inner loop whose variable is stored as the vertical index was recognised")
		return
	}
	r.add("RANGE-LOOP", fn+" / emitted index", pos, Discharged, "the vertical index stored is the loop variable")
	lo := rangeSource(w, zinit)
	if lo == nil {
		// positive evidence only when the start is an expression over a range result
		bad := false
		for _, c := range callsTo(f, func(g *ssa.Function) bool { return true }) {
			if rs := rangeSource(w, extractOfAny(c, 0)); rs != nil && mentions(zinit, c, 0) {
				bad = true
			}
		}
		if bad {
			r.add("RANGE-LOOP", fn+" / bounds", pos, Violated, "the loop over z does not start at the returned minimum itself ("+describeValue(zinit)+")")
		} else {
			r.add("RANGE-LOOP", fn+" / bounds", pos, Undecided, "the start of the loop over z could not be traced to a range conversion ("+describeValue(zinit)+")")
		}
		return
	}
	c := lo.site
	if !outer.blocks()[c.Block()] {
		r.add("RANGE-LOOP", fn+" / range call", w.Pos(c.Pos()), Undecided, "the range is not converted inside the loop over the tiles that emits it (CACHE-KEY and ELEMENTWISE decide stale or cached ranges)")
		return
	}
	if ok, _ := everyIterationPasses(outer, func(x *ssa.Call) bool { return x == c }, nil); !ok {
		r.add("RANGE-LOOP", fn+" / range call", w.Pos(c.Pos()), Violated, "an iteration can skip the range conversion of its tile (a tile is dropped or a stale range is used)")
	} else {
		r.add("RANGE-LOOP", fn+" / range call", w.Pos(c.Pos()), Discharged, "every tile's range is converted in its own iteration")
	}
	switch {
	case lo.tile == nil:
		r.add("RANGE-LOOP", fn+" / tile fields", w.Pos(c.Pos()), Undecided, "the range call was not seen to read both the key and the key zoom from one tile")
	case !outer.isElem(lo.tile):
		// positive evidence: a fixed element of the request (request[0]) instead of the current one
		st := Undecided
		if ld, ok := loadOf(lo.tile); ok {
			if ia, ok := ld.(*ssa.IndexAddr); ok {
				if _, isK := constInt(ia.Index); isK {
					st = Violated
				}
			}
		}
		r.add("RANGE-LOOP", fn+" / tile fields", w.Pos(c.Pos()), st, "the range call does not recognisably read both fields from this iteration's tile ("+describeValue(lo.tile)+")")
	default:
		r.add("RANGE-LOOP", fn+" / tile fields", w.Pos(c.Pos()), Discharged, "the range call reads the key and key zoom of this iteration's tile")
	}
	if lo.idx != 0 {
		r.add("RANGE-LOOP", fn+" / bounds", pos, Violated, "the loop over z starts at the returned maximum, not the minimum")
		return
	}
	_, _, ifi := ifSuccs(zphi.Block())
	okBound, known := false, false
	if ifi != nil {
		if cmp, ok := ifi.Cond.(*ssa.BinOp); ok && cmp.X == ssa.Value(zphi) {
			bound := cmp.Y
			excl := false
			if cmp.Op == token.LSS || cmp.Op == token.NEQ {
				if a, ok := resolve(cmp.Y).(*ssa.BinOp); ok && a.Op == token.ADD {
					if k, ok := constInt(a.Y); ok && k == 1 {
						bound, excl = a.X, true
					}
				}
			}
			if hi := rangeSource(w, bound); hi != nil && hi.site == c {
				okBound = hi.idx == 1 && (cmp.Op == token.LEQ || excl)
				// positive evidence: the bound is a result of this very conversion and the loop
				// stops short of the maximum (z < max) or runs to the minimum
				known = !okBound && ((hi.idx == 1 && cmp.Op == token.LSS && !excl) || hi.idx == 0)
			}
		}
	}
	switch {
	case okBound:
		r.add("RANGE-LOOP", fn+" / bounds", pos, Discharged, "z runs from the returned minimum to the returned maximum inclusive")
	case known:
		r.add("RANGE-LOOP", fn+" / bounds", pos, Violated, "the loop over z does not end at the returned maximum inclusive")
	default:
		r.add("RANGE-LOOP", fn+" / bounds", pos, Undecided, "the end of the loop over z could not be traced to the range conversion")
	}
}

func extractOfAny(c *ssa.Call, i int) ssa.Value {
	if e := extractOf(c, i); e != nil {
		return e
	}
	return c
}

func ruleTileCompose(w *World, r *Report) {
	r.Rule("COMPOSE", "the spatial-ID tile conversion is the concatenation, over the results of the extended tile conversion called with the same four arguments, of transform.ConvertExtendedSpatialIDToSpatialIDs; an error of the extended conversion is returned with a nil list")
	fn := "transform.ConvertTileXYZsToSpatialIDs"
	f := lookupByName(w, fn)
	g := lookupByName(w, "transform.ConvertTileXYZsToExtendedSpatialIDs")
	h := lookupByName(w, "transform.ConvertExtendedSpatialIDToSpatialIDs")
	if f == nil || g == nil || h == nil {
		r.add("COMPOSE", fn, "?", Unresolved, "function not found")
		return
	}
	pos := w.Pos(f.Pos())
	calls := callsTo(f, func(x *ssa.Function) bool { return x == g })
	if len(calls) != 1 {
		r.add("COMPOSE", fn+" / delegation", pos, Undecided, "expected one call of the extended tile conversion")
		return
	}
	c := calls[0]
	okArgs := true
	for i := 0; i < 4; i++ {
		if resolve(c.Call.Args[i]) != ssa.Value(f.Params[i]) {
			okArgs = false
		}
	}
	if okArgs {
		r.add("COMPOSE", fn+" / delegation", w.Pos(c.Pos()), Discharged, "extended conversion called with the same four arguments")
	} else {
		st := Discharged
		for i := 0; i < 4; i++ {
			st = worst(st, argStatus(c.Call.Args[i], f.Params[i]))
		}
		r.add("COMPOSE", fn+" / delegation", w.Pos(c.Pos()), st, "the extended conversion does not receive the four arguments unchanged ("+shortInstr(c)+")")
	}
	res := extractOf(c, 0)
	var loop *sliceRange
	for _, sr := range findSliceRanges(f) {
		if res != nil && resolve(sr.X) == ssa.Value(res) {
			loop = sr
		}
	}
	if loop == nil {
		r.add("COMPOSE", fn+" / expansion loop", pos, Undecided, "no loop over the extended conversion's result")
		return
	}
	hc := callsTo(f, func(x *ssa.Function) bool { return x == h })
	okLoop := len(hc) == 1 && loop.blocks()[hc[0].Block()]
	skipped := false
	if okLoop {
		if ok, _ := everyIterationPasses(loop, func(x *ssa.Call) bool { return x == hc[0] }, nil); !ok {
			okLoop = false
			skipped = true
			// an iteration that appends something else instead (the ID's own single-zoom form when
			// there is nothing to expand) does not drop its ID: not recognised, not a violation
			if ok2, _ := everyIterationPasses(loop, func(x *ssa.Call) bool {
				return x == hc[0] || (builtinName(x) == "append" && isStringSlice(x.Type()))
			}, nil); ok2 {
				skipped = false
			}
		}
	}
	// returned list = accumulation of spreads of hc results
	okRet := okLoop
	for _, ret := range returnsOf(f) {
		if classifyReturn(f, ret) != retSuccess {
			continue
		}
		ai := appendChain(ret.Results[0])
		if len(ai.Appends) != 1 {
			okRet = false
			continue
		}
		_, spread := appendedElems(ai.Appends[0])
		if spread == nil || !okLoop || resolve(spread) != ssa.Value(hc[0]) {
			okRet = false
		}
		for _, b := range ai.Bases {
			if !isEmptySliceBase(b) {
				okRet = false
			}
		}
	}
	// positive evidence of a different composition: the expansion is applied to a voxel built
	// here whose vertical index comes from a counter (every z between two bounds), not to
	// the extended IDs the extended conversion returned
	counted := ""
	for _, c := range hc {
		if len(c.Call.Args) == 0 {
			continue
		}
		obj := resolve(c.Call.Args[0])
		al, isAl := obj.(*ssa.Alloc)
		if !isAl || al.Referrers() == nil {
			continue
		}
		for _, ref := range *al.Referrers() {
			sc, ok := ref.(*ssa.Call)
			if !ok || len(sc.Call.Args) != 2 || sc.Call.Args[0] != ssa.Value(al) {
				continue
			}
			g := calleeOf(sc)
			if g == nil || g.Name() != "SetZ" || pkgOf(g) == nil || pkgOf(g).Path() != modPath+"/common/object" {
				continue
			}
			if ph, ok := resolve(sc.Call.Args[1]).(*ssa.Phi); ok {
				for _, e := range ph.Edges {
					if inc, ok := resolve(e).(*ssa.BinOp); ok && inc.Op == token.ADD && stripConv(inc.X) == ssa.Value(ph) {
						if k, isK := constInt(inc.Y); isK && k == 1 {
							counted = w.Pos(sc.Pos())
						}
					}
				}
			}
		}
	}
	if !okRet && counted != "" {
		r.add("COMPOSE", fn+" / expansion loop", pos, Violated, "the expansion is applied to voxels built here whose vertical index is a counter running between two bounds (SetZ at "+counted+"), not to the extended IDs returned by the extended conversion: every index in between is added whether or not a tile covers it")
		return
	}
	if okRet {
		r.add("COMPOSE", fn+" / expansion loop", pos, Discharged, "result = concatenation of the expansion of every extended ID")
	} else {
		if skipped {
			r.add("COMPOSE", fn+" / expansion loop", pos, Violated, "an iteration over the extended IDs can continue without expanding its ID (an extended ID is dropped from the spatial-ID result)")
		} else {
			r.add("COMPOSE", fn+" / expansion loop", pos, Undecided, "the result was not recognised as the concatenation of ConvertExtendedSpatialIDToSpatialIDs over every extended ID")
		}
	}
}

// hasRangeValidation: f (or a module callee, three levels deep) contains a
// branch with a failing side whose condition involves a 2^zoom quantity
// (CalculateArithmeticShift(1, z), 1 << z, math.Pow(2, z)) or an existence
// validator built on one.
func hasRangeValidation(w *World, f *ssa.Function, depth int, seen map[*ssa.Function]bool) bool {
	if f == nil || f.Blocks == nil || depth > 3 {
		return false
	}
	// seen: functions being evaluated (cut recursion); a finished callee is evaluated
	// again when it is met again (a second call of the same validator)
	if seen[f] {
		return false
	}
	seen[f] = true
	defer delete(seen, f)
	e := scFor(w)
	pow := func(v ssa.Value) bool {
		found := false
		var walk func(x ssa.Value, d int)
		walk = func(x ssa.Value, d int) {
			x = resolve(x)
			if d > 6 || found {
				return
			}
			switch y := x.(type) {
			case *ssa.Call:
				if calleeIs(y, modPath+"/common", "CalculateArithmeticShift") {
					if k, ok := constInt(y.Call.Args[0]); ok && k == 1 {
						found = true
						return
					}
				}
				if calleeIs(y, "math", "Pow") || calleeIs(y, "math", "Ldexp") {
					found = true
					return
				}
				if g := calleeOf(y); g != nil && w.InModule(g) && hasRangeValidation(w, g, depth+1, seen) {
					found = true
					return
				}
				// a helper that returns the 2^zoom quantity (possibly from a table)
				if g := calleeOf(y); g != nil && w.InModule(g) && g.Blocks != nil && d < 4 {
					for _, ret := range returnsOf(g) {
						for _, rv := range ret.Results {
							walk(rv, d+2)
						}
					}
				}
				for _, a := range y.Call.Args {
					walk(a, d+1)
				}
			case *ssa.BinOp:
				if y.Op == token.SHL {
					if k, ok := constInt(y.X); ok && k == 1 {
						found = true
						return
					}
				}
				walk(y.X, d+1)
				walk(y.Y, d+1)
			case *ssa.UnOp:
				// an element of a local array ({lowest, highest} pairs): whatever is stored into
				// that array, at any position
				var arr *ssa.Alloc
				if ia, ok := y.X.(*ssa.IndexAddr); ok && y.Op == token.MUL {
					arr, _ = ia.X.(*ssa.Alloc)
				} else if al, ok := y.X.(*ssa.Alloc); ok && y.Op == token.MUL {
					// the whole array read at once (flags := [2]bool{a > hi, b < lo}; flags != [2]bool{})
					if _, isArr := al.Type().Underlying().(*types.Pointer).Elem().Underlying().(*types.Array); isArr {
						arr = al
					}
				}
				if arr != nil {
					if al := arr; al.Referrers() != nil {
						for _, ref := range *al.Referrers() {
							if ia2, ok := ref.(*ssa.IndexAddr); ok && ia2.Referrers() != nil {
								for _, r2 := range *ia2.Referrers() {
									if st, ok := r2.(*ssa.Store); ok && st.Addr == ssa.Value(ia2) {
										walk(st.Val, d+1)
									}
								}
							}
						}
					}
				}
				walk(y.X, d+1)
			case *ssa.Extract:
				walk(y.Tuple, d+1)
			case *ssa.Phi:
				for _, ed := range y.Edges {
					walk(ed, d+1)
				}
			case *ssa.Convert:
				walk(y.X, d+1)
			}
		}
		walk(v, 0)
		return found
	}
	// a closure of f that tests a value against a 2^zoom quantity (the validation of a
	// callback-driven computation records its error in a captured variable)
	var anon func(g *ssa.Function) bool
	anon = func(g *ssa.Function) bool {
		for _, a := range g.AnonFuncs {
			for _, blk := range a.Blocks {
				if _, _, ifi := ifSuccs(blk); ifi != nil && pow(ifi.Cond) {
					return true
				}
			}
			if anon(a) {
				return true
			}
		}
		return false
	}
	if anon(f) {
		return true
	}
	for _, blk := range f.Blocks {
		_, _, ifi := ifSuccs(blk)
		if ifi == nil || !pow(ifi.Cond) {
			continue
		}
		// a failing side (or, in a bool validator, a false side)
		for _, s := range blk.Succs {
			reach := simulateFrom(s, blk, nil, noOracle)
			any, all := false, true
			for _, ret := range returnsOf(f) {
				if reach[ret.Block()] {
					any = true
					if !e.isFailureReturn(f, ret) {
						all = false
					}
				}
			}
			if any && all {
				return true
			}
		}
	}
	// a validator expressed as a returned comparison (func (r) within(lo, hi) bool)
	for _, ret := range returnsOf(f) {
		for _, rv := range ret.Results {
			if b, ok := rv.Type().Underlying().(*types.Basic); ok && b.Kind() == types.Bool && depth > 0 {
				if _, isConst := resolve(rv).(*ssa.Const); !isConst {
					return true
				}
			}
		}
	}
	return false
}

// samePairKey: the map key is built from exactly the two components of the
// pair (a [2]T literal, a struct literal with two fields, in either order).
func samePairKey(w *World, f *ssa.Function, key ssa.Value, pair []ssa.Value) bool {
	if len(pair) != 2 {
		return false
	}
	parts, ok := arrayLiteral(key)
	if !ok {
		parts = elementParts(w, f, key)
	}
	if len(parts) != 2 {
		return false
	}
	return (equivValue(parts[0], pair[0]) && equivValue(parts[1], pair[1])) || (equivValue(parts[0], pair[1]) && equivValue(parts[1], pair[0]))
}

// guardedBySetTest: a branch that dominates the append is decided by a map
// lookup, or by a call that receives a map or a list (a set helper,
// slices.Contains).
func guardedBySetTest(w *World, f *ssa.Function, ap *ssa.Call) bool {
	for _, blk := range f.Blocks {
		t, fl, ifi := ifSuccs(blk)
		if ifi == nil {
			continue
		}
		dom := false
		for _, s := range []*ssa.BasicBlock{t, fl} {
			if s == ap.Block() || blockDominatedByEdge(f, blk, s, ap.Block()) {
				dom = true
			}
		}
		if !dom {
			continue
		}
		c := resolve(ifi.Cond)
		if u, ok := c.(*ssa.UnOp); ok && u.Op == token.NOT {
			c = resolve(u.X)
		}
		switch y := c.(type) {
		case *ssa.Lookup:
			return true
		case *ssa.Extract:
			if _, ok := y.Tuple.(*ssa.Lookup); ok {
				return true
			}
			if call, ok := y.Tuple.(*ssa.Call); ok {
				for _, a := range call.Call.Args {
					if isMap(a.Type()) || isSlice(a.Type()) {
						return true
					}
				}
			}
		case *ssa.Call:
			for _, a := range y.Call.Args {
				if isMap(a.Type()) || isSlice(a.Type()) {
					return true
				}
			}
			if y.Call.IsInvoke() || (len(y.Call.Args) > 0 && (isMap(deref(y.Call.Args[0].Type())) || true)) {
				// a method of a set type: p.newPairs(..), seen.add(k)
				if g := calleeOf(y); g != nil && g.Signature.Recv() != nil {
					return true
				}
			}
		}
	}
	return false
}

func deref(t types.Type) types.Type {
	if p, ok := t.Underlying().(*types.Pointer); ok {
		return p.Elem()
	}
	return t
}

// packedPairKey: a map lookup that guards the append is indexed by an integer
// expression built from both components of the pair with shifts, or, sums or
// products.
func packedPairKey(w *World, f *ssa.Function, ap *ssa.Call, pair []ssa.Value) string {
	if len(pair) != 2 {
		return ""
	}
	out := ""
	instrs(f, func(in ssa.Instruction) {
		lk, ok := in.(*ssa.Lookup)
		if !ok || out != "" || !isIntType(lk.Index.Type()) {
			return
		}
		b, isB := resolve(lk.Index).(*ssa.BinOp)
		var via *ssa.Call
		if !isB {
			// the same packing inside a private helper: key := pack(a, b)
			hc, isC := resolve(lk.Index).(*ssa.Call)
			if !isC || calleeOf(hc) == nil || !w.InModule(calleeOf(hc)) || calleeOf(hc).Blocks == nil {
				return
			}
			for _, ret := range returnsOf(calleeOf(hc)) {
				if len(ret.Results) == 1 {
					if hb, ok := resolve(ret.Results[0]).(*ssa.BinOp); ok {
						b, via = hb, hc
					}
				}
			}
			if b == nil {
				return
			}
		}
		switch b.Op {
		case token.OR, token.ADD, token.XOR, token.SHL, token.MUL:
		default:
			return
		}
		if via != nil {
			g := calleeOf(via)
			np := 0
			for _, p := range g.Params {
				if dependsOn(w, b, p, 0, map[ssa.Value]bool{}) {
					np++
				}
			}
			d0, d1 := false, false
			for _, a := range via.Call.Args {
				if dependsOn(w, a, resolve(pair[0]), 0, map[ssa.Value]bool{}) {
					d0 = true
				}
				if dependsOn(w, a, resolve(pair[1]), 0, map[ssa.Value]bool{}) {
					d1 = true
				}
			}
			if np < 2 || !d0 || !d1 {
				return
			}
		} else if !(dependsOn(w, b, resolve(pair[0]), 0, map[ssa.Value]bool{}) && dependsOn(w, b, resolve(pair[1]), 0, map[ssa.Value]bool{})) {
			return
		}
		// the lookup decides a branch that dominates the append
		for _, blk := range f.Blocks {
			t, fl, ifi := ifSuccs(blk)
			if ifi == nil {
				continue
			}
			c := resolve(ifi.Cond)
			if u, ok := c.(*ssa.UnOp); ok && u.Op == token.NOT {
				c = resolve(u.X)
			}
			var tl *ssa.Lookup
			switch y := c.(type) {
			case *ssa.Lookup:
				tl = y
			case *ssa.Extract:
				tl, _ = y.Tuple.(*ssa.Lookup)
			}
			if tl != lk {
				continue
			}
			for _, s := range []*ssa.BasicBlock{t, fl} {
				if s == ap.Block() || blockDominatedByEdge(f, blk, s, ap.Block()) {
					out = shortInstr(b)
				}
			}
		}
	})
	return out
}
