package main

import (
	"fmt"
	"go/token"
	"go/types"

	"golang.org/x/tools/go/ssa"
)

// PACKKEY: two index quantities packed into one integer that is then used as a map key
// (a seen-set, a memo table).  The documented ranges decide whether the packing is
// injective: x and y run up to 2^35 - 1 at zoom 35, a quadkey up to 2^62, a vertical index
// is signed and unbounded (its conversion to an unsigned type fills all 64 bits).  A low
// part wider than the shift, or a high part that does not fit above it, makes distinct
// voxels share a key; what the map then does with them (drops the second, reuses the
// verdict of the first) is wrong for one of them.
func rulePackKey(w *World, r *Report, in map[*ssa.Function]bool) {
	r.Rule("PACKKEY", "an integer built as (a << k) | b from two index quantities and used as a map key is injective over the documented ranges: bits(b) <= k and bits(a) + k <= 64, with 35 bits for x and y, 62 for a quadkey, 64 for the signed vertical index and altitude key, 6 for a zoom; quantities of unknown kind are not judged")
	ke := kindsFor(w)
	bitsOf := func(s KindSet) (int, bool) {
		if s == 0 {
			return 0, false
		}
		max := 0
		for k := Kind(1); k < kMax; k++ {
			if !s.has(k) {
				continue
			}
			b := 0
			switch k {
			case kX, kY:
				b = 35
			case kQK:
				b = 62
			case kF, kTZ:
				b = 64
			case kHZ, kVZ, kZ, kTVZ:
				b = 6
			default:
				return 0, false
			}
			if b > max {
				max = b
			}
		}
		return max, true
	}
	// is the value used as a map key, directly or as the result of the helper it is returned from?
	var usedAsKey func(v ssa.Value, depth int) bool
	usedAsKey = func(v ssa.Value, depth int) bool {
		if v.Referrers() == nil || depth > 3 {
			return false
		}
		for _, ref := range *v.Referrers() {
			switch x := ref.(type) {
			case *ssa.Lookup:
				if x.Index == v {
					if _, isMap := x.X.Type().Underlying().(*types.Map); isMap {
						return true
					}
				}
			case *ssa.MapUpdate:
				if x.Key == v {
					return true
				}
			case *ssa.Store:
				// a component of a struct or array key: key := K{tile: packed, v: v}
				if x.Val != v {
					continue
				}
				var al *ssa.Alloc
				switch a := x.Addr.(type) {
				case *ssa.FieldAddr:
					al, _ = a.X.(*ssa.Alloc)
				case *ssa.IndexAddr:
					al, _ = a.X.(*ssa.Alloc)
				}
				if al == nil || al.Referrers() == nil {
					continue
				}
				for _, r2 := range *al.Referrers() {
					if ld, ok := r2.(*ssa.UnOp); ok && ld.Op == token.MUL && usedAsKey(ld, depth+1) {
						return true
					}
				}
			case *ssa.Convert, *ssa.ChangeType, *ssa.Phi:
				if usedAsKey(x.(ssa.Value), depth+1) {
					return true
				}
			case *ssa.Return:
				// every call site of the helper
				g := x.Parent()
				for _, h := range w.ModFuncs {
					if h.Blocks == nil {
						continue
					}
					found := false
					instrs(h, func(in ssa.Instruction) {
						c, ok := in.(*ssa.Call)
						if !ok || found || calleeOf(c) != g {
							return
						}
						var res ssa.Value = c
						if g.Signature.Results().Len() > 1 {
							for i, rv := range x.Results {
								if rv == v {
									if e := extractOf(c, i); e != nil {
										res = e
									}
								}
							}
						}
						if usedAsKey(res, depth+1) {
							found = true
						}
					})
					if found {
						return true
					}
				}
			}
		}
		return false
	}
	n := 0
	for _, f := range w.ModFuncs {
		if f.Synthetic != "" || f.Blocks == nil {
			continue
		}
		can := w.IsCanary(f)
		if can && !containsAny(f.Name(), "canaryBadPackKey", "canaryGoodPackKey") {
			continue
		}
		if !can && in != nil && !in[f] {
			continue
		}
		name := w.FuncName(f)
		ord := 0
		instrs(f, func(ins ssa.Instruction) {
			b, ok := ins.(*ssa.BinOp)
			if !ok || (b.Op != token.OR && b.Op != token.ADD && b.Op != token.XOR) {
				return
			}
			hi, lo := b.X, b.Y
			sh, ok := stripAllConv(hi).(*ssa.BinOp)
			if !ok || sh.Op != token.SHL {
				hi, lo = b.Y, b.X
				sh, ok = stripAllConv(hi).(*ssa.BinOp)
				if !ok || sh.Op != token.SHL {
					return
				}
			}
			k, isK := constInt(sh.Y)
			if !isK || k <= 0 || k >= 64 {
				return
			}
			ah, al := ke.Eval(stripAllConv(sh.X)), ke.Eval(stripAllConv(lo))
			if ah == nil || al == nil {
				return
			}
			bh, okh := bitsOf(ah.Scalar)
			bl, okl := bitsOf(al.Scalar)
			if !okh || !okl {
				return
			}
			if !usedAsKey(b, 0) {
				return
			}
			ord++
			if !can {
				n++
			}
			key := fmt.Sprintf("PACKKEY / %s / packed key#%d", name, ord)
			// a part that is biased, masked or otherwise reduced before it is packed (z + 2^35
			// after a range check, x & mask): its width is not the width of its kind
			reduced := func(v ssa.Value) bool {
				_, isOp := stripAllConv(v).(*ssa.BinOp)
				return isOp
			}
			if reduced(lo) || reduced(sh.X) {
				r.Add(Obligation{Rule: "PACKKEY", Key: key, Pos: w.Pos(b.Pos()), Status: Undecided, Canary: can,
					Detail: "a part of the packed key is biased or masked before it is packed (" + shortInstr(b) + "): its width was not determined"})
				return
			}
			switch {
			case int64(bl) > k:
				r.Add(Obligation{Rule: "PACKKEY", Key: key, Pos: w.Pos(b.Pos()), Status: Violated, Canary: can,
					Detail: fmt.Sprintf("the low part (%s, up to %d bits) is wider than the shift of %d: it runs into the high part and distinct pairs share one map key (%s)", al.Scalar, bl, k, shortInstr(b))})
			case int64(bh)+k > 64:
				r.Add(Obligation{Rule: "PACKKEY", Key: key, Pos: w.Pos(b.Pos()), Status: Violated, Canary: can,
					Detail: fmt.Sprintf("the high part (%s, up to %d bits) shifted by %d does not fit into 64 bits: its top bits are lost and distinct pairs share one map key (%s)", ah.Scalar, bh, k, shortInstr(b))})
			default:
				r.Add(Obligation{Rule: "PACKKEY", Key: key, Pos: w.Pos(b.Pos()), Status: Discharged, Canary: can,
					Detail: fmt.Sprintf("%s (%d bits) << %d | %s (%d bits) is injective", ah.Scalar, bh, k, al.Scalar, bl)})
			}
		})
	}
	if n == 0 {
		r.add("PACKKEY", "module scan", "-", Discharged, "no map is keyed by an integer packed from two index quantities")
	}
}

func stripAllConv(v ssa.Value) ssa.Value {
	for {
		switch x := v.(type) {
		case *ssa.Convert:
			v = x.X
		case *ssa.ChangeType:
			v = x.X
		default:
			return v
		}
	}
}
