package main

import (
	"fmt"
	"strings"

	"golang.org/x/tools/go/ssa"
)

var kindCache *KindEngine

func kindsFor(w *World) *KindEngine {
	if kindCache == nil {
		kindCache = NewKindEngine(w)
	}
	return kindCache
}

// dumpKinds prints the inferred abstract value of every SSA value of the
// functions whose display name contains sub (debug aid).
func dumpKinds(w *World, sub string) {
	ke := kindsFor(w)
	for _, u := range ke.Unresolved {
		fmt.Println("UNRESOLVED", u)
	}
	for _, f := range w.ModFuncs {
		if !strings.Contains(w.FuncName(f), sub) {
			continue
		}
		fmt.Println("==", w.FuncName(f))
		for _, p := range f.Params {
			fmt.Printf("   param %s : %s\n", p.Name(), ke.Eval(p))
		}
		for _, b := range f.Blocks {
			fmt.Printf(" block %d\n", b.Index)
			for _, in := range b.Instrs {
				if v, ok := in.(ssa.Value); ok {
					fmt.Printf("   %-6s = %-70s : %s\n", v.Name(), trunc(in.String(), 70), ke.Eval(v))
				} else {
					fmt.Printf("            %s\n", trunc(in.String(), 90))
				}
			}
		}
		fmt.Printf("   returns: %v\n", ke.retAV[f])
	}
}

func trunc(s string, n int) string {
	s = strings.ReplaceAll(s, modPath+"/", "")
	if len(s) > n {
		return s[:n]
	}
	return s
}
