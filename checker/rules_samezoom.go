package main

import (
	"fmt"
	"go/token"
	"go/types"
	"os"

	"golang.org/x/tools/go/ssa"
)

// SAMEZOOM: a list function that changes zooms may hand back an element's own printed ID
// (no setter on the way) only where the element is already at the requested zoom on BOTH
// axes.  The conditions that dominate such an append are searched for reads of the parsed
// horizontal and vertical zoom (accessor calls, or field reads inside helpers the object is
// handed to); a shortcut that looks at one axis only returns IDs at the wrong zoom on the
// other one.
func ruleSameZoom(w *World, r *Report, names ...string) {
	r.Rule("SAMEZOOM", "where a zoom-changing list function appends the parsed element's own ID unchanged, the conditions in front of that append read the element's horizontal and its vertical zoom: a shortcut decided on one axis returns the other axis at the wrong zoom")
	idFn := lookupByName(w, "common/object.(ExtendedSpatialID).ID")
	if idFn == nil {
		r.add("SAMEZOOM", "common/object.(ExtendedSpatialID).ID", "?", Unresolved, "function not found")
		return
	}
	var fns []*ssa.Function
	for _, n := range names {
		if f := lookupByName(w, n); f != nil {
			fns = append(fns, f)
		}
	}
	for _, f := range w.ModFuncs {
		if w.IsCanary(f) && f.Blocks != nil && containsAny(f.Name(), "canaryBadSameZoom", "canaryGoodSameZoom") {
			fns = append(fns, f)
		}
	}
	isObj := func(t types.Type) bool {
		if p, ok := t.Underlying().(*types.Pointer); ok {
			t = p.Elem()
		}
		return isNamed(t, "common/object", "ExtendedSpatialID")
	}
	// zoom fields of the object read by the expression v (through accessors and helpers)
	var reads func(v ssa.Value, depth int, out map[string]bool)
	scanFn := func(g *ssa.Function, out map[string]bool, depth int) {}
	scanFn = func(g *ssa.Function, out map[string]bool, depth int) {
		if g == nil || g.Blocks == nil || depth > 2 {
			return
		}
		instrs(g, func(in ssa.Instruction) {
			switch x := in.(type) {
			case *ssa.FieldAddr:
				if isObj(x.X.Type()) && x.Referrers() != nil {
					// a read of the field, not an assignment to it
					for _, ref := range *x.Referrers() {
						if ld, ok := ref.(*ssa.UnOp); ok && ld.Op == token.MUL {
							st := x.X.Type().Underlying().(*types.Pointer).Elem().Underlying().(*types.Struct)
							out[st.Field(x.Field).Name()] = true
						}
					}
				}
			case *ssa.Field:
				if isObj(x.X.Type()) {
					st := x.X.Type().Underlying().(*types.Struct)
					out[st.Field(x.Field).Name()] = true
				}
			case *ssa.Call:
				if h := calleeOf(x); h != nil && w.InModule(h) {
					if fv := accessorField(h); fv != nil {
						out[fv.Name()] = true
					} else if h != g {
						scanFn(h, out, depth+1)
					}
				}
			}
		})
	}
	reads = func(v ssa.Value, depth int, out map[string]bool) {
		if depth > 5 {
			return
		}
		switch x := v.(type) {
		case *ssa.BinOp:
			reads(x.X, depth+1, out)
			reads(x.Y, depth+1, out)
		case *ssa.UnOp:
			reads(x.X, depth+1, out)
		case *ssa.Phi:
			for _, e := range x.Edges {
				reads(e, depth+1, out)
			}
			// a short-circuit condition: the tests that decide the phi
			for _, p := range x.Block().Preds {
				if _, _, ifi := ifSuccs(p); ifi != nil {
					reads(ifi.Cond, depth+1, out)
				}
			}
		case *ssa.Extract:
			reads(x.Tuple, depth+1, out)
		case *ssa.Call:
			h := calleeOf(x)
			if h == nil || !w.InModule(h) {
				return
			}
			if fv := accessorField(h); fv != nil {
				out[fv.Name()] = true
				return
			}
			if h.Name() == "ResetExtendedSpatialID" || h.Name() == "NewExtendedSpatialID" {
				return // parsing the element is not a test of its zooms
			}
			hasObj := false
			for _, a := range x.Call.Args {
				if isObj(a.Type()) {
					hasObj = true
				}
				reads(a, depth+1, out)
			}
			if hasObj {
				scanFn(h, out, 0)
			}
		}
	}
	for _, f := range fns {
		can := w.IsCanary(f)
		name := w.FuncName(f)
		ord := 0
		instrs(f, func(in ssa.Instruction) {
			c, ok := in.(*ssa.Call)
			if !ok || builtinName(c) != "append" || !isStringSlice(c.Type()) {
				return
			}
			elems, _ := appendedElems(c)
			if os.Getenv("SID_DEBUG_SZ") != "" {
				fmt.Fprintf(os.Stderr, "SZ %s append %s elems=%d\n", name, shortInstr(c), len(elems))
				for _, el := range elems {
					fmt.Fprintf(os.Stderr, "   el %s -> %s callee=%v idFn=%v\n", describeValue(el), describeValue(resolve(el)), func() interface{} {
						if ic, ok := resolve(el).(*ssa.Call); ok {
							return calleeOf(ic)
						}
						return nil
					}(), idFn)
				}
			}
			for _, el := range elems {
				ic, ok := resolve(el).(*ssa.Call)
				if !ok || calleeOf(ic) != idFn || len(ic.Call.Args) != 1 {
					continue
				}
				recv := stripConv(ic.Call.Args[0])
				obj := recv
				if ld, ok := loadOf(recv); ok {
					obj = ld
				}
				// a setter of a zoom on the object that can reach the append: not the unchanged ID
				changed := false
				// ... without the object being parsed afresh in between (the next iteration)
				reparse := map[*ssa.BasicBlock]bool{}
				instrs(f, func(in2 ssa.Instruction) {
					if sc, ok := in2.(*ssa.Call); ok && calleeOf(sc) != nil && calleeOf(sc).Name() == "ResetExtendedSpatialID" && len(sc.Call.Args) > 0 && stripConv(sc.Call.Args[0]) == obj {
						reparse[sc.Block()] = true
					}
				})
				instrs(f, func(in2 ssa.Instruction) {
					sc, ok := in2.(*ssa.Call)
					if !ok || calleeOf(sc) == nil || len(sc.Call.Args) < 2 || !w.InModule(calleeOf(sc)) {
						return
					}
					if stripConv(sc.Call.Args[0]) != obj || accessorField(calleeOf(sc)) != nil {
						return
					}
					g := calleeOf(sc)
					if g.Signature.Recv() == nil || g.Signature.Results().Len() != 0 {
						// a method with results that is not a setter (Reset returns an error): parsing, not changing
						if g.Name() == "ResetExtendedSpatialID" {
							return
						}
					}
					if !reparse[sc.Block()] && reachableFrom(sc.Block(), reparse)[c.Block()] && sc.Block() != c.Block() && !sc.Block().Dominates(c.Block()) {
						changed = true // on some paths only: not judged
					}
					if sc.Block() == c.Block() || sc.Block().Dominates(c.Block()) {
						if g.Name() != "ResetExtendedSpatialID" {
							changed = true
						}
					}
				})
				if changed {
					continue
				}
				out := map[string]bool{}
				for _, blk := range f.Blocks {
					if _, _, ifi := ifSuccs(blk); ifi != nil && blk.Dominates(c.Block()) && blk != c.Block() {
						reads(ifi.Cond, 0, out)
					}
				}
				ord++
				key := fmt.Sprintf("SAMEZOOM / %s / unchanged ID#%d", name, ord)
				switch {
				case out["hZoom"] && out["vZoom"]:
					r.Add(Obligation{Rule: "SAMEZOOM", Key: key, Pos: w.Pos(c.Pos()), Status: Discharged, Canary: can, Detail: "the shortcut is decided on the element's horizontal and vertical zoom"})
				case out["hZoom"] != out["vZoom"]:
					axis := "vertical"
					if out["vZoom"] {
						axis = "horizontal"
					}
					r.Add(Obligation{Rule: "SAMEZOOM", Key: key, Pos: w.Pos(c.Pos()), Status: Violated, Canary: can, Detail: "the element's own ID is appended unchanged (" + shortInstr(c) + ") behind conditions that never read its " + axis + " zoom: an element that differs from the request on that axis only comes back at its old zoom"})
				default:
					r.Add(Obligation{Rule: "SAMEZOOM", Key: key, Pos: w.Pos(c.Pos()), Status: Undecided, Canary: can, Detail: "the element's own ID is appended unchanged (" + shortInstr(c) + "); no read of its zooms was found in the conditions in front of it"})
				}
			}
		})
		if ord == 0 && !can {
			r.add("SAMEZOOM", name, w.Pos(f.Pos()), Discharged, "no element's own ID is appended unchanged")
		}
	}
}
