package main

import (
	"fmt"
	"sort"
	"strings"

	"golang.org/x/tools/go/ssa"
)

func init() {
	register(&propSpec{ID: "C14", Level: "other", Run: runC14,
		Explain: otherNote + "C14: decided = the line's; packed integer map keys (memo tables) are injective over the documented index ranges. IDs are unioned into the result in both modes; measured mode only adds current elements of the candidate list the skipped mode returns, and only where distance < radius (the parameter itself); the search box is sized by the maximum layer fit over all line voxels and does not depend on map iteration order; result de-duplicated; negative radius / bad zoom / nil points fail. The geometric distance bound and the radius-0 identity are NOT decided.",
		Canary:  []CanaryExpect{{Rule: "NOORDERDEP", Bad: "canaryBadFirstOfUnique", Good: "canaryGoodRangeUnique"}}})
	register(&propSpec{ID: "C15", Level: "other", Run: runC15,
		Explain: otherNote + "C15: decided = every documented exclusion (guard table, 90+ rows) leads to a failure return on every path under its abstract scenario, with no reachable constant index into a split ID and no nil dereference before the check; no strconv error of caller text is dropped or overwritten; Point fields are written only by guarded setters with the documented rounding; failure returns of the overlap checks and tile conversions carry false / nil; IDs are not cut with a tokenizer that drops empty components; a parse error is not overwritten by the next iteration of a loop before it is read.",
		Canary: []CanaryExpect{
			{Rule: "ERRUSED", Bad: "canaryBadDroppedAtoi", Good: "canaryGoodCheckedAtoi"},
			{Rule: "HANDPARSE", Bad: "canaryBadParseWrap", Good: "canaryGoodParseCutoff"},
			{Rule: "HANDPARSE", Bad: "canaryBadParseLoneSign", Good: "canaryGoodParseCutoff"},
			{Rule: "SIGNED-FIELD", Bad: "canaryBadDigitRuns", Good: "canaryGoodSplit"},
			{Rule: "SIGNED-FIELD", Bad: "canaryBadUnsignedComponents", Good: "canaryGoodSplit"},
			{Rule: "LENCAP", Bad: "canaryBadLenCap", Good: "canaryGoodNoCap"},
			{Rule: "INDEX-SIGN", Bad: "canaryBadOptionIndex", Good: "canaryGoodOptionIndex"},
			{Rule: "GUARD", Bad: "canaryBadZoomGuard", Good: "canaryGoodZoomGuard"},
			{Rule: "PARSE-BASE", Bad: "canaryBadBase0", Good: "canaryGoodCheckedAtoi"},
			{Rule: "ERRSWALLOW", Bad: "canaryBadSwallowErr", Good: "canaryGoodReportErr"},
		}})
	register(&propSpec{ID: "C16", Level: "other", Run: runC16,
		Explain: otherNote + "C16: decided = no exported function writes memory reachable from its arguments; no result depends on the position of an element in a map-ordered slice; bodies of map-range loops are commutative; documented de-duplication happens on every success path; no other nondeterminism source is reachable; packed integer map keys are injective over the documented index ranges. Invariance of the result set under permutation/duplication of the input list in general is NOT decided.",
		Canary: []CanaryExpect{
			{Rule: "NOORDERDEP", Bad: "canaryBadFirstOfUnique", Good: "canaryGoodRangeUnique"},
			{Rule: "EFFECT-PARAM", Bad: "canaryBadSortInput", Good: "canaryGoodSortCopy"},
			{Rule: "MAPLOOP-COMMUTATIVE", Bad: "canaryBadLastKey", Good: "canaryGoodKeys"},
			{Rule: "PACKKEY", Bad: "canaryBadPackKey", Good: "canaryGoodPackKey"},
		}})
	register(&propSpec{ID: "C18", Level: "other", Run: runC18,
		Explain: otherNote + "C18: decided = altitude is the same SSA value end to end (never the transformed height); x/y are exactly the transform's results; one output per input in order; the Safe transform's error is tested every iteration and mapped to the conversion error; forward/backward use (4326 -> crs)/(crs -> 4326). Numeric invertibility is NOT decided."})
	register(&propSpec{ID: "C20", Level: "other", Run: runC20,
		Canary:  []CanaryExpect{{Rule: "EXTREMUM", Bad: "canaryBadExtremum", Good: "canaryGoodExtremum"}},
		Explain: otherNote + "C20: decided = the signed shift is floor for both signs; Max/Min/MaxPoint/MinPoint reject empty input before indexing; helpers do not write their arguments; the set operations have the total-scan / membership-filter shape of the operations they are named after; the nine matrix-product cells have the sum-over-k index pattern. Value laws of Combinations, vectors and quaternions are NOT decided."})
}

func runC14(w *World, r *Report, tier string) {
	kindRuleTexts(r)
	unresolvedSeeds(w, r)
	entries := entryFuncs(w, r, "transform.GetExtendedSpatialIdsWithinRadiusOfLine", "transform.FitClearanceAroundExtendedSpatialID")
	ruleChunks(w, r, closureOf(w, entries))
	own := map[*ssa.Function]bool{}
	for _, f := range entries {
		own[f] = true
	}
	kr := kindRulesFor(w)
	kr.emit(w, r, []string{"KIND-CALL", "KIND-LAYOUT"}, own)
	kr.emit(w, r, []string{"REM-SIGN"}, closureOf(w, entries))
	ruleCorridor(w, r)
	rulePackKey(w, r, nil)
	ruleNoOrderDep(w, r, own)
	if f := lookupByName(w, "transform.GetExtendedSpatialIdsWithinRadiusOfLine"); f != nil {
		ruleDistinct(w, r, f)
	}
	guardRows(w, r, "C14")
}

func runC15(w *World, r *Report, tier string) {
	unresolvedSeeds(w, r)
	ruleNegF(w, r, nil)
	guardRows(w, r, "C15")
	ruleErrUsed(w, r, nil)
	ruleErrSwallow(w, r, nil)
	ruleHandParse(w, r)
	ruleSignedField(w, r)
	ruleLenCap(w, r)
	ruleIndexSign(w, r)
	rulePointFields(w, r)
	for _, n := range []string{"detector.CheckSpatialIdsArrayOverlap", "detector.CheckExtendedSpatialIdsOverlap", "detector.CheckExtendedSpatialIdsArrayOverlap",
		"transform.ConvertTileXYZsToExtendedSpatialIDs", "transform.ConvertTileXYZsToSpatialIDs"} {
		ruleNoPartial(w, r, n)
	}
	// INFO: exported error-returning functions with guardable parameters and no row
	have := map[string]bool{}
	for _, row := range guardTable {
		have[row.Func] = true
	}
	var missing []string
	for _, f := range w.ExportedRoots() {
		if errResultIndex(f) < 0 {
			continue
		}
		n := w.FuncName(f)
		if !have[n] && !have[strings.Replace(n, ".(", ".(*", 1)] {
			missing = append(missing, n)
		}
	}
	sort.Strings(missing)
	r.Notes = append(r.Notes, "exported error-returning functions without a guard-table row (outside the documented exclusions): "+strings.Join(missing, ", "))
}

func runC16(w *World, r *Report, tier string) {
	unresolvedSeeds(w, r)
	ruleGoShared(w, r)
	rulePoolReset(w, r)
	rulePoolUseAfterPut(w, r)
	ruleHashKey(w, r)
	rulePackKey(w, r, nil)
	r.Rule("EFFECT-PARAM", "no exported function (setters excepted) writes memory reachable from its arguments, directly or through callees (stores through index/field addresses, copy, in-place sorts, appends into a caller's spare capacity)")
	e := effectsFor(w)
	for _, f := range append(w.ExportedRoots(), canaryFuncs(w)...) {
		s := e.Summary(f)
		name := w.FuncName(f)
		var bad []string
		for _, m := range []map[int]*Witness{s.WritesParam, s.WritesParamDeep} {
			for i, wit := range m {
				if i == 0 && isSetter(w, f) {
					continue
				}
				if appendsByContract[name] == i+1 {
					continue
				}
				pn := fmt.Sprintf("param#%d", i)
				if i < len(f.Params) {
					pn = f.Params[i].Name()
				}
				bad = append(bad, pn+": "+wit.String())
			}
		}
		sort.Strings(bad)
		if len(bad) > 0 {
			r.Add(Obligation{Rule: "EFFECT-PARAM", Key: "EFFECT-PARAM / " + name, Pos: w.Pos(f.Pos()), Status: Violated, Detail: "may write its caller's data: " + strings.Join(bad, "; "), Canary: w.IsCanary(f)})
		} else {
			r.Add(Obligation{Rule: "EFFECT-PARAM", Key: "EFFECT-PARAM / " + name, Pos: w.Pos(f.Pos()), Status: Discharged, Detail: "inputs are left unmodified", Canary: w.IsCanary(f)})
		}
	}
	ruleNoOrderDep(w, r, nil)
	ruleMapLoopCommutative(w, r, nil)
	ruleNoSkip(w, r, "integrate.MergeExtendedSpatialIds")
	ruleUnitZoom(w, r)
	ruleCacheKey(w, r, nil)
	ruleOverlapAlign(w, r) // establishes the singleton exemption of NOORDERDEP
	ruleNonDetSources(w, r)
	for _, n := range []string{"integrate.ChangeExtendedSpatialIdsZoom", "integrate.ChangeSpatialIdsZoom", "integrate.MergeExtendedSpatialIds", "integrate.MergeSpatialIds",
		"shape.GetExtendedSpatialIdsOnLine", "shape.GetSpatialIdsOnLine", "operated.GetNspatialIdsAroundVoxcels",
		"transform.GetExtendedSpatialIdsWithinRadiusOfLine", "transform.ConvertQuadkeysAndVerticalIDsToExtendedSpatialIDs", "transform.ConvertTileXYZsToExtendedSpatialIDs"} {
		if f := lookupByName(w, n); f != nil {
			ruleDistinct(w, r, f)
		} else {
			r.add("DISTINCT", n, "?", Unresolved, "function not found")
		}
	}
	rulePairDedup(w, r, "transform.ConvertExtendedSpatialIDsToQuadkeysAndVerticalIDs")
	rulePairDedup(w, r, "transform.ConvertExtendedSpatialIDsToQuadkeysAndAltitudekeys")
}

func runC18(w *World, r *Report, tier string) {
	r.Rule("PASSTHRU", "the altitude of each output is the same SSA value as the altitude of the corresponding input (the transform's third result is discarded); X/Y (lon/lat) are exactly the transform's first two results; the transform is applied to the coordinates of the same loop element")
	r.Rule("CRS-ARGS", "forward uses SafeTransform(Code(consts.GeoCrs), Code(projectedCrs)), backward SafeTransform(Code(projectedCrs), Code(consts.GeoCrs))")
	r.Rule("ERRUSED", "the error of the transform is tested in every iteration; its non-nil edge returns errors.ValueConvertErrorCode; the Safe variant is used so that an unknown EPSG code becomes an error")
	unresolvedSeeds(w, r)
	rulePointFields(w, r)
	ruleChunks(w, r, closureOf(w, entryFuncs(w, r, "shape.ConvertPointListToProjectedPointList", "shape.ConvertProjectedPointListToPointList")))
	for _, it := range []struct {
		fn  string
		fwd bool
	}{{"shape.ConvertPointListToProjectedPointList", true}, {"shape.ConvertProjectedPointListToPointList", false}} {
		if f := lookupByName(w, it.fn); f != nil {
			ruleMapOrder(w, r, f, 0)
		}
		ruleElementwise(w, r, it.fn, 0)
		ruleProjection(w, r, it.fn, it.fwd)
	}
	r.Assume = append(r.Assume, "wgs84.SafeTransform returns an error for a nil (unknown) CRS, wgs84.Transform does not (read from the dependency's source)")
}

func runC20(w *World, r *Report, tier string) {
	kindRuleTexts(r)
	ashiftRule(w, r)
	ruleEmptyGuard(w, r)
	ruleSetOps(w, r)
	ruleExtremum(w, r, lookupByName(w, "common.Max"), lookupByName(w, "common.Min"))
	ruleMatMul(w, r)
	r.Rule("EFFECT-PARAM", "no helper of common and common/spatial writes memory reachable from its arguments (UniqueAppend appends to its first argument by contract)")
	e := effectsFor(w)
	for _, f := range w.ExportedRoots() {
		p := pkgOf(f)
		if p == nil || !(p.Path() == modPath+"/common" || p.Path() == modPath+"/common/spatial") {
			continue
		}
		s := e.Summary(f)
		name := w.FuncName(f)
		var bad []string
		for _, m := range []map[int]*Witness{s.WritesParam, s.WritesParamDeep} {
			for i, wit := range m {
				if appendsByContract[name] == i+1 {
					continue
				}
				if i == 0 && isSetter(w, f) {
					continue
				}
				bad = append(bad, fmt.Sprintf("param#%d: %s", i, wit))
			}
		}
		sort.Strings(bad)
		if len(bad) > 0 {
			r.add("EFFECT-PARAM", name, w.Pos(f.Pos()), Violated, "may write its caller's data: "+strings.Join(bad, "; "))
		} else {
			r.add("EFFECT-PARAM", name, w.Pos(f.Pos()), Discharged, "arguments are left unmodified")
		}
	}
}
