package main

// GOSHARED: worker goroutines started in a loop may share read-only data and
// write disjoint elements of a pre-sized slice.  Positive evidence of a race:
//   - the spawning loop keeps assigning a variable (declared outside the loop)
//     that the running workers read through their closure;
//   - the workers (or a function literal they call) write a captured variable's
//     own cell, or one object behind a captured pointer, that exists once for
//     all of them (a parser object, an accumulator) -- not a slice element, not
//     a sync / sync/atomic object.

import (
	"fmt"
	"go/types"
	"strings"

	"golang.org/x/tools/go/ssa"
)

func ruleGoShared(w *World, r *Report) {
	r.Rule("GOSHARED", "goroutines started in a loop share only what nobody writes while they run: the spawning loop does not keep assigning a variable the workers captured, and the workers do not write a captured variable or a single object behind a captured pointer that exists once for all of them (slice elements and sync / atomic objects excepted; a mutex in the worker makes it undecided)")
	n := 0
	isSyncType := func(t types.Type) bool {
		for {
			if p, ok := t.(*types.Pointer); ok {
				t = p.Elem()
				continue
			}
			break
		}
		if nt, ok := t.(*types.Named); ok && nt.Obj().Pkg() != nil {
			pp := nt.Obj().Pkg().Path()
			return pp == "sync" || pp == "sync/atomic"
		}
		return false
	}
	for _, f := range w.ModFuncs {
		if f.Blocks == nil {
			continue
		}
		can := w.IsCanary(f)
		name := w.FuncName(f)
		loops := naturalLoops(f)
		ord := 0
		instrs(f, func(in ssa.Instruction) {
			g, ok := in.(*ssa.Go)
			if !ok {
				return
			}
			l := innermostLoop(loops, g.Block())
			if l == nil {
				return
			}
			// the outermost loop around the go statement
			for _, cand := range loops {
				if cand.Blocks[g.Block()] && len(cand.Blocks) > len(l.Blocks) {
					l = cand
				}
			}
			mc, ok := g.Call.Value.(*ssa.MakeClosure)
			if !ok {
				return
			}
			fn, ok := mc.Fn.(*ssa.Function)
			if !ok {
				return
			}
			ord++
			if !can {
				n++
			}
			key := fmt.Sprintf("GOSHARED / %s / go#%d", name, ord)
			bad, open := "", ""
			spawnerWrites := false
			locks := false
			var visit func(cl *ssa.Function, bindings []ssa.Value, depth int)
			visit = func(cl *ssa.Function, bindings []ssa.Value, depth int) {
				if depth > 3 || cl == nil || cl.Blocks == nil {
					return
				}
				instrs(cl, func(in2 ssa.Instruction) {
					if c, ok := in2.(*ssa.Call); ok {
						if cal := c.Call.StaticCallee(); cal != nil && pkgOf(cal) != nil && pkgOf(cal).Path() == "sync" && (cal.Name() == "Lock" || cal.Name() == "RLock") {
							locks = true
						}
					}
				})
				sum := effectsFor(w).Summary(cl)
				for i, b := range bindings {
					if i >= len(cl.FreeVars) {
						break
					}
					al, isAl := b.(*ssa.Alloc)
					outside := true
					if bi, ok := b.(ssa.Instruction); ok && l.Blocks[bi.Block()] {
						outside = false
					}
					elem := cl.FreeVars[i].Type()
					if p, ok := elem.(*types.Pointer); ok {
						elem = p.Elem()
					}
					if isSyncType(elem) {
						continue
					}
					vname := cl.FreeVars[i].Name()
					// (1) the spawner keeps assigning the captured variable inside the loop
					if isAl && outside && al.Referrers() != nil {
						for _, ref := range *al.Referrers() {
							if st, ok := ref.(*ssa.Store); ok && st.Addr == ssa.Value(al) && st.Parent() == f && l.Blocks[st.Block()] {
								if !spawnerWrites {
									spawnerWrites = true
									bad = "the loop that starts the goroutines keeps assigning " + vname + " (" + w.Pos(st.Pos()) + "), a variable declared outside the loop that the running goroutines read through their closure"
								}
							}
						}
					}
					// (2) the worker writes the captured cell itself
					if wit, ok := sum.WritesFree[i]; ok && outside {
						// an array variable: the workers write its elements (disjoint slots), like a slice
						if _, isArr := elem.Underlying().(*types.Array); isArr {
							continue
						}
						if bad == "" {
							bad = "every goroutine assigns the captured variable " + vname + ", which exists once for all of them (" + wit.String() + ")"
						}
					}
					// (3) the worker writes an object behind the captured value
					if wit, ok := sum.WritesFreeDeep[i]; ok && outside {
						switch elem.Underlying().(type) {
						case *types.Slice, *types.Map, *types.Array:
							// elements: disjoint slots are the normal worker pattern; maps are not followed
							if _, isMap := elem.Underlying().(*types.Map); isMap && bad == "" && !locks {
								open = "the goroutines write the captured map " + vname + " (" + wit.String() + ")"
							}
						case *types.Pointer:
							if bad == "" && !isSyncType(elem) {
								bad = "every goroutine writes the one object behind the captured pointer " + vname + " (" + wit.String() + ")"
							}
						case *types.Signature:
						default:
							if open == "" {
								open = "the goroutines write memory reached from the captured " + vname + " (" + wit.String() + ")"
							}
						}
					}
					// a captured function literal: what IT captured is shared the same way
					if isAl && al.Referrers() != nil {
						for _, ref := range *al.Referrers() {
							if st, ok := ref.(*ssa.Store); ok && st.Addr == ssa.Value(al) {
								if mc2, ok := st.Val.(*ssa.MakeClosure); ok {
									if fn2, ok := mc2.Fn.(*ssa.Function); ok {
										visit(fn2, mc2.Bindings, depth+1)
									}
								}
							}
						}
					}
					if mc2, ok := b.(*ssa.MakeClosure); ok {
						if fn2, ok := mc2.Fn.(*ssa.Function); ok {
							visit(fn2, mc2.Bindings, depth+1)
						}
					}
				}
			}
			visit(fn, mc.Bindings, 0)
			switch {
			case bad != "" && (!locks || spawnerWrites):
				r.Add(Obligation{Rule: "GOSHARED", Key: key, Pos: w.Pos(g.Pos()), Status: Violated, Canary: can, Detail: bad})
			case bad != "" || open != "":
				d := bad
				if d == "" {
					d = open
				}
				if locks {
					d += " (the worker takes a lock: not followed)"
				}
				r.Add(Obligation{Rule: "GOSHARED", Key: key, Pos: w.Pos(g.Pos()), Status: Undecided, Canary: can, Detail: d})
			default:
				r.Add(Obligation{Rule: "GOSHARED", Key: key, Pos: w.Pos(g.Pos()), Status: Discharged, Canary: can, Detail: "the goroutines write slice elements and sync objects only; no captured variable is assigned while they run"})
			}
		})
	}
	if n == 0 && !strings.Contains("", "x") {
		r.add("GOSHARED", "module scan", "-", Discharged, "no goroutine is started in a loop")
	}
}

// POOL-RESET: a map taken from a package-level sync.Pool still holds what the
// previous user put into it.  It must be emptied (clear(m), or a range-delete
// loop) before it is first used -- or on every way out before it goes back to
// the pool; a clear that sits on the success path only leaves the next caller
// the leftovers of a failed call.
func rulePoolReset(w *World, r *Report) {
	r.Rule("POOL-RESET", "a map obtained from a sync.Pool is emptied before its first use, or on every path before the function returns (it goes back to the pool by a deferred Put): otherwise a later call starts with the entries of an earlier one")
	n := 0
	for _, f := range w.ModFuncs {
		if f.Blocks == nil || f.Synthetic != "" {
			continue
		}
		can := w.IsCanary(f)
		name := w.FuncName(f)
		ord := 0
		instrs(f, func(in ssa.Instruction) {
			ta, ok := in.(*ssa.TypeAssert)
			if !ok {
				return
			}
			if _, isMap := ta.AssertedType.Underlying().(*types.Map); !isMap {
				return
			}
			c, ok := ta.X.(*ssa.Call)
			if !ok {
				return
			}
			cal := c.Call.StaticCallee()
			if cal == nil || cal.Name() != "Get" || pkgOf(cal) == nil || pkgOf(cal).Path() != "sync" {
				return
			}
			var m ssa.Value = ta
			if ta.CommaOk {
				return
			}
			ord++
			if !can {
				n++
			}
			key := fmt.Sprintf("POOL-RESET / %s / pooled map#%d", name, ord)
			// uses and clears of m (directly; a map is a reference, copies are the same map)
			var clears, uses []ssa.Instruction
			if m.Referrers() != nil {
				for _, ref := range *m.Referrers() {
					switch x := ref.(type) {
					case *ssa.Call:
						if builtinName(x) == "clear" {
							clears = append(clears, x)
						} else if builtinName(x) == "delete" {
							// a delete inside a range over m itself empties it
							clears = append(clears, x)
						} else if builtinName(x) == "len" {
						} else {
							uses = append(uses, x)
						}
					case *ssa.MapUpdate, *ssa.Lookup, *ssa.Range:
						uses = append(uses, x)
					case *ssa.Defer:
					}
				}
			}
			if len(clears) == 0 {
				r.Add(Obligation{Rule: "POOL-RESET", Key: key, Pos: w.Pos(ta.Pos()), Status: Violated, Canary: can, Detail: "the map taken from the pool is never emptied: it still holds the entries of the call that used it before"})
				return
			}
			// a clear that dominates every use
			for _, cl := range clears {
				all := true
				for _, u := range uses {
					if !(cl.Block().Dominates(u.Block()) && (cl.Block() != u.Block() || before(cl, u))) {
						all = false
					}
				}
				if all {
					r.Add(Obligation{Rule: "POOL-RESET", Key: key, Pos: w.Pos(ta.Pos()), Status: Discharged, Canary: can, Detail: "the pooled map is emptied before its first use"})
					return
				}
			}
			// otherwise every return must be preceded by a clear
			for _, ret := range returnsOf(f) {
				ok := false
				for _, cl := range clears {
					if cl.Block().Dominates(ret.Block()) {
						ok = true
					}
				}
				if !ok {
					r.Add(Obligation{Rule: "POOL-RESET", Key: key, Pos: w.Pos(ta.Pos()), Status: Violated, Canary: can, Detail: "the pooled map is emptied on some ways out only: the return at " + w.Pos(ret.Pos()) + " hands it back to the pool with the entries of this call still in it"})
					return
				}
			}
			r.Add(Obligation{Rule: "POOL-RESET", Key: key, Pos: w.Pos(ta.Pos()), Status: Discharged, Canary: can, Detail: "the pooled map is emptied on every way out"})
		})
	}
	_ = n
}

func before(a, b ssa.Instruction) bool {
	for _, in := range a.Block().Instrs {
		if in == a {
			return true
		}
		if in == b {
			return false
		}
	}
	return false
}

// POOL-USE-AFTER-PUT: an object handed back to a sync.Pool belongs to the next
// Get -- possibly another goroutine -- from that moment on.  Reading it after
// the (non-deferred) Put races with that other user.
func rulePoolUseAfterPut(w *World, r *Report) {
	r.Rule("POOL-USE-AFTER-PUT", "a value is not read after it was handed back with (*sync.Pool).Put (a deferred Put excepted): from then on it belongs to whoever Gets it next")
	for _, f := range w.ModFuncs {
		if f.Blocks == nil || f.Synthetic != "" {
			continue
		}
		can := w.IsCanary(f)
		name := w.FuncName(f)
		ord := 0
		instrs(f, func(in ssa.Instruction) {
			c, ok := in.(*ssa.Call)
			if !ok {
				return
			}
			cal := c.Call.StaticCallee()
			if cal == nil || cal.Name() != "Put" || pkgOf(cal) == nil || pkgOf(cal).Path() != "sync" || len(c.Call.Args) != 2 {
				return
			}
			v := c.Call.Args[1]
			if mi, ok := v.(*ssa.MakeInterface); ok {
				v = mi.X
			}
			if _, isConst := v.(*ssa.Const); isConst || v.Referrers() == nil {
				return
			}
			ord++
			key := fmt.Sprintf("POOL-USE-AFTER-PUT / %s / put#%d", name, ord)
			after := reachableFrom(c.Block(), nil)
			bad := ""
			// values that share storage with the pooled object: what is stored behind a pooled
			// pointer, what is loaded from it, and slices / appends built on those
			alias := map[ssa.Value]bool{v: true}
			for changed, rounds := true, 0; changed && rounds < 6; rounds++ {
				changed = false
				add := func(x ssa.Value) {
					if x != nil && !alias[x] {
						if _, isK := x.(*ssa.Const); !isK {
							alias[x] = true
							changed = true
						}
					}
				}
				for a := range alias {
					if a.Referrers() == nil {
						continue
					}
					for _, ref := range *a.Referrers() {
						switch x := ref.(type) {
						case *ssa.Store:
							if x.Addr == a && isSlice(x.Val.Type()) {
								add(x.Val)
							}
						case *ssa.UnOp:
							if x.X == a && isSlice(x.Type()) {
								add(x)
							}
						case *ssa.Slice:
							add(x)
						case *ssa.Phi:
							if isSlice(x.Type()) {
								add(x)
							}
						case *ssa.Call:
							if builtinName(x) == "append" && len(x.Call.Args) > 0 && x.Call.Args[0] == a {
								add(x)
							}
							if cal := x.Call.StaticCallee(); cal != nil && pkgOf(cal) != nil && pkgOf(cal).Path() == "strconv" && strings.HasPrefix(cal.Name(), "Append") && len(x.Call.Args) > 0 && x.Call.Args[0] == a {
								add(x)
							}
						}
					}
					// what an alias was built from (id = append(id0, ..): id0 shares the storage too)
					switch y := a.(type) {
					case *ssa.Phi:
						for _, e := range y.Edges {
							if isSlice(e.Type()) {
								add(e)
							}
						}
					}
				}
			}
			for a := range alias {
				if a == v || a.Referrers() == nil {
					continue
				}
				for _, ref := range *a.Referrers() {
					switch ref.(type) {
					case *ssa.Convert, *ssa.Index, *ssa.IndexAddr, *ssa.Return, *ssa.Range, *ssa.Lookup:
					default:
						continue
					}
					rb := ref.Block()
					later := false
					if rb == c.Block() {
						later = before(c, ref)
					} else {
						later = after[rb] && !rb.Dominates(c.Block())
					}
					if later && bad == "" {
						bad = shortInstr(ref) + " at " + w.Pos(ref.Pos()) + " (it shares storage with the pooled object)"
					}
				}
			}
			for _, ref := range *v.Referrers() {
				if ref == ssa.Instruction(c) {
					continue
				}
				if _, isDbg := ref.(*ssa.DebugRef); isDbg {
					continue
				}
				if mi, ok := ref.(*ssa.MakeInterface); ok && mi == c.Call.Args[1] {
					continue
				}
				rb := ref.Block()
				if rb == nil {
					continue
				}
				later := false
				if rb == c.Block() {
					later = before(c, ref) && ref != ssa.Instruction(c)
				} else {
					// reachable from the Put without the Put's block being re-entered first
					later = after[rb] && !rb.Dominates(c.Block())
				}
				if later && bad == "" {
					bad = shortInstr(ref) + " at " + w.Pos(ref.Pos())
				}
			}
			if bad != "" {
				r.Add(Obligation{Rule: "POOL-USE-AFTER-PUT", Key: key, Pos: w.Pos(c.Pos()), Status: Violated, Canary: can, Detail: "the value handed back to the pool here is still read afterwards (" + bad + "): the next Get, possibly on another goroutine, overwrites it meanwhile"})
			} else {
				r.Add(Obligation{Rule: "POOL-USE-AFTER-PUT", Key: key, Pos: w.Pos(c.Pos()), Status: Discharged, Canary: can, Detail: "nothing reads the value after the Put"})
			}
		})
	}
}

// HASHKEY: a seen-set (or memo) keyed by a hash of the element instead of the
// element: two different elements with the same hash are taken for one.
func ruleHashKey(w *World, r *Report) {
	r.Rule("HASHKEY", "a set or memo is keyed by the element (or an injective encoding of it), not by a hash of it (hash/fnv, hash/crc32, hash/maphash ...): elements whose hashes collide would be taken for the same element")
	n := 0
	fromHash := func(v ssa.Value) string {
		found := ""
		var walk func(x ssa.Value, d int)
		walk = func(x ssa.Value, d int) {
			if found != "" || d > 5 || x == nil {
				return
			}
			x = resolve(x)
			switch y := x.(type) {
			case *ssa.Call:
				cal := y.Call.StaticCallee()
				if cal != nil && pkgOf(cal) != nil && (strings.HasPrefix(pkgOf(cal).Path(), "hash/") || pkgOf(cal).Path() == "hash") {
					found = cal.String()
					return
				}
				if y.Call.IsInvoke() && y.Call.Method != nil && (y.Call.Method.Name() == "Sum32" || y.Call.Method.Name() == "Sum64") {
					found = "hash " + y.Call.Method.Name()
					return
				}
				if cal != nil && w.InModule(cal) && cal.Blocks != nil && d < 3 {
					for _, ret := range returnsOf(cal) {
						for _, rv := range ret.Results {
							walk(rv, d+2)
						}
					}
				}
			case *ssa.Convert:
				walk(y.X, d+1)
			case *ssa.BinOp:
				walk(y.X, d+1)
				walk(y.Y, d+1)
			case *ssa.Phi:
				for _, e := range y.Edges {
					walk(e, d+1)
				}
			}
		}
		walk(v, 0)
		return found
	}
	for _, f := range w.ModFuncs {
		if f.Blocks == nil || f.Synthetic != "" {
			continue
		}
		can := w.IsCanary(f)
		name := w.FuncName(f)
		ord := 0
		instrs(f, func(in ssa.Instruction) {
			mu, ok := in.(*ssa.MapUpdate)
			if !ok {
				return
			}
			h := fromHash(mu.Key)
			if h == "" {
				return
			}
			ord++
			if !can {
				n++
			}
			r.Add(Obligation{Rule: "HASHKEY", Key: fmt.Sprintf("HASHKEY / %s / keyed store#%d", name, ord), Pos: w.Pos(mu.Pos()), Status: Violated, Canary: can,
				Detail: "the map is keyed by a hash of the element (" + h + "): two different elements with the same hash are taken for one (a seen-set drops the second, a memo answers with the first)"})
		})
	}
	if n == 0 {
		r.add("HASHKEY", "module scan", "-", Discharged, "no map of the module is keyed by a hash value")
	}
}
