package main

// HANDPARSE: a hand-written decimal parser (n = n*10 + digit in a loop over the
// characters of a string) must refuse what strconv.ParseInt refuses: values
// that do not fit 64 bits, and a string without digits.
//
//   - overflow: accepted protections are a cutoff comparison of the accumulator
//     with a constant of the order of MaxInt64/10 inside the loop, or a bound of
//     at most 18 on the length of the digit string.  Known-insufficient forms
//     are positive evidence: a bound of 19 or more characters (9999999999999999999
//     has 19 digits), a sign test of the accumulator (n*10+d can wrap past 2^64
//     back into the non-negative range), a comparison with the previous value,
//     or no test of the accumulator or of the length at all.
//   - no digits: when the digit string is what is left after a sign was cut off,
//     the path on which the loop runs zero times must not reach a success
//     return without a test of that string (or of the position counter).

import (
	"fmt"
	"go/token"
	"go/types"
	"math"

	"golang.org/x/tools/go/ssa"
)

type digitLoop struct {
	f    *ssa.Function
	acc  *ssa.Phi   // the accumulator n
	step *ssa.BinOp // n*10 + d (or - d)
	loop *natLoop
	str  ssa.Value // the string whose characters are read in the loop (nil if not found)
}

func findDigitLoops(f *ssa.Function) []digitLoop {
	var out []digitLoop
	loops := naturalLoops(f)
	for _, b := range f.Blocks {
		for _, in := range b.Instrs {
			phi, ok := in.(*ssa.Phi)
			if !ok {
				break
			}
			if !isIntType(phi.Type()) {
				continue
			}
			for _, e := range phi.Edges {
				step, ok := resolve(e).(*ssa.BinOp)
				if !ok || (step.Op != token.ADD && step.Op != token.SUB) {
					continue
				}
				mul, ok := stripConv(step.X).(*ssa.BinOp)
				if !ok || mul.Op != token.MUL {
					if m2, ok2 := stripConv(step.Y).(*ssa.BinOp); ok2 && m2.Op == token.MUL && step.Op == token.ADD {
						mul, ok = m2, true
					}
				}
				if !ok || mul == nil || mul.Op != token.MUL {
					continue
				}
				ten := false
				if k, isK := constInt(mul.Y); isK && k == 10 && stripConv(mul.X) == ssa.Value(phi) {
					ten = true
				}
				if k, isK := constInt(mul.X); isK && k == 10 && stripConv(mul.Y) == ssa.Value(phi) {
					ten = true
				}
				if !ten {
					continue
				}
				var l *natLoop
				for _, cand := range loops {
					if cand.Header == phi.Block() || (cand.Blocks[phi.Block()] && cand.Blocks[step.Block()]) {
						if l == nil || len(cand.Blocks) < len(l.Blocks) {
							l = cand
						}
					}
				}
				if l == nil {
					continue
				}
				dl := digitLoop{f: f, acc: phi, step: step, loop: l}
				// the string: a character lookup s[i] or a range over s inside the loop
				for blk := range l.Blocks {
					for _, in2 := range blk.Instrs {
						switch x := in2.(type) {
						case *ssa.Lookup:
							if isStringType(x.X.Type()) {
								dl.str = x.X
							}
						case *ssa.Index:
							if isStringType(x.X.Type()) {
								dl.str = x.X
							}
						case *ssa.Next:
							if x.IsString {
								if rg, ok := x.Iter.(*ssa.Range); ok {
									dl.str = rg.X
								}
							}
						case *ssa.IndexAddr:
							if sl, ok := x.X.Type().Underlying().(*types.Slice); ok {
								if bt, ok := sl.Elem().Underlying().(*types.Basic); ok && bt.Kind() == types.Uint8 {
									dl.str = x.X
								}
							}
						}
					}
				}
				out = append(out, dl)
			}
		}
	}
	return out
}

// stringFamily: the string value and the values it is cut from (phi edges,
// slice bases), so that a test of len(original) is related to the digit string.
func stringFamily(v ssa.Value) (fam map[ssa.Value]bool, cutAfterSign bool) {
	fam = map[ssa.Value]bool{}
	var walk func(x ssa.Value, d int)
	walk = func(x ssa.Value, d int) {
		if x == nil || fam[x] || d > 6 {
			return
		}
		fam[x] = true
		if rx := resolve(x); rx != x {
			walk(rx, d+1)
		}
		switch y := x.(type) {
		case *ssa.Phi:
			for _, e := range y.Edges {
				walk(e, d+1)
			}
		case *ssa.Slice:
			if y.Low != nil {
				if k, ok := constInt(y.Low); ok && k == 1 {
					cutAfterSign = true
				}
			}
			walk(y.X, d+1)
		case *ssa.Convert:
			walk(y.X, d+1)
		}
	}
	walk(v, 0)
	return
}

func ruleHandParse(w *World, r *Report) {
	r.Rule("HANDPARSE", "a hand-written decimal parser (n = n*10 + digit over the characters of a string) refuses what strconv.ParseInt refuses: it has a cutoff comparison of the accumulator with a constant of the order of MaxInt64/10 or bounds the digit string to at most 18 characters (a bound of 19 or more, a sign test of the accumulator, a comparison with the previous value, or no test at all let a value wrap silently), and the path on which the digit loop runs zero times after a sign was cut off does not reach a success return untested")
	n := 0
	for _, f := range w.ModFuncs {
		if f.Synthetic != "" || f.Blocks == nil {
			continue
		}
		can := w.IsCanary(f)
		name := w.FuncName(f)
		for i, dl := range findDigitLoops(f) {
			if !can {
				n++
			}
			keyBase := fmt.Sprintf("HANDPARSE / %s / digit loop#%d", name, i+1)
			pos := w.Pos(dl.step.Pos())
			fam, cut := map[ssa.Value]bool{}, false
			if dl.str != nil {
				fam, cut = stringFamily(dl.str)
			}
			isLenOfFam := func(v ssa.Value) bool {
				c, ok := resolve(v).(*ssa.Call)
				if !ok || builtinName(c) != "len" || len(c.Call.Args) != 1 {
					return false
				}
				return fam[c.Call.Args[0]] || fam[resolve(c.Call.Args[0])]
			}
			isAcc := func(v ssa.Value) bool {
				v = stripConv(v)
				return v == ssa.Value(dl.acc) || v == ssa.Value(dl.step) || resolve(v) == ssa.Value(dl.step)
			}
			// ---- overflow
			safe, weak, bad := "", "", ""
			other := false
			for _, blk := range f.Blocks {
				_, _, ifi := ifSuccs(blk)
				if ifi == nil {
					continue
				}
				c, ok := ifi.Cond.(*ssa.BinOp)
				if !ok {
					continue
				}
				switch c.Op {
				case token.LSS, token.LEQ, token.GTR, token.GEQ, token.EQL, token.NEQ:
				default:
					continue
				}
				for _, side := range [][2]ssa.Value{{c.X, c.Y}, {c.Y, c.X}} {
					a, b := side[0], side[1]
					if isAcc(a) {
						if k, isK := constInt(b); isK {
							if k >= int64(1e17) || k <= -int64(1e17) {
								safe = "the accumulator is compared with the cutoff " + fmt.Sprint(k) + " at " + w.Pos(c.Pos())
							} else if k == 0 && (c.Op == token.LSS || c.Op == token.GEQ || c.Op == token.GTR || c.Op == token.LEQ) {
								weak = "the only overflow test is a sign test of the accumulator at " + w.Pos(c.Pos()) + ": n*10+d can wrap past 2^64 back into the non-negative range (18446744073709551617 reads as 1)"
							} else {
								other = true
							}
						} else if isAcc(b) {
							weak = "the only overflow test compares the accumulator with its previous value at " + w.Pos(c.Pos()) + ": after a wrap n*10+d can still be larger than n"
						} else if u, isU := constUint(b); isU && u >= uint64(1e17) {
							safe = "the accumulator is compared with a cutoff constant at " + w.Pos(c.Pos())
						} else {
							other = true
						}
					}
					if isLenOfFam(a) {
						if k, isK := constInt(b); isK {
							// the bound that lets the loop run: len > K fails, or len <= K passes
							switch {
							case k >= 2 && k <= 18:
								safe = fmt.Sprintf("the digit string is bounded to %d characters at %s", k, w.Pos(c.Pos()))
							case k >= 19:
								bad = fmt.Sprintf("the length bound %d at %s lets 19-digit values through: 9999999999999999999 does not fit int64 and wraps in n*10+d", k, w.Pos(c.Pos()))
							}
						}
					}
				}
			}
			// calls that take the accumulator (math/bits.Mul64, a helper): not followed
			if dl.acc.Referrers() != nil {
				for _, ref := range *dl.acc.Referrers() {
					if _, isCall := ref.(*ssa.Call); isCall {
						other = true
					}
				}
			}
			key := keyBase + " / overflow"
			switch {
			case safe != "" && bad == "":
				r.Add(Obligation{Rule: "HANDPARSE", Key: key, Pos: pos, Status: Discharged, Detail: safe, Canary: can})
			case bad != "" && safe == "":
				r.Add(Obligation{Rule: "HANDPARSE", Key: key, Pos: pos, Status: Violated, Detail: "hand-written decimal parser: " + bad, Canary: can})
			case weak != "" && safe == "" && !other:
				r.Add(Obligation{Rule: "HANDPARSE", Key: key, Pos: pos, Status: Violated, Detail: "hand-written decimal parser: " + weak, Canary: can})
			case safe == "" && !other && dl.str != nil:
				r.Add(Obligation{Rule: "HANDPARSE", Key: key, Pos: pos, Status: Violated, Detail: "hand-written decimal parser: neither the accumulator nor the length of the digit string is compared with anything: a value beyond 64 bits wraps silently in " + shortInstr(dl.step), Canary: can})
			default:
				r.Add(Obligation{Rule: "HANDPARSE", Key: key, Pos: pos, Status: Undecided, Detail: "the overflow protection of this digit loop was not recognised", Canary: can})
			}
			// ---- no digits after a sign
			if !cut || dl.str == nil {
				continue
			}
			key = keyBase + " / no digits"
			// the exits of the loop taken from its header (zero iterations)
			var exits []*ssa.BasicBlock
			for blk := range dl.loop.Blocks {
				if blk != dl.loop.Header {
					continue
				}
				for _, s := range blk.Succs {
					if !dl.loop.Blocks[s] {
						exits = append(exits, s)
					}
				}
			}
			// rotated loops: the guard in front of the body
			for _, p := range dl.loop.Header.Preds {
				if !dl.loop.Blocks[p] {
					for _, s := range p.Succs {
						if s != dl.loop.Header && len(p.Succs) == 2 {
							exits = append(exits, s)
						}
					}
				}
			}
			mentions := func(cond ssa.Value) bool {
				found := false
				var walk func(v ssa.Value, d int)
				walk = func(v ssa.Value, d int) {
					if found || d > 5 || v == nil {
						return
					}
					if fam[v] || fam[resolve(v)] {
						found = true
						return
					}
					switch y := v.(type) {
					case *ssa.BinOp:
						walk(y.X, d+1)
						walk(y.Y, d+1)
					case *ssa.UnOp:
						walk(y.X, d+1)
					case *ssa.Call:
						for _, a := range y.Call.Args {
							walk(a, d+1)
						}
					case *ssa.Convert:
						walk(y.X, d+1)
					case *ssa.Phi:
						// a position counter of the loop
						if y.Block() == dl.loop.Header && y != dl.acc {
							found = true
						}
					}
				}
				walk(cond, 0)
				return found
			}
			// is the (cut) string tested for emptiness on the way to the loop?
			testedBefore := false
			for _, blk := range f.Blocks {
				_, _, ifi := ifSuccs(blk)
				if ifi == nil || dl.loop.Blocks[blk] {
					continue
				}
				c, ok := ifi.Cond.(*ssa.BinOp)
				if !ok {
					continue
				}
				// only a test of the string AFTER the cut counts: its operand is the phi / slice itself
				for _, op := range []ssa.Value{c.X, c.Y} {
					var sv ssa.Value
					if lc, ok := resolve(op).(*ssa.Call); ok && builtinName(lc) == "len" {
						sv = lc.Call.Args[0]
					} else if isStringType(op.Type()) {
						sv = op
					}
					if sv == nil {
						continue
					}
					if sv == dl.str || resolve(sv) == resolve(dl.str) {
						if blk.Dominates(dl.loop.Header) {
							testedBefore = true
						}
					}
				}
			}
			if testedBefore {
				r.Add(Obligation{Rule: "HANDPARSE", Key: key, Pos: pos, Status: Discharged, Detail: "the digit string is tested after the sign was cut off", Canary: can})
				continue
			}
			reached := ""
			seen := map[*ssa.BasicBlock]bool{}
			var walkB func(b *ssa.BasicBlock)
			walkB = func(b *ssa.BasicBlock) {
				if seen[b] || reached != "" || dl.loop.Blocks[b] {
					return
				}
				seen[b] = true
				if ret, ok := b.Instrs[len(b.Instrs)-1].(*ssa.Return); ok {
					if len(ret.Results) > 0 {
						last := ret.Results[len(ret.Results)-1]
						if isNilConst(last) {
							reached = w.Pos(ret.Pos())
						}
						if k, ok := last.(*ssa.Const); ok && k.Value != nil && k.Value.String() == "true" {
							reached = w.Pos(ret.Pos())
						}
					}
					return
				}
				if _, _, ifi := ifSuccs(b); ifi != nil && mentions(ifi.Cond) {
					return
				}
				for _, s := range b.Succs {
					walkB(s)
				}
			}
			for _, e := range exits {
				walkB(e)
			}
			if reached != "" {
				r.Add(Obligation{Rule: "HANDPARSE", Key: key, Pos: pos, Status: Violated, Detail: "hand-written decimal parser: after the sign is cut off the digit string is not tested again; when the loop runs zero times (the field \"-\" or \"+\") the success return at " + reached + " is reached with the value 0", Canary: can})
			} else {
				r.Add(Obligation{Rule: "HANDPARSE", Key: key, Pos: pos, Status: Discharged, Detail: "the zero-iteration exit of the digit loop does not reach a success return untested", Canary: can})
			}
		}
	}
	if n == 0 {
		r.add("HANDPARSE", "module scan", "-", Discharged, "no hand-written decimal parser in the module: every integer field is read by strconv")
	}
}

func constUint(v ssa.Value) (uint64, bool) {
	c, ok := resolve(v).(*ssa.Const)
	if !ok || c.Value == nil {
		return 0, false
	}
	if b, ok := c.Type().Underlying().(*types.Basic); !ok || b.Info()&types.IsInteger == 0 {
		return 0, false
	}
	u := c.Uint64()
	if u > math.MaxInt64 {
		return u, true
	}
	return u, true
}

// SIGNED-FIELD: the vertical index of an ID can be negative.  Two constructions
// lose or refuse the sign and are positive evidence on their own:
//   - an ID string cut into runs of digits (strings.FieldsFunc with a predicate
//     built on unicode.IsDigit / IsNumber): "-5" becomes "5";
//   - every component of a split ID handed to strconv.ParseUint (directly in a
//     loop over the components): a negative vertical index is refused.
//
// slashPredicate: the rune predicate compares its argument with the ID delimiter '/'.
func slashPredicate(v ssa.Value) bool {
	var fn *ssa.Function
	switch x := resolve(v).(type) {
	case *ssa.Function:
		fn = x
	case *ssa.MakeClosure:
		fn, _ = x.Fn.(*ssa.Function)
	}
	if fn == nil || fn.Blocks == nil || len(fn.Params) != 1 {
		return false
	}
	hit := false
	instrs(fn, func(in ssa.Instruction) {
		b, ok := in.(*ssa.BinOp)
		if !ok || (b.Op != token.EQL && b.Op != token.NEQ) {
			return
		}
		for _, pr := range [][2]ssa.Value{{b.X, b.Y}, {b.Y, b.X}} {
			subj := stripConv(pr[0])
			if cv, ok := subj.(*ssa.Convert); ok {
				subj = stripConv(cv.X) // string(r)
			}
			if subj == ssa.Value(fn.Params[0]) {
				if k, ok := constInt(pr[1]); ok && k == '/' {
					hit = true
				}
				// string(r) == "/"
				if ks, ok := constString(pr[1]); ok && ks == "/" {
					hit = true
				}
			}
		}
	})
	return hit
}

func ruleSignedField(w *World, r *Report) {
	r.Rule("SIGNED-FIELD", "the components of an ID are cut at the delimiter and read as signed integers: no digit-run tokenizer (strings.FieldsFunc with a unicode.IsDigit predicate drops the minus sign of the vertical index), no strings.FieldsFunc at the delimiter itself (it drops empty components instead of refusing them) and no strconv.ParseUint over all components of a split ID (a negative vertical index is refused)")
	n := 0
	digitPredicate := func(v ssa.Value) bool {
		var fn *ssa.Function
		switch x := resolve(v).(type) {
		case *ssa.Function:
			fn = x
		case *ssa.MakeClosure:
			fn, _ = x.Fn.(*ssa.Function)
		}
		if fn == nil || fn.Blocks == nil {
			return false
		}
		hit := false
		instrs(fn, func(in ssa.Instruction) {
			if c, ok := in.(*ssa.Call); ok {
				if calleeIs(c, "unicode", "IsDigit") || calleeIs(c, "unicode", "IsNumber") {
					hit = true
				}
			}
		})
		return hit
	}
	// is v (a []string) the split of a string at the ID delimiter, or a parameter that
	// receives one at some call site of the module?
	var isSplit func(v ssa.Value, depth int) bool
	isSplit = func(v ssa.Value, depth int) bool {
		if depth > 3 {
			return false
		}
		v = resolve(v)
		switch x := v.(type) {
		case *ssa.Call:
			if calleeIs(x, "strings", "Split") || calleeIs(x, "strings", "SplitN") {
				if k, ok := resolve(x.Call.Args[1]).(*ssa.Const); ok && k.Value != nil && k.Value.ExactString() == "\"/\"" {
					return true
				}
			}
		case *ssa.Slice:
			return isSplit(x.X, depth+1)
		case *ssa.Parameter:
			f := x.Parent()
			pi := paramIndex(f, x)
			found := false
			for _, g := range w.ModFuncs {
				if g.Blocks == nil || found {
					continue
				}
				instrs(g, func(in ssa.Instruction) {
					c, ok := in.(*ssa.Call)
					if !ok || found || calleeOf(c) != f || pi < 0 || pi >= len(c.Call.Args) {
						return
					}
					if isSplit(c.Call.Args[pi], depth+1) {
						found = true
					}
				})
			}
			return found
		}
		return false
	}
	for _, f := range w.ModFuncs {
		if f.Synthetic != "" || f.Blocks == nil {
			continue
		}
		can := w.IsCanary(f)
		name := w.FuncName(f)
		ord := 0
		instrs(f, func(in ssa.Instruction) {
			c, ok := in.(*ssa.Call)
			if !ok {
				return
			}
			switch {
			case calleeIs(c, "strings", "FieldsFunc") && len(c.Call.Args) == 2:
				ord++
				if !can {
					n++
				}
				key := fmt.Sprintf("SIGNED-FIELD / %s / tokenizer#%d", name, ord)
				if digitPredicate(c.Call.Args[1]) {
					r.Add(Obligation{Rule: "SIGNED-FIELD", Key: key, Pos: w.Pos(c.Pos()), Status: Violated, Canary: can,
						Detail: "the string is cut into runs of digits (strings.FieldsFunc with a unicode.IsDigit predicate): the minus sign of a negative vertical index is treated as a separator and dropped (\"6/24/53/7/-5\" yields 5)"})
				} else if slashPredicate(c.Call.Args[1]) {
					// cutting at the delimiter with FieldsFunc drops empty fields: "1//3/4/5/6" has five
					// tokens and "1//3/4/5" four separators.  Only a count of the separators together
					// with a count of the tokens refuses both
					lenTaken, counted := false, false
					if c.Referrers() != nil {
						for _, ref := range *c.Referrers() {
							// len(tokens) compared with a constant (not the bound of a range loop)
							if lc, ok := ref.(*ssa.Call); ok && builtinName(lc) == "len" && lc.Referrers() != nil {
								for _, r2 := range *lc.Referrers() {
									if b, ok := r2.(*ssa.BinOp); ok {
										if _, isK := constInt(b.X); isK {
											lenTaken = true
										}
										if _, isK := constInt(b.Y); isK {
											lenTaken = true
										}
									}
								}
							}
						}
					}
					instrs(f, func(in2 ssa.Instruction) {
						if cc, ok := in2.(*ssa.Call); ok && calleeIs(cc, "strings", "Count") {
							counted = true
						}
					})
					if lenTaken && counted {
						r.Add(Obligation{Rule: "SIGNED-FIELD", Key: key, Pos: w.Pos(c.Pos()), Status: Undecided, Canary: can,
							Detail: "an ID is cut with strings.FieldsFunc (empty fields are dropped); the function counts both separators and tokens, whether that refuses every empty field was not decided"})
					} else {
						r.Add(Obligation{Rule: "SIGNED-FIELD", Key: key, Pos: w.Pos(c.Pos()), Status: Violated, Canary: can,
							Detail: "an ID is cut at the delimiter with strings.FieldsFunc, which drops empty fields: an ID with an empty component (\"1//3/4/5\", \"1/2/3/4/\") is read as if the component were not there instead of being refused"})
					}
				} else {
					r.Add(Obligation{Rule: "SIGNED-FIELD", Key: key, Pos: w.Pos(c.Pos()), Status: Undecided, Canary: can,
						Detail: "a string is tokenised with strings.FieldsFunc; the predicate was not read"})
				}
			case calleeIs(c, "strconv", "ParseUint") && len(c.Call.Args) == 3:
				// the argument: the element of a range / counted loop over a split ID
				arg := resolve(c.Call.Args[0])
				var list ssa.Value
				for _, sr := range findSliceRanges(f) {
					if sr.isElem(arg) {
						list = sr.X
					}
				}
				if list == nil {
					if ld, ok := loadOf(arg); ok {
						if ia, ok := ld.(*ssa.IndexAddr); ok {
							if _, isK := constInt(ia.Index); !isK {
								list = ia.X
							}
						}
					}
				}
				if list == nil || !isSplit(list, 0) {
					return
				}
				ord++
				if !can {
					n++
				}
				r.Add(Obligation{Rule: "SIGNED-FIELD", Key: fmt.Sprintf("SIGNED-FIELD / %s / unsigned parse#%d", name, ord), Pos: w.Pos(c.Pos()), Status: Violated, Canary: can,
					Detail: "every component of an ID split at \"/\" is handed to strconv.ParseUint: a negative vertical index (a voxel below ground) is refused although it is a valid component"})
			}
		})
	}
	if n == 0 {
		r.add("SIGNED-FIELD", "module scan", "-", Discharged, "no digit-run tokenizer and no unsigned parse over the components of an ID")
	}
}

// LENCAP: an ID string is never refused for its length alone.  Five int64
// fields separated by "/" can be 2+1+20+1+20+1+2+1+20 = 68 characters long with
// zooms in 0..35 (the vertical index is unbounded and may carry a minus sign),
// so a cap below that refuses well-formed IDs -- typically the ones with a
// negative vertical index of many digits, because the sign was not counted.
func ruleLenCap(w *World, r *Report) {
	r.Rule("LENCAP", "no function refuses an ID string because it is longer than a constant below 68 characters (the length of a well-formed extended ID with zooms in 0..35 and 64-bit indexes, minus sign included): the vertical index is unbounded")
	n := 0
	e := scFor(w)
	for _, f := range w.ModFuncs {
		if f.Synthetic != "" || f.Blocks == nil {
			continue
		}
		can := w.IsCanary(f)
		name := w.FuncName(f)
		ord := 0
		for _, blk := range f.Blocks {
			t, fl, ifi := ifSuccs(blk)
			if ifi == nil {
				continue
			}
			c, ok := ifi.Cond.(*ssa.BinOp)
			if !ok {
				continue
			}
			// len(p) > K / len(p) >= K (failing on true), K < len(p) ...
			var lenSide, kSide ssa.Value
			op := c.Op
			if isLenOfStringParam(f, c.X) {
				lenSide, kSide = c.X, c.Y
			} else if isLenOfStringParam(f, c.Y) {
				lenSide, kSide = c.Y, c.X
				op = flipOp(op)
			}
			if lenSide == nil {
				continue
			}
			k, isK := constInt(kSide)
			if !isK {
				continue
			}
			var longSide *ssa.BasicBlock // the side taken by strings longer than the bound
			switch op {
			case token.GTR, token.GEQ:
				longSide = t
			case token.LSS, token.LEQ:
				longSide = fl
			default:
				continue
			}
			if op == token.GEQ || op == token.LSS {
				k-- // len >= K refuses from K on: the longest accepted length is K-1
			}
			if k < 9 || k >= 68 {
				continue
			}
			// the long side leads to failure only
			reach := simulateFrom(longSide, blk, nil, noOracle)
			any, all := false, true
			for _, ret := range returnsOf(f) {
				if reach[ret.Block()] {
					any = true
					if !e.isFailureReturn(f, ret) {
						all = false
					}
				}
			}
			if !any || !all {
				continue
			}
			ord++
			if !can {
				n++
			}
			r.Add(Obligation{Rule: "LENCAP", Key: fmt.Sprintf("LENCAP / %s / cap#%d", name, ord), Pos: w.Pos(c.Pos()), Status: Violated, Canary: can,
				Detail: fmt.Sprintf("a string longer than %d characters is refused (%s); a well-formed extended ID can be up to 68 characters long (e.g. a negative vertical index of many digits), so valid IDs are rejected", k, shortInstr(c))})
		}
	}
	if n == 0 {
		r.add("LENCAP", "module scan", "-", Discharged, "no function refuses a string parameter for its length alone")
	}
}

func isLenOfStringParam(f *ssa.Function, v ssa.Value) bool {
	c, ok := resolve(v).(*ssa.Call)
	if !ok || builtinName(c) != "len" || len(c.Call.Args) != 1 {
		return false
	}
	p, ok := resolve(c.Call.Args[0]).(*ssa.Parameter)
	return ok && p.Parent() == f && isStringType(p.Type())
}

// INDEX-SIGN: a table indexed by a signed parameter behind an upper-bound test
// only: a negative value passes the test and the index expression panics.
func ruleIndexSign(w *World, r *Report) {
	r.Rule("INDEX-SIGN", "a table indexed by a signed parameter (an option or enum value) is guarded on both sides: an upper-bound test alone lets every negative value through to the index expression, which panics")
	n := 0
	for _, f := range w.ModFuncs {
		if f.Synthetic != "" || f.Blocks == nil {
			continue
		}
		can := w.IsCanary(f)
		name := w.FuncName(f)
		ord := 0
		fromParam := func(v ssa.Value) *ssa.Parameter {
			for i := 0; i < 4; i++ {
				switch x := v.(type) {
				case *ssa.Convert:
					// a conversion to an unsigned type makes negatives huge: the upper test covers them
					if bt, ok := x.Type().Underlying().(*types.Basic); ok && bt.Info()&types.IsUnsigned != 0 {
						return nil
					}
					v = x.X
					continue
				case *ssa.ChangeType:
					v = x.X
					continue
				case *ssa.Parameter:
					if isSignedInt(x.Type()) {
						return x
					}
				}
				break
			}
			return nil
		}
		instrs(f, func(in ssa.Instruction) {
			var idx ssa.Value
			var at *ssa.BasicBlock
			switch x := in.(type) {
			case *ssa.IndexAddr:
				idx, at = x.Index, x.Block()
			case *ssa.Index:
				idx, at = x.Index, x.Block()
			default:
				return
			}
			if _, isK := constInt(idx); isK {
				return
			}
			p := fromParam(idx)
			if p == nil {
				return
			}
			upper, lower := "", false
			for _, blk := range f.Blocks {
				t, fl, ifi := ifSuccs(blk)
				if ifi == nil {
					continue
				}
				c, ok := ifi.Cond.(*ssa.BinOp)
				if !ok {
					continue
				}
				var other ssa.Value
				op := c.Op
				unsignedCmp := false
				side := func(v ssa.Value) bool {
					if cv, ok := v.(*ssa.Convert); ok {
						if bt, ok := cv.Type().Underlying().(*types.Basic); ok && bt.Info()&types.IsUnsigned != 0 {
							if q := fromParamLoose(cv.X); q == p {
								unsignedCmp = true
								return true
							}
						}
					}
					return fromParam(v) == p
				}
				if side(c.X) {
					other = c.Y
				} else if side(c.Y) {
					other = c.X
					op = flipOp(op)
				} else {
					continue
				}
				if unsignedCmp {
					lower = true
				}
				k, isK := constInt(other)
				switch op {
				case token.LSS, token.LEQ, token.GTR, token.GEQ:
					if isK && k <= 0 {
						lower = true
					} else if at != nil && (blk.Dominates(at)) && (t == at || fl == at || blockDominatedByEdge(f, blk, t, at) || blockDominatedByEdge(f, blk, fl, at)) {
						upper = w.Pos(c.Pos())
					}
				case token.EQL, token.NEQ:
					// membership by equality chain: each admitted value is named
					lower = true
				}
			}
			if upper == "" {
				return
			}
			ord++
			if !can {
				n++
			}
			key := fmt.Sprintf("INDEX-SIGN / %s / index#%d", name, ord)
			if lower {
				r.Add(Obligation{Rule: "INDEX-SIGN", Key: key, Pos: w.Pos(in.Pos()), Status: Discharged, Canary: can, Detail: "the index " + p.Name() + " is bounded on both sides"})
			} else if f.Parent() != nil && !can {
				// a function literal: what it is called with is decided where it is invoked
				r.Add(Obligation{Rule: "INDEX-SIGN", Key: key, Pos: w.Pos(in.Pos()), Status: Undecided, Canary: can, Detail: "the index " + p.Name() + " is the parameter of a function literal and is tested from above only; the values it is invoked with were not resolved"})
			} else if st, why := callersBoundBelow(w, f, paramIndex(f, p)); !can && f.Object() != nil && !f.Object().Exported() && st != Violated {
				// a private helper: the lower bound may be the callers' business
				r.Add(Obligation{Rule: "INDEX-SIGN", Key: key, Pos: w.Pos(in.Pos()), Status: st, Canary: can, Detail: "the index " + p.Name() + " of a private helper is tested from above only; " + why})
			} else {
				r.Add(Obligation{Rule: "INDEX-SIGN", Key: key, Pos: w.Pos(in.Pos()), Status: Violated, Canary: can,
					Detail: "the table is indexed by the signed parameter " + p.Name() + " behind the upper-bound test at " + upper + " only: every negative value passes the test and the index expression panics (" + shortInstr(in) + ")"})
			}
		})
	}
	if n == 0 {
		r.add("INDEX-SIGN", "module scan", "-", Discharged, "no table is indexed by a signed parameter behind a one-sided bound test")
	}
}

// callersBoundBelow: do the call sites of the private function f keep its parameter pi
// non-negative?  Discharged: every site passes a non-negative constant or sits behind a test of
// the argument against a constant <= 0; Violated: a site passes a signed parameter of an
// exported function that is compared with nothing there; Undecided otherwise.
func callersBoundBelow(w *World, f *ssa.Function, pi int) (Status, string) {
	if pi < 0 {
		return Undecided, "the parameter was not found"
	}
	sites, good := 0, 0
	bad := ""
	for _, g := range w.ModFuncs {
		if g.Blocks == nil {
			continue
		}
		instrs(g, func(in ssa.Instruction) {
			ci, ok := in.(ssa.CallInstruction)
			if !ok || ci.Common().StaticCallee() != f || pi >= len(ci.Common().Args) {
				return
			}
			sites++
			a := stripConv(ci.Common().Args[pi])
			if k, ok := constInt(a); ok {
				if k >= 0 {
					good++
				} else {
					bad = "the call at " + w.Pos(in.Pos()) + " passes " + fmt.Sprint(k)
				}
				return
			}
			// the argument, or the value it is the negation of
			subj := []ssa.Value{a}
			if u, ok := a.(*ssa.UnOp); ok && u.Op == token.SUB {
				subj = append(subj, stripConv(u.X))
			}
			compared := false
			for _, blk := range g.Blocks {
				_, _, ifi := ifSuccs(blk)
				if ifi == nil {
					continue
				}
				c, ok := ifi.Cond.(*ssa.BinOp)
				if !ok {
					continue
				}
				switch c.Op {
				case token.LSS, token.LEQ, token.GTR, token.GEQ:
				default:
					continue
				}
				for _, sv := range subj {
					var other ssa.Value
					if stripConv(c.X) == sv {
						other = c.Y
					} else if stripConv(c.Y) == sv {
						other = c.X
					} else {
						continue
					}
					if k, ok := constInt(other); ok && k <= 1 && k >= -1 && blk.Dominates(in.Block()) {
						compared = true
					}
				}
			}
			if compared {
				good++
				return
			}
			if q, ok := a.(*ssa.Parameter); ok && g.Object() != nil && g.Object().Exported() && g.Parent() == nil {
				anyCmp := false
				for _, ref := range *q.Referrers() {
					if b, ok := ref.(*ssa.BinOp); ok {
						switch b.Op {
						case token.LSS, token.LEQ, token.GTR, token.GEQ, token.EQL, token.NEQ:
							anyCmp = true
						}
					}
				}
				if !anyCmp {
					bad = "the exported " + w.FuncName(g) + " hands its parameter " + q.Name() + " on at " + w.Pos(in.Pos()) + " without comparing it with anything"
				}
			}
		})
	}
	switch {
	case bad != "":
		return Violated, bad
	case sites > 0 && good == sites:
		return Discharged, fmt.Sprintf("all %d call site(s) pass a value tested against zero or a non-negative constant", sites)
	default:
		return Undecided, fmt.Sprintf("%d of %d call site(s) could be seen to keep it non-negative", good, sites)
	}
}

func fromParamLoose(v ssa.Value) *ssa.Parameter {
	for i := 0; i < 4; i++ {
		switch x := v.(type) {
		case *ssa.Convert:
			v = x.X
			continue
		case *ssa.ChangeType:
			v = x.X
			continue
		case *ssa.Parameter:
			return x
		}
		break
	}
	return nil
}
