package main

import (
	"encoding/json"
	"fmt"
	"os"
	"path/filepath"
	"sort"
	"strings"
	"time"
)

type Status string

const (
	Discharged Status = "discharged"
	Violated   Status = "violated"
	Undecided  Status = "undecided"
	Unresolved Status = "unresolved"
	Info       Status = "info"
)

// An Obligation is one instance of a rule at one construct.  Key is stable
// under code motion: rule / function or object / role -- never a line number.
type Obligation struct {
	Rule   string `json:"rule"`
	Key    string `json:"key"`
	Pos    string `json:"pos"`
	Status Status `json:"status"`
	Detail string `json:"detail"`
	Canary bool   `json:"-"`
}

type Report struct {
	Property string
	Tier     string
	Obls     []Obligation
	Notes    []string          // free-form lines for the report
	Analysed map[string]int    // what was analysed (functions, instructions, ...)
	Rules    map[string]string // rule name -> statement
	Assume   []string
	Thorough map[string]any // extra coverage recorded by the thorough tier
	start    time.Time
}

var processStart = time.Now()

func NewReport(prop, tier string) *Report {
	// wall time includes loading, type-checking and SSA construction of /repo
	return &Report{Property: prop, Tier: tier, Analysed: map[string]int{}, Rules: map[string]string{}, start: processStart}
}

func (r *Report) Add(o Obligation) { r.Obls = append(r.Obls, o) }

func (r *Report) add(rule, key, pos string, st Status, detail string) {
	r.Obls = append(r.Obls, Obligation{Rule: rule, Key: rule + " / " + key, Pos: pos, Status: st, Detail: detail})
}

func (r *Report) Rule(name, statement string) { r.Rules[name] = statement }

type KnownFinding struct {
	Property string `json:"property"`
	Rule     string `json:"rule"`
	Key      string `json:"key"`
	What     string `json:"what"`
}

type KnownFile struct {
	Findings []KnownFinding `json:"findings"`
	Fixed    []string       `json:"fixed"`
}

func loadKnown(path string) (*KnownFile, error) {
	b, err := os.ReadFile(path)
	if err != nil {
		if os.IsNotExist(err) {
			return &KnownFile{}, nil
		}
		return nil, err
	}
	var k KnownFile
	if err := json.Unmarshal(b, &k); err != nil {
		return nil, err
	}
	return &k, nil
}

type floorsFile map[string]map[string]int // property -> rule -> minimum number of non-canary obligations

// Finish evaluates canaries, floors and known findings, writes report and
// evidence and returns the exit code.
func (r *Report) Finish(verif string, level string, floors floorsFile, known *KnownFile, canaryExpect []CanaryExpect, canarySkipped string, explanation string, trusted []string) int {
	// ---- canaries
	canaryFail := []string{}
	if canarySkipped == "" {
		for _, ce := range canaryExpect {
			got := false
			clean := true
			for _, o := range r.Obls {
				if !o.Canary || o.Rule != ce.Rule {
					continue
				}
				if strings.Contains(o.Key, ce.Bad) && (o.Status == Violated || o.Status == Undecided) {
					got = true
				}
				if ce.Good != "" && strings.Contains(o.Key, ce.Good) && (o.Status == Violated || o.Status == Undecided) {
					clean = false
				}
			}
			if !got {
				canaryFail = append(canaryFail, fmt.Sprintf("rule %s did not flag canary %s", ce.Rule, ce.Bad))
			}
			if !clean {
				canaryFail = append(canaryFail, fmt.Sprintf("rule %s flagged conforming canary %s", ce.Rule, ce.Good))
			}
		}
	}
	// ---- real obligations
	var real []Obligation
	for _, o := range r.Obls {
		if !o.Canary {
			real = append(real, o)
		}
	}
	sort.SliceStable(real, func(i, j int) bool {
		if real[i].Rule != real[j].Rule {
			return real[i].Rule < real[j].Rule
		}
		return real[i].Key < real[j].Key
	})
	perRule := map[string]map[Status]int{}
	for _, o := range real {
		if perRule[o.Rule] == nil {
			perRule[o.Rule] = map[Status]int{}
		}
		perRule[o.Rule][o.Status]++
	}
	// floors (vacuity)
	floorFail := []string{}
	if fl, ok := floors[r.Property]; ok {
		for _, rule := range sortedKeys(fl) {
			n := 0
			for st, c := range perRule[rule] {
				if st != Info {
					n += c
				}
			}
			if n < fl[rule] {
				floorFail = append(floorFail, fmt.Sprintf("rule %s examined %d instance(s), fewer than the %d confirmed by hand: the anchored constructs are no longer recognised", rule, n, fl[rule]))
			}
		}
	}
	// violations vs known findings
	// Only positive evidence of a bad construct (Violated) raises an alarm.
	// An obligation the analysis could not decide on this tree (the anchored
	// construct is no longer recognised after a restructuring, or a helper was
	// renamed) is reported as UNDECIDED and counted in the evidence, but it is
	// not a violation: the property may well hold, and a check must not raise
	// an alarm on code where it does.
	var viol, knownHit, open []Obligation
	matched := map[int]bool{}
	for _, o := range real {
		if o.Status == Discharged || o.Status == Info {
			continue
		}
		if o.Status == Undecided || o.Status == Unresolved {
			open = append(open, o)
			continue
		}
		isKnown := false
		for i, k := range known.Findings {
			if k.Property == r.Property && k.Rule == o.Rule && k.Key == o.Key {
				isKnown = true
				matched[i] = true
			}
		}
		if isKnown {
			knownHit = append(knownHit, o)
		} else {
			viol = append(viol, o)
		}
	}
	nViol := len(viol)

	// ---- report file
	os.MkdirAll(filepath.Join(verif, "reports"), 0o755)
	repPath := filepath.Join(verif, "reports", r.Property+".txt")
	var sb strings.Builder
	fmt.Fprintf(&sb, "sidcheck report  property=%s tier=%s\n", r.Property, r.Tier)
	for _, k := range sortedKeys(r.Analysed) {
		fmt.Fprintf(&sb, "analysed %s=%d\n", k, r.Analysed[k])
	}
	for _, n := range r.Notes {
		fmt.Fprintf(&sb, "note: %s\n", n)
	}
	if canarySkipped != "" {
		fmt.Fprintf(&sb, "canaries: SKIPPED (did not type-check on this tree): %s\n", canarySkipped)
	}
	for _, c := range canaryFail {
		fmt.Fprintf(&sb, "CANARY-FAILURE: %s\n", c)
	}
	for _, f := range floorFail {
		fmt.Fprintf(&sb, "COVERAGE: %s\n", f)
	}
	for _, o := range open {
		fmt.Fprintf(&sb, "%s: [%s] %s\n    key: %s\n    %s\n", strings.ToUpper(string(o.Status)), o.Rule, o.Pos, o.Key, o.Detail)
	}
	for _, o := range viol {
		fmt.Fprintf(&sb, "%s: [%s] %s\n    key: %s\n    %s\n", strings.ToUpper(string(o.Status)), o.Rule, o.Pos, o.Key, o.Detail)
	}
	for _, o := range knownHit {
		fmt.Fprintf(&sb, "KNOWN-FINDING: [%s] %s\n    key: %s\n    %s\n", o.Rule, o.Pos, o.Key, o.Detail)
	}
	fmt.Fprintf(&sb, "---- all obligations (%d)\n", len(real))
	for _, o := range real {
		fmt.Fprintf(&sb, "%-10s [%s] %s  %s\n           %s\n", o.Status, o.Rule, o.Pos, o.Key, o.Detail)
	}
	os.WriteFile(repPath, []byte(sb.String()), 0o644)

	// ---- stdout
	fmt.Printf("sidcheck %s (%s): %d obligations", r.Property, r.Tier, len(real))
	for _, rule := range sortedKeys(perRule) {
		m := perRule[rule]
		fmt.Printf("; %s %d/%d", rule, m[Discharged], m[Discharged]+m[Violated]+m[Undecided]+m[Unresolved])
	}
	fmt.Println()
	for _, k := range sortedKeys(r.Analysed) {
		fmt.Printf("  analysed %s=%d\n", k, r.Analysed[k])
	}
	for _, f := range floorFail {
		fmt.Printf("  COVERAGE: %s\n", f)
	}
	for _, o := range open {
		fmt.Printf("  %s [%s] %s: %s -- %s\n", strings.ToUpper(string(o.Status)), o.Rule, o.Pos, o.Key, o.Detail)
	}
	for _, o := range viol {
		fmt.Printf("  %s [%s] %s: %s -- %s\n", strings.ToUpper(string(o.Status)), o.Rule, o.Pos, o.Key, o.Detail)
	}
	for i, k := range known.Findings {
		if k.Property == r.Property && matched[i] {
			fmt.Printf("KNOWN-FINDING: property=%s %s\n", r.Property, k.What)
		}
	}

	// ---- evidence
	samples := []map[string]string{}
	seenRule := map[string]int{}
	for _, o := range real {
		if seenRule[o.Rule] >= 3 {
			continue
		}
		seenRule[o.Rule]++
		samples = append(samples, map[string]string{"rule": o.Rule, "key": o.Key, "pos": o.Pos, "status": string(o.Status), "detail": o.Detail})
	}
	distinct := map[string]bool{}
	nOb, nDis := 0, 0
	for _, o := range real {
		if o.Status == Info {
			continue
		}
		nOb++
		if o.Status == Discharged {
			nDis++
		}
		distinct[o.Key] = true
	}
	ruleStats := map[string]map[string]int{}
	for rule, m := range perRule {
		ruleStats[rule] = map[string]int{}
		for st, c := range m {
			ruleStats[rule][string(st)] = c
		}
	}
	var ruleText []string
	for _, k := range sortedKeys(r.Rules) {
		ruleText = append(ruleText, k+": "+r.Rules[k])
	}
	cov := map[string]any{
		"explanation":            explanation + "  Rules applied: " + strings.Join(ruleText, " | "),
		"evaluations":            nOb,
		"distinct_nontrivial":    len(distinct),
		"rule":                   "one case = one obligation (rule instance at one construct of /repo's current source, keyed rule/function/role); distinct = distinct obligation keys; non-trivial = the anchored construct was found and examined (info lines are not counted)",
		"samples":                samples,
		"obligations":            nOb,
		"discharged":             nDis,
		"checker_cmd":            fmt.Sprintf("/verif/bin/sidcheck -property %s -tier %s", r.Property, r.Tier),
		"trusted_base":           trusted,
		"per_rule":               ruleStats,
		"analysed":               r.Analysed,
		"known_findings_matched": len(knownHit),
		"undecided":              len(open),
		"coverage_warnings":      floorFail,
		"canaries":               map[string]any{"expected": len(canaryExpect), "failed": len(canaryFail), "skipped": canarySkipped != ""},
		"exhaustive":             true,
	}
	if r.Thorough != nil {
		cov["thorough"] = r.Thorough
	}
	assume := append([]string{
		"the analysed build is linux/amd64 with -tags=verif; go/types and go/ssa model the program faithfully",
		"the frozen role, accessor and guard tables transcribe the documentation correctly",
	}, r.Assume...)
	ev := map[string]any{
		"property_id": r.Property,
		"tier":        r.Tier,
		"seed":        0,
		"level":       level,
		"coverage":    cov,
		"assumptions": assume,
		"wall_s":      time.Since(r.start).Seconds(),
		"violations":  nViol,
	}
	os.MkdirAll(filepath.Join(verif, "evidence"), 0o755)
	b, _ := json.MarshalIndent(ev, "", " ")
	os.WriteFile(filepath.Join(verif, "evidence", r.Property+".json"), append(b, '\n'), 0o644)

	if len(canaryFail) > 0 {
		for _, c := range canaryFail {
			fmt.Printf("  CANARY-FAILURE: %s\n", c)
		}
		// a self-test of the checker, not evidence about the tree: reported, counted in the
		// evidence (coverage.canaries.failed), never an alarm
		fmt.Println("  COVERAGE: a rule of this check no longer behaves as specified on its canaries on this tree (see CANARY-FAILURE lines); its verdicts are weaker than stated")
	}
	if nViol > 0 {
		fmt.Printf("VIOLATION property=%s replay=%s\n", r.Property, repPath)
		return 1
	}
	if len(open) > 0 || len(floorFail) > 0 || len(canaryFail) > 0 {
		fmt.Printf("OK property=%s: %d of %d obligations discharged, none violated; %d undecided and %d coverage warning(s) on this tree are listed above and in the evidence (%d known finding(s))\n", r.Property, nDis, nOb, len(open), len(floorFail), len(knownHit))
		return 0
	}
	fmt.Printf("OK property=%s: all %d obligations discharged (%d known finding(s))\n", r.Property, nOb, len(knownHit))
	return 0
}

type CanaryExpect struct {
	Rule string
	Bad  string // substring of obligation key that must be flagged
	Good string // substring of obligation key that must stay clean ("" = none)
}
