package main

// RADIX: a single counter that enumerates a product space (i in [0, a*b*c)) is
// decoded into its digits with / and %.  The decoding is positional: every
// divisor is the product of the radices of the lower positions.  Structural
// form: the divisors (and divisor*modulus products) that occur are prefixes of
// ONE ordering of the radices, i.e. they are totally ordered by inclusion as
// multisets of factors.  `i/h % h` next to `i % v` (the stride of the middle
// digit must be v) has the incomparable prefixes {h} and {v}: some tuples are
// produced twice and others never.

import (
	"fmt"
	"go/token"
	"sort"
	"strings"

	"golang.org/x/tools/go/ssa"
)

type factorSet map[string]int

func (a factorSet) String() string {
	var ks []string
	for k, n := range a {
		for i := 0; i < n; i++ {
			ks = append(ks, k)
		}
	}
	sort.Strings(ks)
	if len(ks) == 0 {
		return "1"
	}
	return strings.Join(ks, "*")
}

func (a factorSet) size() int {
	n := 0
	for _, c := range a {
		n += c
	}
	return n
}

func (a factorSet) subsetOf(b factorSet) bool {
	for k, n := range a {
		if b[k] < n {
			return false
		}
	}
	return true
}

func (a factorSet) plus(b factorSet) factorSet {
	out := factorSet{}
	for k, n := range a {
		out[k] += n
	}
	for k, n := range b {
		out[k] += n
	}
	return out
}

// factorsOf: the multiset of multiplicative factors of v; names carries a
// readable name per factor key.
func factorsOf(v ssa.Value, names map[string]string, depth int) factorSet {
	v = resolve(v)
	if k, ok := constInt(v); ok {
		if k == 1 {
			return factorSet{}
		}
		key := fmt.Sprintf("#%d", k)
		names[key] = fmt.Sprint(k)
		return factorSet{key: 1}
	}
	if b, ok := v.(*ssa.BinOp); ok && b.Op == token.MUL && depth < 6 {
		return factorsOf(b.X, names, depth+1).plus(factorsOf(b.Y, names, depth+1))
	}
	// go/ssa does not share common subexpressions: hLayers*2+1 written twice is two values
	key := exprKey(v, 0)
	nm := v.Name()
	if dv := describeValue(v); len(dv) < 40 && dv != nm {
		nm = "(" + dv + ")"
	}
	names[key] = nm
	return factorSet{key: 1}
}

func ruleRadix(w *World, r *Report, in map[*ssa.Function]bool) {
	r.Rule("RADIX", "a loop counter that runs over a product a*b*c and is decoded with / and % is decoded positionally: the divisors (and divisor*modulus products) are prefixes of one ordering of the radices, i.e. totally ordered by inclusion as multisets of factors, and all of them divide the loop bound; a digit read with the stride of another position repeats some tuples and never produces others")
	n := 0
	for _, f := range w.ModFuncs {
		if f.Synthetic != "" || f.Blocks == nil {
			continue
		}
		can := w.IsCanary(f)
		if !can && (in == nil || !in[f]) {
			continue
		}
		name := w.FuncName(f)
		ord := 0
		for _, b := range f.Blocks {
			for _, in2 := range b.Instrs {
				phi, ok := in2.(*ssa.Phi)
				if !ok {
					break
				}
				if !isIntType(phi.Type()) || len(phi.Edges) != 2 {
					continue
				}
				// unit counter from 0
				var inc *ssa.BinOp
				zero := false
				for _, e := range phi.Edges {
					if k, isK := constInt(e); isK && k == 0 {
						zero = true
						continue
					}
					if x, ok := resolve(e).(*ssa.BinOp); ok && x.Op == token.ADD && stripConv(x.X) == ssa.Value(phi) {
						if k, isK := constInt(x.Y); isK && k == 1 {
							inc = x
						}
					}
				}
				if !zero || inc == nil {
					continue
				}
				// the bound: phi < N (header test) or phi+1 < N (rotated latch)
				var bound ssa.Value
				for _, blk := range f.Blocks {
					_, _, ifi := ifSuccs(blk)
					if ifi == nil {
						continue
					}
					c, ok := ifi.Cond.(*ssa.BinOp)
					if !ok || (c.Op != token.LSS && c.Op != token.LEQ) {
						continue
					}
					if x := stripConv(c.X); x == ssa.Value(phi) || x == ssa.Value(inc) {
						bound = c.Y
						if c.Op == token.LEQ {
							// i <= N-1
							bound = nil
							if sub, isSub := resolve(c.Y).(*ssa.BinOp); isSub && sub.Op == token.SUB {
								if k, isK := constInt(sub.Y); isK && k == 1 {
									bound = sub.X
								}
							}
						}
					}
				}
				if bound == nil {
					continue
				}
				names := map[string]string{}
				total := factorsOf(bound, names, 0)
				if total.size() < 2 {
					continue
				}
				// prefixes met while walking the / and % uses of the counter
				type pref struct {
					fs  factorSet
					pos token.Pos
					how string
				}
				var prefs []pref
				seen := map[ssa.Value]bool{}
				var explore func(v ssa.Value, d factorSet, depth int)
				explore = func(v ssa.Value, d factorSet, depth int) {
					if seen[v] || depth > 6 || v.Referrers() == nil {
						return
					}
					seen[v] = true
					for _, ref := range *v.Referrers() {
						switch x := ref.(type) {
						case *ssa.Convert:
							explore(x, d, depth+1)
						case *ssa.ChangeType:
							explore(x, d, depth+1)
						case *ssa.BinOp:
							if stripConv(x.X) != v && x.X != v {
								continue
							}
							switch x.Op {
							case token.QUO:
								nd := d.plus(factorsOf(x.Y, names, 0))
								prefs = append(prefs, pref{nd, x.Pos(), "divisor " + nd.String()})
								explore(x, nd, depth+1)
							case token.REM:
								prefs = append(prefs, pref{d, x.Pos(), "stride " + d.String()})
								nd := d.plus(factorsOf(x.Y, names, 0))
								prefs = append(prefs, pref{nd, x.Pos(), "stride*modulus " + nd.String()})
								explore(x, d, depth+1)
							}
						}
					}
				}
				explore(phi, factorSet{}, 0)
				nontrivial := 0
				for _, p := range prefs {
					if p.fs.size() > 0 {
						nontrivial++
					}
				}
				if nontrivial < 2 {
					continue
				}
				// every prefix is made of radices of the bound, otherwise this is not (recognisably)
				// a decoding of that product: no verdict
				inBound := true
				over := ""
				for _, p := range prefs {
					if !p.fs.subsetOf(total) {
						// made of the radices of the bound, but with one of them more often than the
						// bound has it: a digit read with the radix of another position
						same := true
						for k := range p.fs {
							if total[k] == 0 {
								same = false
							}
						}
						if same {
							if over == "" {
								over = p.fs.String() + "@" + w.Pos(p.pos)
							}
						} else {
							inBound = false
						}
					}
				}
				if !inBound {
					continue
				}
				ord++
				if !can {
					n++
				}
				key := fmt.Sprintf("RADIX / %s / counter#%d", name, ord)
				pretty := func(fs factorSet) string {
					s := fs.String()
					for k, nm := range names {
						s = strings.ReplaceAll(s, k, nm)
					}
					return s
				}
				bad := ""
				for i := range prefs {
					for j := i + 1; j < len(prefs); j++ {
						a, b := prefs[i].fs, prefs[j].fs
						if !a.subsetOf(b) && !b.subsetOf(a) && bad == "" {
							bad = fmt.Sprintf("%s (%s) and %s (%s) cannot both be strides of one positional decoding of %s", pretty(a), w.Pos(prefs[i].pos), pretty(b), w.Pos(prefs[j].pos), pretty(total))
						}
					}
				}
				if bad == "" && over != "" {
					parts := strings.SplitN(over, "@", 2)
					fs := parts[0]
					for k, nm := range names {
						fs = strings.ReplaceAll(fs, k, nm)
					}
					bad = fmt.Sprintf("the stride*modulus product %s (%s) does not divide the range %s of the counter", fs, parts[1], pretty(total))
				}
				if bad != "" {
					r.Add(Obligation{Rule: "RADIX", Key: key, Pos: w.Pos(phi.Pos()), Status: Violated, Canary: can,
						Detail: "the counter " + phi.Comment + " runs over " + pretty(total) + " and is decoded with / and %, but " + bad + ": some digit tuples are produced more than once and others never"})
				} else {
					r.Add(Obligation{Rule: "RADIX", Key: key, Pos: w.Pos(phi.Pos()), Status: Discharged, Canary: can,
						Detail: fmt.Sprintf("%d strides, totally ordered by inclusion, all within %s", len(prefs), pretty(total))})
				}
			}
		}
	}
	_ = n
}

// exprKey: a structural key of a side-effect-free integer expression (operands
// that are not arithmetic are identified by the value itself).
func exprKey(v ssa.Value, depth int) string {
	v = resolve(v)
	if k, ok := constInt(v); ok {
		return fmt.Sprintf("#%d", k)
	}
	if depth < 5 {
		switch x := v.(type) {
		case *ssa.BinOp:
			switch x.Op {
			case token.ADD, token.SUB, token.MUL, token.QUO, token.REM, token.SHL, token.SHR:
				return "(" + exprKey(x.X, depth+1) + x.Op.String() + exprKey(x.Y, depth+1) + ")"
			}
		case *ssa.Call:
			if builtinName(x) == "len" && len(x.Call.Args) == 1 {
				return fmt.Sprintf("len(%p)", resolve(x.Call.Args[0]))
			}
		case *ssa.Parameter:
			return "param:" + x.Name()
		}
	}
	return fmt.Sprintf("%p", v)
}
