package main

import (
	"golang.org/x/tools/go/ssa"
)

const otherNote = "Level 'other': the listed structural clauses are genuine necessary conditions of the property and are decided for all inputs from the type-checked source and SSA form of /repo's working tree; the remaining value-level behaviour (see DESIGN.md section 4, 'Not decided') is not decided. "

func kindRuleTexts(r *Report) {
	r.Rule("ROUND", "every instruction that reduces the resolution of a signed vertical quantity (kind F, TZ or ALT by component-kind inference) rounds toward minus infinity: math.Floor before a float-to-integer conversion, an arithmetic >> on a signed integer, common.CalculateArithmeticShift, or the division-with-remainder-correction idiom; Go integer division, bare float-to-integer conversion, math.Trunc/Round/Ceil are known-bad")
	r.Rule("FLOOR-NOBIAS", "the operand of a math.Floor that feeds a grid index is not an expression plus/minus a non-zero constant (a biased floor moves points across cell boundaries)")
	r.Rule("KIND-CALL", "at every call of a function with a role table entry, an argument whose component kind is inferred must have the kind of its parameter (hZoom vs vZoom, x vs y vs f, maxHeight vs minHeight, ...); ID strings must have the layout the callee documents")
	r.Rule("KIND-LAYOUT", "every ID string a function returns has, field by field, the canonical layout hZoom/x/y/vZoom/f (extended) or z/f/x/y (spatial), each field carrying the kind of its own axis")
	r.Rule("REM-SIGN", "a horizontal index moved by a possibly negative amount (negated bound, negative constant, signed shift parameter, index minus a positive constant) is not reduced with Go's % alone: the remainder keeps the sign of the dividend; accepted corrections: a sign test of the remainder, (r + n) % n, the modulus added before reducing")
	r.Rule("KIND-STORE", "a value stored into a struct field has the component kind of that field (as defined by the field's exported getter)")
}

func init() {
	register(&propSpec{ID: "C01", Level: "other", Run: runC01,
		Explain: otherNote + "C01: decided = altitude-to-index conversion floors (no truncation, no biased floor); one output per input point in input order; each index is labelled with the zoom of its own axis; the spatial-ID form is the extended form with h = v plus the canonical permutation; zoom and nil-point guards dominate success; no sign test of a vertical index has a negative side that can only fail.",
		Canary: []CanaryExpect{
			{Rule: "ROUND", Bad: "canaryBadTruncAlt", Good: "canaryGoodFloorAlt"},
			{Rule: "MAPORDER", Bad: "canaryBadSkipAppend", Good: "canaryGoodMapLoop"},
			{Rule: "GUARD", Bad: "canaryBadZoomGuard", Good: "canaryGoodZoomGuard"},
			{Rule: "NEGF", Bad: "canaryBadNegF", Good: "canaryGoodNegF"},
		}})
	register(&propSpec{ID: "C03", Level: "other", Run: runC03,
		Explain: otherNote + "C03: decided = vertical zoom-out floors; results pass a de-duplication on every success path; every output field is at the requested zoom of its own axis and axes are wired independently; the single-zoom form delegates with (zoom, zoom); no element of the input list reaches the result unparsed; packed integer map keys are injective over the documented index ranges.",
		Canary: []CanaryExpect{
			{Rule: "ROUND", Bad: "canaryBadQuoF", Good: "canaryGoodShiftF"},
			{Rule: "ROUND", Bad: "canaryBadWrongFloorFix", Good: "canaryGoodFloorDiv"},
			{Rule: "DISTINCT", Bad: "canaryBadNoUnique", Good: "canaryGoodUnique"},
			{Rule: "KIND-CALL", Bad: "canaryBadSwapZoom", Good: "canaryGoodZoomCall"},
			{Rule: "VERBATIM", Bad: "canaryBadVerbatim", Good: "canaryGoodVerbatim"},
			{Rule: "SAMEZOOM", Bad: "canaryBadSameZoom", Good: "canaryGoodSameZoom"},
		}})
	register(&propSpec{ID: "C04", Level: "other", Run: runC04,
		Explain: otherNote + "C04: decided = the ancestor computation floors the vertical index; the result is de-duplicated; the unit zooms of the division are final per-axis maxima over all inputs (not a running maximum in use, not one element's zooms); no input, unit or group is dropped; an input is passed through unmerged only if it is coarser than the target on some axis and is a merge candidate otherwise (finite ordering enumeration over (hZoom vs target, vZoom vs target)); wrapper delegation; no element of the input list reaches the result unparsed.",
		Canary: []CanaryExpect{
			{Rule: "ROUND", Bad: "canaryBadQuoF", Good: "canaryGoodShiftF"},
			{Rule: "UNIT-ZOOM", Bad: "canaryBadUnitZoomPartial", Good: "canaryGoodUnitZoomFinal"},
			{Rule: "WINDOW-APPEND", Bad: "canaryBadWindow", Good: "canaryGoodWindow"},
		}})
	register(&propSpec{ID: "C09", Level: "other", Run: runC09,
		Explain: otherNote + "C09: decided = every place that quantises or coarsens a vertical index (point lookup, zoom-out, merge ancestor, altitude-key scaling) uses one rounding mode, floor; the overlap check aligns zooms with integrate.ChangeExtendedSpatialIdsZoom itself at the per-axis minimum zoom; merge eligibility is the same per-axis ordering test.",
		Canary: []CanaryExpect{
			{Rule: "ROUND", Bad: "canaryBadQuoF", Good: "canaryGoodShiftF"},
		}})
}

func runC01(w *World, r *Report, tier string) {
	kindRuleTexts(r)
	unresolvedSeeds(w, r)
	rulePointFields(w, r)
	ruleSignedField(w, r)
	entries := entryFuncs(w, r, "shape.GetExtendedSpatialIdsOnPoints", "shape.GetSpatialIdsOnPoints")
	ruleChunks(w, r, closureOf(w, entries))
	cl := closureOf(w, entries)
	r.Analysed["closure_functions"] = len(cl)
	kr := kindRulesFor(w)
	kr.emit(w, r, []string{"ROUND", "FLOOR-NOBIAS", "KIND-CALL", "KIND-LAYOUT", "KIND-STORE"}, cl)
	if f := lookupByName(w, "shape.GetExtendedSpatialIdsOnPoints"); f != nil {
		ruleMapOrder(w, r, f, 0)
	}
	for _, f := range canaryFuncs(w) {
		if containsAny(f.Name(), "canaryBadSkipAppend", "canaryGoodMapLoop") {
			ruleMapOrder(w, r, f, 0)
		}
	}
	ruleWrapper(w, r, wrapperSpec{Wrapper: "shape.GetSpatialIdsOnPoints", Extended: "shape.GetExtendedSpatialIdsOnPoints", ZoomArg: 1, ExtH: 1, ExtV: 2, IDsArg: -1, PassArgs: [][2]int{{0, 0}}})
	ruleElementwise(w, r, "shape.GetExtendedSpatialIdsOnPoints", 0)
	ruleFoldExact(w, r, cl)
	ruleNegF(w, r, nil)
	guardRows(w, r, "C01")
}

func runC03(w *World, r *Report, tier string) {
	kindRuleTexts(r)
	unresolvedSeeds(w, r)
	ruleDelegateOnce(w, r, "integrate.ChangeSpatialIdsZoom", "integrate.ChangeExtendedSpatialIdsZoom")
	entries := entryFuncs(w, r, "integrate.ChangeExtendedSpatialIdsZoom", "integrate.ChangeSpatialIdsZoom",
		"integrate.HorizontalZoom", "integrate.HorizontalZoomMinMax", "integrate.VerticalZoom")
	ruleChunks(w, r, closureOf(w, entries))
	cl := closureOf(w, entries)
	ruleIndexIntervalOpt(w, r, cl, true)
	r.Analysed["closure_functions"] = len(cl)
	kr := kindRulesFor(w)
	kr.emit(w, r, []string{"ROUND", "KIND-CALL", "KIND-LAYOUT", "KIND-STORE"}, cl)
	ashiftRule(w, r)
	for _, n := range []string{"integrate.ChangeExtendedSpatialIdsZoom", "integrate.ChangeSpatialIdsZoom"} {
		if f := lookupByName(w, n); f != nil {
			ruleDistinct(w, r, f)
		}
	}
	for _, f := range canaryFuncs(w) {
		if containsAny(f.Name(), "canaryBadNoUnique", "canaryGoodUnique") {
			ruleDistinct(w, r, f)
		}
	}
	ruleWrapper(w, r, wrapperSpec{Wrapper: "integrate.ChangeSpatialIdsZoom", Extended: "integrate.ChangeExtendedSpatialIdsZoom", ZoomArg: 1, ExtH: 1, ExtV: 2, IDsArg: 0})
	ruleAxisSym(w, r, "integrate.HorizontalZoomMinMax")
	for _, n := range []string{"integrate.HorizontalZoomMinMax", "integrate.HorizontalZoom", "integrate.VerticalZoom"} {
		ruleNoClamp(w, r, n)
	}
	ruleCacheKey(w, r, cl)
	ruleNoSkip(w, r, "integrate.ChangeExtendedSpatialIdsZoom")
	ruleVerbatim(w, r, "integrate.ChangeExtendedSpatialIdsZoom", "integrate.ChangeSpatialIdsZoom")
	rulePackKey(w, r, nil)
	ruleSameZoom(w, r, "integrate.ChangeExtendedSpatialIdsZoom")
	guardRows(w, r, "C03")
}

func runC04(w *World, r *Report, tier string) {
	kindRuleTexts(r)
	unresolvedSeeds(w, r)
	ruleDelegateOnce(w, r, "integrate.MergeSpatialIds", "integrate.MergeExtendedSpatialIds")
	entries := entryFuncs(w, r, "integrate.MergeExtendedSpatialIds", "integrate.MergeSpatialIds")
	ruleChunks(w, r, closureOf(w, entries))
	cl := closureOf(w, entries)
	r.Analysed["closure_functions"] = len(cl)
	kr := kindRulesFor(w)
	kr.emit(w, r, []string{"ROUND", "KIND-CALL", "KIND-LAYOUT", "KIND-STORE"}, cl)
	ashiftRule(w, r)
	for _, n := range []string{"integrate.MergeExtendedSpatialIds", "integrate.MergeSpatialIds"} {
		if f := lookupByName(w, n); f != nil {
			ruleDistinct(w, r, f)
		}
	}
	ruleWrapper(w, r, wrapperSpec{Wrapper: "integrate.MergeSpatialIds", Extended: "integrate.MergeExtendedSpatialIds", ZoomArg: 1, ExtH: 1, ExtV: 2, IDsArg: 0})
	ruleEligibility(w, r)
	ruleWindowAppend(w, r, cl)
	ruleNoSkip(w, r, "integrate.MergeExtendedSpatialIds")
	ruleUnitZoom(w, r)
	ruleCacheKey(w, r, cl)
	ruleVerbatim(w, r, "integrate.MergeExtendedSpatialIds", "integrate.MergeSpatialIds")
	guardRows(w, r, "C04")
}

func runC09(w *World, r *Report, tier string) {
	kindRuleTexts(r)
	r.Rule("ROUND-AGREE", "all rounding sites of signed vertical quantities in the closures of point lookup, zoom change, merge, overlap and the altitude-key conversions are classified FLOOR (one rounding mode across operations)")
	unresolvedSeeds(w, r)
	entries := entryFuncs(w, r, "shape.GetExtendedSpatialIdsOnPoints", "integrate.ChangeExtendedSpatialIdsZoom",
		"integrate.MergeExtendedSpatialIds", "detector.CheckExtendedSpatialIdsOverlap", "detector.CheckSpatialIdsArrayOverlap",
		"integrate.VerticalZoom", "common/object.(ExtendedSpatialID).Higher", "transform.ConvertZToMinMaxAltitudekey", "transform.ConvertAltitudekeyToMinMaxZ")
	cl := closureOf(w, entries)
	ruleIndexIntervalOpt(w, r, cl, true)
	r.Analysed["closure_functions"] = len(cl)
	kr := kindRulesFor(w)
	n := kr.emit(w, r, []string{"ROUND", "FLOOR-NOBIAS"}, cl)
	ashiftRule(w, r)
	// ROUND-AGREE summary obligation
	bad, open := 0, 0
	for _, o := range r.Obls {
		if (o.Rule == "ROUND" || o.Rule == "ASHIFT") && !o.Canary {
			switch o.Status {
			case Violated:
				bad++
			case Undecided, Unresolved:
				open++
			}
		}
	}
	if bad == 0 && open == 0 {
		r.add("ROUND-AGREE", "all vertical rounding sites", "-", Discharged, "all "+itoa(n)+" rounding sites are FLOOR")
	} else if bad == 0 {
		r.add("ROUND-AGREE", "all vertical rounding sites", "-", Undecided, itoa(open)+" rounding site(s) could not be classified")
	} else {
		r.add("ROUND-AGREE", "all vertical rounding sites", "-", Violated, itoa(bad)+" rounding site(s) are not FLOOR: point lookup, zoom change and merge would disagree below ground")
	}
	ruleOverlapAlign(w, r)
	ruleEligibility(w, r)
}

func itoa(n int) string {
	return fmtInt(n)
}

var _ = ssa.Value(nil)
