package main

// Rules for C14, C15 (lat/lon fields), C16 (order), C18, C20.

import (
	"fmt"
	"go/ast"
	"go/constant"
	"go/token"
	"go/types"
	"math"
	"sort"
	"strings"

	"golang.org/x/tools/go/ssa"
)

// ---------------------------------------------------------------- order dependence

// mapOrdered: the slice value's element order comes from a map iteration.
func mapOrdered(w *World, f *ssa.Function, v ssa.Value, depth int) bool {
	if depth > 6 {
		return false
	}
	v = resolve(v)
	switch x := v.(type) {
	case *ssa.Phi:
		for _, e := range x.Edges {
			if mapOrdered(w, f, e, depth+1) {
				return true
			}
		}
		return false
	case *ssa.Extract:
		if c, ok := x.Tuple.(*ssa.Call); ok && x.Index == 0 {
			return callMapOrdered(w, c, depth)
		}
	case *ssa.Call:
		if builtinName(x) == "append" {
			if mapKeySliceLoose(f, x) {
				return true
			}
			return mapOrdered(w, f, x.Call.Args[0], depth+1)
		}
		return callMapOrdered(w, x, depth)
	case *ssa.Slice:
		return mapOrdered(w, f, x.X, depth+1)
	}
	return false
}

// mapKeySliceLoose: some append in the chain is inside a map-range loop body
// and appends a value derived from the iteration (key or value).
func mapKeySliceLoose(f *ssa.Function, v ssa.Value) bool {
	ai := appendChain(v)
	mrs := findMapRanges(f)
	for _, ap := range ai.Appends {
		for _, mr := range mrs {
			if mr.blocks()[ap.Block()] {
				return true
			}
		}
	}
	return false
}

var mapOrderedFn = map[*ssa.Function]int{}

func callMapOrdered(w *World, c *ssa.Call, depth int) bool {
	g := calleeOf(c)
	if g == nil || !w.InModule(g) || g.Blocks == nil {
		return false
	}
	switch mapOrderedFn[g] {
	case 1:
		return true
	case 2, 3:
		return false
	}
	mapOrderedFn[g] = 3
	res := false
	for _, ret := range returnsOf(g) {
		if len(ret.Results) > 0 && isSlice(ret.Results[0].Type()) && mapOrdered(w, g, ret.Results[0], depth+1) {
			res = true
		}
	}
	if res {
		mapOrderedFn[g] = 1
	} else {
		mapOrderedFn[g] = 2
	}
	return res
}

// ruleNoOrderDep: no positional use of a map-ordered slice.
func ruleNoOrderDep(w *World, r *Report, in map[*ssa.Function]bool) {
	r.Rule("NOORDERDEP", "a slice whose element order comes from a map iteration (common.Unique/Union, private de-duplication helpers, and every function returning such a slice) is never indexed or re-sliced: the only way Go's randomised map order can reach a result is a positional use. One site is exempt: the overlap check compares element 0 of two zoom-aligned singleton lists (singleton-ness is established by rule MINSEL)")
	n := 0
	for _, f := range w.ModFuncs {
		if f.Synthetic != "" || f.Blocks == nil {
			continue
		}
		can := w.IsCanary(f)
		if !can && in != nil && !in[f] {
			continue
		}
		name := w.FuncName(f)
		ord := 0
		instrs(f, func(ins ssa.Instruction) {
			var base ssa.Value
			var idx ssa.Value
			switch x := ins.(type) {
			case *ssa.IndexAddr:
				base, idx = x.X, x.Index
			case *ssa.Index:
				base, idx = x.X, x.Index
			case *ssa.Slice:
				if x.Low != nil || x.High != nil {
					base = x.X
				}
				// xs[:len(xs)] / xs[:len(xs):len(xs)] / xs[0:] keep every element (clip, copy idiom)
				lowOK := x.Low == nil
				if k, ok := constInt(x.Low); ok && k == 0 {
					lowOK = true
				}
				highOK := x.High == nil
				if lc, ok := resolve(x.High).(*ssa.Call); x.High != nil && ok && builtinName(lc) == "len" && sameValue(lc.Call.Args[0], x.X) {
					highOK = true
				}
				if lowOK && highOK {
					base = nil
				}
			}
			if base == nil || !isSlice(base.Type()) {
				return
			}
			// range loops index with the loop counter: not positional
			if idx != nil {
				for _, sr := range findSliceRanges(f) {
					if idx == sr.Idx && sameValue(base, sr.X) {
						return
					}
				}
			}
			// a counted loop that visits every position (for i := 0; i < len(xs); i++ { xs[i] })
			// is a traversal, like a range loop
			if idx != nil {
				for hdr := range countedLoopsOver(f, base) {
					if ph, ok := idx.(*ssa.Phi); ok && ph.Block() == hdr {
						return
					}
				}
				for _, rl := range rotatedLoopsOver(f, base) {
					if idx == ssa.Value(rl.Phi) {
						return
					}
				}
				// the same with a compound loop condition (for i := 0; err == nil && i < len(xs); i++)
				if ph, ok := idx.(*ssa.Phi); ok && unitCounterBoundedBy(f, ph, base) {
					return
				}
				// a peeled traversal: xs[0] handled in front of for i := 1; i < len(xs); i++ { xs[i] }
				if peeledTraversal(f, base, idx) {
					return
				}
			}
			if !mapOrdered(w, f, base, 0) {
				return
			}
			ord++
			n++
			key := fmt.Sprintf("NOORDERDEP / %s / positional use#%d", name, ord)
			root := f
			for root.Parent() != nil {
				root = root.Parent()
			}
			if w.FuncName(root) == "detector.CheckExtendedSpatialIdsOverlap" {
				if k, ok := constInt(idx); ok && k == 0 {
					r.Add(Obligation{Rule: "NOORDERDEP", Key: key, Pos: w.Pos(ins.Pos()), Status: Discharged, Detail: "element 0 of a zoom-aligned result that is a singleton (both axes are coarsened or kept: rule MINSEL)", Canary: can})
					return
				}
			}
			// the same alignment moved into a private helper (element 0 of a zoom change of one
			// ID): whether that result is a singleton depends on the zooms the callers pass
			if k, ok := constInt(idx); ok && k == 0 && zoomChangeOfOneID(base) && !ast.IsExported(f.Name()) {
				r.Add(Obligation{Rule: "NOORDERDEP", Key: key, Pos: w.Pos(ins.Pos()), Status: Undecided, Detail: "element 0 of the zoom change of a single ID inside a private helper: a singleton (and then order-free) exactly when the callers pass zooms that do not refine the ID", Canary: can})
				return
			}
			r.Add(Obligation{Rule: "NOORDERDEP", Key: key, Pos: w.Pos(ins.Pos()), Status: Violated, Detail: "positional use of a map-ordered slice (" + shortInstr(ins) + "): which element is selected differs between identical calls", Canary: can})
		})
	}
	r.Analysed["positional_uses_of_map_ordered_slices"] = n
	r.add("NOORDERDEP", "module scan", "-", Discharged, fmt.Sprintf("%d positional use(s) of map-ordered slices examined", n))
}

// zoomChangeOfOneID: base is the list result of integrate.ChangeExtendedSpatialIdsZoom applied
// to a one-element list literal.
func zoomChangeOfOneID(base ssa.Value) bool {
	ex, ok := resolve(base).(*ssa.Extract)
	if !ok || ex.Index != 0 {
		return false
	}
	c, ok := ex.Tuple.(*ssa.Call)
	if !ok || !funcIs(calleeOf(c), modPath+"/integrate", "ChangeExtendedSpatialIdsZoom") || len(c.Call.Args) == 0 {
		return false
	}
	sl, ok := resolve(c.Call.Args[0]).(*ssa.Slice)
	if !ok {
		return false
	}
	pt, ok := sl.X.Type().Underlying().(*types.Pointer)
	if !ok {
		return false
	}
	at, ok := pt.Elem().Underlying().(*types.Array)
	return ok && at.Len() == 1
}

// ruleMapLoopCommutative: bodies of map-range loops only perform commutative effects.
func ruleMapLoopCommutative(w *World, r *Report, in map[*ssa.Function]bool) {
	r.Rule("MAPLOOP-COMMUTATIVE", "the body of every range over a map only appends, inserts into maps, or accumulates integers: no value computed inside the loop escapes except such accumulators, no return inside the loop carries an element-dependent value, and no floating-point accumulation is carried around the loop")
	for _, f := range w.ModFuncs {
		if f.Synthetic != "" || f.Blocks == nil {
			continue
		}
		can := w.IsCanary(f)
		if !can && in != nil && !in[f] {
			continue
		}
		name := w.FuncName(f)
		for k, mr := range findMapRanges(f) {
			key := fmt.Sprintf("MAPLOOP-COMMUTATIVE / %s / map range#%d", name, k+1)
			blocks := mr.blocks()
			blocks[mr.Header] = true
			bad := ""
			for b := range blocks {
				for _, in := range b.Instrs {
					switch x := in.(type) {
					case *ssa.Return:
						for _, rv := range x.Results {
							if definedIn(rv, blocks) {
								bad = "a return inside the loop carries a value computed from the current element (" + w.Pos(x.Pos()) + ")"
							}
						}
					case *ssa.Phi:
						if isFloatType(x.Type()) && b == mr.Header {
							bad = "floating-point accumulation carried around a map-ordered loop (" + w.Pos(x.Pos()) + ")"
						}
					}
					v, ok := in.(ssa.Value)
					if !ok || v.Referrers() == nil {
						continue
					}
					for _, ref := range *v.Referrers() {
						if _, isDbg := ref.(*ssa.DebugRef); isDbg {
							continue
						}
						if ref.Block() == nil || blocks[ref.Block()] {
							continue
						}
						// escapes the loop: must be an accumulator
						if c, isCall := v.(*ssa.Call); isCall && builtinName(c) == "append" {
							continue
						}
						if p, isPhi := v.(*ssa.Phi); isPhi && (isSlice(p.Type()) || isMap(p.Type()) || isIntType(p.Type())) && b == mr.Header {
							continue
						}
						if _, isNext := v.(*ssa.Next); isNext {
							continue
						}
						if ex, isEx := v.(*ssa.Extract); isEx {
							if _, ok := ex.Tuple.(*ssa.Next); ok && ex.Index == 0 {
								continue
							}
						}
						bad = "the value " + v.Name() + " computed inside the loop is used after it (" + w.Pos(ref.Pos()) + "): its value depends on which element the map yields last"
					}
				}
			}
			if bad != "" {
				r.Add(Obligation{Rule: "MAPLOOP-COMMUTATIVE", Key: key, Pos: w.Pos(mr.Range.Pos()), Status: Violated, Detail: bad, Canary: can})
			} else {
				r.Add(Obligation{Rule: "MAPLOOP-COMMUTATIVE", Key: key, Pos: w.Pos(mr.Range.Pos()), Status: Discharged, Detail: "loop body only appends / inserts / accumulates", Canary: can})
			}
		}
	}
}

func definedIn(v ssa.Value, blocks map[*ssa.BasicBlock]bool) bool {
	in, ok := v.(ssa.Instruction)
	if !ok {
		return false
	}
	if _, isConst := v.(*ssa.Const); isConst {
		return false
	}
	return in.Block() != nil && blocks[in.Block()]
}

// ruleNonDetSources: no call of a nondeterministic standard-library facility.
func ruleNonDetSources(w *World, r *Report) {
	r.Rule("NONDET", "no function reachable from an exported function (dependencies included) calls math/rand, crypto/rand, time.Now/Since, os, runtime scheduling or reflect map iteration: map iteration order is then the only nondeterminism source, which NOORDERDEP and MAPLOOP-COMMUTATIVE exclude")
	e := effectsFor(w)
	var bad []string
	for name := range e.StdCalls {
		for _, p := range []string{"math/rand.", "math/rand/v2.", "crypto/rand.", "time.Now", "time.Since", "time.Sleep", "os.", "runtime.Gosched", "runtime.NumGoroutine"} {
			if strings.HasPrefix(name, p) || strings.HasPrefix(name, "("+p) {
				bad = append(bad, name)
			}
		}
	}
	sort.Strings(bad)
	r.Analysed["std_functions_called"] = len(e.StdCalls)
	if len(bad) > 0 {
		r.add("NONDET", "standard-library calls", "-", Violated, "nondeterministic facilities are reachable: "+strings.Join(bad, ", "))
	} else {
		r.add("NONDET", "standard-library calls", "-", Discharged, fmt.Sprintf("none of the %d standard-library functions called from reachable code is a nondeterminism source", len(e.StdCalls)))
	}
}

// ---------------------------------------------------------------- C14 corridor

func ruleCorridor(w *World, r *Report) {
	r.Rule("INCLUDES", "the line's IDs (the value returned by shape.GetExtendedSpatialIdsOnLine for the same start, end, hZoom, vZoom) are unioned into the result on both branches of the skip flag")
	r.Rule("FILTER-SUBSET", "with measurement enabled, IDs are added only from the candidate list the skipped mode returns, and every such append is confined to the branch where the measured distance is smaller than the radius parameter itself (no scaled or offset radius)")
	r.Rule("LAYERFIT", "the layer counts handed to operated.GetNspatialIdsAroundVoxcels are the maxima, over every voxel of the line, of the two results of FitClearanceAroundExtendedSpatialID(voxel, radius); the candidate list is GetNspatialIdsAroundVoxcels(line IDs, hLayers, vLayers) minus the line IDs")
	fn := "transform.GetExtendedSpatialIdsWithinRadiusOfLine"
	f := lookupByName(w, fn)
	if f == nil {
		r.add("INCLUDES", fn, "?", Unresolved, "function not found")
		return
	}
	pos := w.Pos(f.Pos())
	onLine := callsTo(f, func(g *ssa.Function) bool { return funcIs(g, modPath+"/shape", "GetExtendedSpatialIdsOnLine") })
	if len(onLine) != 1 {
		r.add("INCLUDES", fn+" / line query", pos, Undecided, "expected exactly one call of shape.GetExtendedSpatialIdsOnLine")
		return
	}
	lc := onLine[0]
	okArgs := resolve(lc.Call.Args[0]) == ssa.Value(f.Params[0]) && resolve(lc.Call.Args[1]) == ssa.Value(f.Params[1]) &&
		resolve(lc.Call.Args[2]) == ssa.Value(f.Params[3]) && resolve(lc.Call.Args[3]) == ssa.Value(f.Params[4])
	if okArgs {
		r.add("INCLUDES", fn+" / line query", w.Pos(lc.Pos()), Discharged, "line IDs computed for (start, end, hZoom, vZoom) unchanged")
	} else {
		st := worst(argStatus(lc.Call.Args[0], f.Params[0]), argStatus(lc.Call.Args[1], f.Params[1]), argStatus(lc.Call.Args[2], f.Params[3]), argStatus(lc.Call.Args[3], f.Params[4]))
		r.add("INCLUDES", fn+" / line query", w.Pos(lc.Pos()), st, "the line query does not receive start, end, hZoom, vZoom unchanged ("+shortInstr(lc)+")")
	}
	line := ssa.Value(extractOf(lc, 0))
	isLine := func(v ssa.Value) bool { return line != nil && resolve(v) == line }
	// candidates A = Difference(GetN(line, h, v), line)
	var cand *ssa.Call
	var getN *ssa.Call
	instrs(f, func(in ssa.Instruction) {
		c, ok := in.(*ssa.Call)
		if !ok {
			return
		}
		if calleeIs(c, modPath+"/common", "Difference") && isLine(c.Call.Args[1]) {
			if ex, ok := resolve(c.Call.Args[0]).(*ssa.Extract); ok && ex.Index == 0 {
				if gc, ok := ex.Tuple.(*ssa.Call); ok && calleeIs(gc, modPath+"/operated", "GetNspatialIdsAroundVoxcels") {
					cand, getN = c, gc
				}
			}
		}
	})
	if cand == nil {
		r.add("LAYERFIT", fn+" / candidates", pos, Undecided, "the candidate list was not recognised as common.Difference(GetNspatialIdsAroundVoxcels(...), line IDs)")
	}
	if cand != nil {
		if !isLine(getN.Call.Args[0]) {
			r.add("LAYERFIT", fn+" / candidates", w.Pos(getN.Pos()), Undecided, "the neighbourhood box is built around "+describeValue(getN.Call.Args[0])+", which is not recognisably the line's ID list")
		} else {
			r.add("LAYERFIT", fn+" / candidates", w.Pos(getN.Pos()), Discharged, "candidates = N-layer box around the line IDs minus the line IDs")
		}
		// layer counts: max over line voxels of FitClearance(voxel, radius), inline or in a private helper
		okFit, why := false, ""
		hv := [2]ssa.Value{getN.Call.Args[1], getN.Call.Args[2]}
		if ex0, ok := resolve(hv[0]).(*ssa.Extract); ok {
			if hc, ok := ex0.Tuple.(*ssa.Call); ok && calleeOf(hc) != nil && w.InModule(calleeOf(hc)) && !funcIs(calleeOf(hc), modPath+"/transform", "FitClearanceAroundExtendedSpatialID") {
				// helper form: H(line, radius) returning the two maxima
				h := calleeOf(hc)
				li, ri := -1, -1
				for i, a := range hc.Call.Args {
					if isLine(a) {
						li = i
					}
					if resolve(a) == ssa.Value(f.Params[2]) {
						ri = i
					}
				}
				ex1, ok1 := resolve(hv[1]).(*ssa.Extract)
				if li < 0 || ri < 0 || !ok1 || ex1.Tuple != ssa.Value(hc) || ex0.Index != 0 || ex1.Index != 1 {
					why = "the layer counts do not come from one helper call on (line IDs, radius)"
				} else {
					okFit, why = true, ""
					n := 0
					for _, ret := range returnsOf(h) {
						if classifyReturn(h, ret) != retSuccess {
							continue
						}
						n++
						ok2, w2 := layerFitShape(h, func(v ssa.Value) bool { return resolve(v) == ssa.Value(h.Params[li]) }, h.Params[ri], [2]ssa.Value{ret.Results[0], ret.Results[1]})
						if !ok2 {
							okFit, why = false, "in helper "+w.FuncName(h)+": "+w2
						}
					}
					if n == 0 {
						okFit, why = false, "helper has no success return"
					}
				}
			} else {
				why = "the layer counts are not the running maxima of the clearance fit"
			}
		} else {
			okFit, why = layerFitShape(f, isLine, f.Params[2], hv)
		}
		if okFit {
			r.add("LAYERFIT", fn+" / layer counts", pos, Discharged, "hLayers, vLayers = max over all line voxels of FitClearanceAroundExtendedSpatialID(voxel, radius)")
		} else {
			st := Violated
			if strings.Contains(why, "expected one") || strings.Contains(why, "is not called with (line voxel, radius)") && strings.Contains(why, "in helper") || strings.Contains(why, "is not inside a loop over the line IDs") || strings.Contains(why, "do not come from one helper call") || strings.Contains(why, "are not the running maxima") || strings.Contains(why, "not the running maxima in a recognised form") || strings.Contains(why, "has no success return") {
				st = Undecided // the construction was not recognised; nothing wrong was seen
			}
			r.add("LAYERFIT", fn+" / layer counts", pos, st, why)
		}
	}
	// success returns: a union / concatenation of lists, possibly de-duplicated;
	// each result variant (one per choice of the phi-merged operands) must contain
	// the line IDs; the other operand ranges over {candidates (skipped mode),
	// measured additions}
	n := 0
	var measuredList ssa.Value
	sawCand := false
	for _, ret := range returnsOf(f) {
		if classifyReturn(f, ret) != retSuccess {
			continue
		}
		for _, variant := range listVariants(w, ret.Results[0], 0) {
			n++
			key := fmt.Sprintf("%s / result variant#%d", fn, n)
			hasLine := false
			for _, part := range variant {
				if isLine(part) {
					hasLine = true
				}
			}
			if !hasLine {
				desc := []string{}
				for _, part := range variant {
					desc = append(desc, describeValue(part))
				}
				st := Violated
				for _, part := range variant {
					known := resolve(part) == ssa.Value(cand)
					if ph, isPhi := resolve(part).(*ssa.Phi); isPhi && isAccumulatorPhi(ph) && !fedFromMap(ph) {
						known = true
					}
					// the result of an exported function of the module is what its documentation says
					// (GetNspatialIdsAroundVoxcels never contains its centre): known not to be the line
					var pc *ssa.Call
					if ex, isEx := resolve(part).(*ssa.Extract); isEx {
						pc, _ = ex.Tuple.(*ssa.Call)
					} else if cc, isC := resolve(part).(*ssa.Call); isC {
						pc = cc
					}
					if pc != nil && calleeOf(pc) != nil && w.InModule(calleeOf(pc)) && tokenExported(calleeOf(pc).Name()) && calleeOf(pc).Signature.Recv() == nil {
						known = true
					}
					if !known {
						st = Undecided // an operand the rule cannot see into (helper result): no verdict
					}
				}
				r.add("INCLUDES", key, w.Pos(ret.Pos()), st, "the result is not a union that contains the line IDs ("+strings.Join(desc, " + ")+")")
				continue
			}
			r.add("INCLUDES", key, w.Pos(ret.Pos()), Discharged, "result = union of the line IDs and the additions")
			for _, part := range variant {
				switch {
				case isLine(part):
				case resolve(part) == ssa.Value(cand):
					sawCand = true
				default:
					measuredList = part
				}
			}
		}
	}
	if n == 0 {
		r.add("INCLUDES", fn+" / results", pos, Undecided, "no success return")
	}
	ruleVerdictOverwrite(w, r, f, fn, isLine)
	if cand == nil {
		// without the candidate list the filter rules have nothing to compare with
		r.add("FILTER-SUBSET", fn+" / skipped mode", pos, Undecided, "the candidate list was not recognised")
		return
	}
	if !sawCand {
		r.add("FILTER-SUBSET", fn+" / skipped mode", pos, Undecided, "no result variant unions the unfiltered candidate list (skipped mode must return every candidate)")
	} else {
		r.add("FILTER-SUBSET", fn+" / skipped mode", pos, Discharged, "skipped mode returns candidates ∪ line IDs")
	}
	// FILTER-SUBSET on the measured list
	if measuredList == nil {
		r.add("FILTER-SUBSET", fn+" / measured list", pos, Undecided, "no result variant is built from measured additions")
		return
	}
	ai := appendChain(measuredList)
	okBase := true
	for _, b := range ai.Bases {
		if !isEmptySliceBase(b) {
			okBase = false
		}
	}
	if len(ai.Appends) == 0 {
		// a neighbourhood list (a box around the line, minus the line) handed on as it is in the
		// measured mode: candidates that were never compared with the radius
		if bc := boxCallOf(measuredList, 0); bc != nil && bc == getN {
			// the whole box of the candidates, not yet reduced by the line: box ∪ line = candidates ∪ line
			r.add("FILTER-SUBSET", fn+" / measured list", pos, Undecided, "a result variant unions the candidate box itself; the measured additions were not identified")
			return
		}
		if resolve(measuredList) != ssa.Value(cand) && derivesFromBox(measuredList, 0) {
			r.add("FILTER-SUBSET", fn+" / measured list", pos, Violated, "a list taken from a neighbourhood box ("+describeValue(measuredList)+") is returned with the measured additions although its voxels were never compared with the radius")
			return
		}
		r.add("FILTER-SUBSET", fn+" / measured list", pos, Undecided, "the measured additions are not built by appends ("+describeValue(measuredList)+")")
		return
	}
	for _, b := range ai.Bases {
		if !isEmptySliceBase(b) && derivesFromBox(b, 0) && boxCallOf(b, 0) != getN {
			r.add("FILTER-SUBSET", fn+" / measured list", pos, Violated, "the measured additions start from a list taken from a neighbourhood box ("+describeValue(b)+"): those voxels are returned without having been compared with the radius")
			return
		}
	}
	if !okBase {
		r.add("FILTER-SUBSET", fn+" / measured list", pos, Violated, "the measured additions do not start from an empty list")
		return
	}
	radius := f.Params[2]
	for i, ap := range ai.Appends {
		key := fmt.Sprintf("%s / measured append#%d", fn, i+1)
		elems, spread := appendedElems(ap)
		var loop *sliceRange
		for _, sr := range findSliceRanges(f) {
			if resolve(sr.X) == ssa.Value(cand) && sr.blocks()[ap.Block()] {
				loop = sr
			}
		}
		if spread != nil || len(elems) != 1 || loop == nil || !loop.isElem(resolve(elems[0])) {
			r.add("FILTER-SUBSET", key, w.Pos(ap.Pos()), Violated, "an ID is added that is not the current element of the candidate list (measured result would not be a subset of the skipped result)")
			continue
		}
		// dominated by dist < radius
		good := false
		for _, blk := range f.Blocks {
			t, fl, ifi := ifSuccs(blk)
			if ifi == nil {
				continue
			}
			c, ok := ifi.Cond.(*ssa.BinOp)
			if !ok {
				continue
			}
			var succ *ssa.BasicBlock
			switch {
			case (c.Op == token.LSS || c.Op == token.LEQ) && resolve(c.Y) == ssa.Value(radius) && isFloatType(c.X.Type()):
				succ = t
			case (c.Op == token.GTR || c.Op == token.GEQ) && resolve(c.X) == ssa.Value(radius):
				succ = t
			case (c.Op == token.GEQ || c.Op == token.GTR) && resolve(c.Y) == ssa.Value(radius):
				succ = fl
			case (c.Op == token.LEQ || c.Op == token.LSS) && resolve(c.X) == ssa.Value(radius):
				succ = fl
			default:
				continue
			}
			if !loop.blocks()[blk] {
				continue
			}
			if succ == ap.Block() || blockDominatedByEdge(f, blk, succ, ap.Block()) {
				good = true
			}
		}
		if good {
			r.add("FILTER-SUBSET", key, w.Pos(ap.Pos()), Discharged, "append of the current candidate, confined to distance < radius (the parameter itself)")
			continue
		}
		// positive evidence: a float comparison inside the loop against an expression that is
		// computed from the radius (2*radius, radius+eps) guards the append, or nothing guards it
		scaled, guarded, usesRadius := "", false, false
		for _, blk := range f.Blocks {
			t, fl, ifi := ifSuccs(blk)
			if ifi == nil || !loop.blocks()[blk] || blk == loop.Header {
				continue
			}
			for _, succ := range []*ssa.BasicBlock{t, fl} {
				if succ == ap.Block() || blockDominatedByEdge(f, blk, succ, ap.Block()) {
					guarded = true
					if dependsOn(w, ifi.Cond, radius, 0, map[ssa.Value]bool{}) {
						usesRadius = true
					}
				}
			}
			c, ok := ifi.Cond.(*ssa.BinOp)
			if !ok || !isFloatType(c.X.Type()) {
				continue
			}
			for _, side := range []ssa.Value{c.X, c.Y} {
				if b, isB := resolve(side).(*ssa.BinOp); isB && (resolve(b.X) == ssa.Value(radius) || resolve(b.Y) == ssa.Value(radius)) {
					scaled = shortInstr(c)
				}
			}
		}
		switch {
		case scaled != "":
			r.add("FILTER-SUBSET", key, w.Pos(ap.Pos()), Violated, "the append is guarded by a comparison with an expression computed from the radius, not with the radius itself ("+scaled+")")
		case !guarded:
			r.add("FILTER-SUBSET", key, w.Pos(ap.Pos()), Violated, "the append is unconditional inside the loop over the candidates: every candidate is added whatever its distance")
		case !usesRadius:
			r.add("FILTER-SUBSET", key, w.Pos(ap.Pos()), Violated, "no test that decides this append depends on the radius (directly, through a helper or through a closure that captured it): a candidate is added without its distance being compared with the radius")
		default:
			r.add("FILTER-SUBSET", key, w.Pos(ap.Pos()), Undecided, "the append is guarded by a test that was not recognised as distance < radius (a helper or closure result)")
		}
	}
}

// layerFitShape: inside g, hv[0] and hv[1] are the running maxima, over a
// loop visiting every element of the list, of the two results of
// FitClearanceAroundExtendedSpatialID(element, radius).
func layerFitShape(g *ssa.Function, isList func(ssa.Value) bool, radius ssa.Value, hv [2]ssa.Value) (bool, string) {
	fit := callsTo(g, func(x *ssa.Function) bool {
		return funcIs(x, modPath+"/transform", "FitClearanceAroundExtendedSpatialID")
	})
	if len(fit) != 1 {
		return false, "expected one FitClearanceAroundExtendedSpatialID call inside a loop over the line IDs"
	}
	fc := fit[0]
	for _, sr := range findSliceRanges(g) {
		if !isList(sr.X) || !sr.blocks()[fc.Block()] {
			continue
		}
		if !sr.isElem(resolve(fc.Call.Args[0])) || resolve(fc.Call.Args[1]) != radius {
			return false, "FitClearanceAroundExtendedSpatialID is not called with (line voxel, radius)"
		}
		if ok, _ := everyIterationPasses(sr, func(x *ssa.Call) bool { return x == fc }, nil); !ok {
			return false, "some line voxel is skipped by the clearance fit"
		}
		for i, nm := range []string{"hLayers", "vLayers"} {
			acc, ok := resolve(hv[i]).(*ssa.Phi)
			res := extractOf(fc, i)
			// max(hLayers, vLayers) handed on as one axis: the larger of the two fits is not what
			// the fit reported for that axis
			if mc, isCall := resolve(hv[i]).(*ssa.Call); isCall && (builtinName(mc) == "max" || builtinName(mc) == "min") && res != nil {
				own, foreign := false, false
				for _, a := range mc.Call.Args {
					if ap, isP := resolve(a).(*ssa.Phi); isP && ap.Block() == sr.Header {
						if runningMax(g, sr, ap, res) {
							own = true
						} else if o := extractOf(fc, 1-i); o != nil && runningMax(g, sr, ap, o) {
							foreign = true
						}
					}
				}
				if own && foreign {
					return false, nm + " is not the running maximum of the fitted " + nm + " over the line voxels: it is " + builtinName(mc) + "() of the maxima of both axes"
				}
			}
			if ph, isPhi := resolve(hv[i]).(*ssa.Phi); isPhi && res != nil && ph.Block() != sr.Header {
				// a value merged after the loop: the running maximum on some paths, something else on others
				hasMax, other := false, ""
				for _, e := range ph.Edges {
					if ep, isP := resolve(e).(*ssa.Phi); isP && ep.Block() == sr.Header && runningMax(g, sr, ep, res) {
						hasMax = true
					} else if other == "" {
						other = describeValue(e)
					}
				}
				if hasMax && other != "" {
					return false, nm + " is not the running maximum of the fitted " + nm + " over the line voxels: after the loop it is replaced on some paths by " + other
				}
			}
			if !ok || res == nil || acc.Block() != sr.Header {
				// kept in an array element, a struct field, a closure variable: not followed
				return false, nm + " could not be followed to a loop-carried value: the layer counts are not the running maxima in a recognised form"
			}
			if !runningMax(g, sr, acc, res) {
				if takesSmaller(g, sr, acc, res) {
					return false, nm + " is not the running maximum of the fitted " + nm + " over the line voxels"
				}
				return false, nm + " is updated in a way that was not recognised: the layer counts are not the running maxima in a recognised form"
			}
		}
		return true, ""
	}
	return false, "the clearance fit is not inside a loop over the line IDs"
}

// runningMax: the loop-header phi acc (initial value 0) is updated on every
// back edge to max(acc, res): under res > acc the new value is res, otherwise
// it stays acc (enumeration of the three orderings over the loop body).
func runningMax(f *ssa.Function, sr *sliceRange, acc *ssa.Phi, res ssa.Value) bool {
	hasInit := false
	for i, pred := range acc.Block().Preds {
		if !sr.blocks()[pred] {
			if k, ok := constInt(acc.Edges[i]); ok && k == 0 {
				hasInit = true
			} else {
				return false
			}
		}
	}
	if !hasInit {
		return false
	}
	for _, rl := range []rel{relLT, relEQ, relGT} {
		orc := oracleFor([]pairRel{{res, acc, rl}})
		reach := simulate(sr.Body, map[*ssa.BasicBlock]bool{sr.Header: true}, orc)
		n := 0
		for i, pred := range acc.Block().Preds {
			if !sr.blocks()[pred] || !reach[pred] {
				continue
			}
			t, fl, ifi := ifSuccs(pred)
			if ifi != nil {
				if out, known := orc(ifi.Cond); known {
					if (out && t != sr.Header) || (!out && fl != sr.Header) {
						continue
					}
				}
			}
			v := resolve(acc.Edges[i])
			if mc, ok := v.(*ssa.Call); ok && builtinName(mc) == "max" && len(mc.Call.Args) == 2 {
				a0, a1 := resolve(mc.Call.Args[0]), resolve(mc.Call.Args[1])
				if (a0 == ssa.Value(acc) && a1 == resolve(res)) || (a1 == ssa.Value(acc) && a0 == resolve(res)) {
					n++
					continue
				}
				return false
			}
			if p, ok := v.(*ssa.Phi); ok && p != acc {
				pv, uniq := phiValueUnder(f, p, orc)
				if !uniq {
					return false
				}
				v = resolve(pv)
			}
			n++
			switch rl {
			case relGT:
				if v != resolve(res) {
					return false
				}
			case relLT:
				if v != ssa.Value(acc) {
					return false
				}
			default:
				if v != ssa.Value(acc) && v != resolve(res) {
					return false
				}
			}
		}
		if n == 0 {
			return false
		}
	}
	return true
}

// takesSmaller: positive evidence that acc is not a running maximum: when the
// new fit is smaller than acc, some feasible back edge still carries the new fit
// (last value wins, or a minimum).
func takesSmaller(f *ssa.Function, sr *sliceRange, acc *ssa.Phi, res ssa.Value) bool {
	orc := oracleFor([]pairRel{{res, acc, relLT}})
	reach := simulate(sr.Body, map[*ssa.BasicBlock]bool{sr.Header: true}, orc)
	for i, pred := range acc.Block().Preds {
		if !sr.blocks()[pred] || !reach[pred] {
			continue
		}
		t, fl, ifi := ifSuccs(pred)
		if ifi != nil {
			if out, known := orc(ifi.Cond); known {
				if (out && t != sr.Header) || (!out && fl != sr.Header) {
					continue
				}
			}
		}
		v := resolve(acc.Edges[i])
		if p, ok := v.(*ssa.Phi); ok && p != acc {
			pv, uniq := phiValueUnder(f, p, orc)
			if !uniq {
				continue
			}
			v = resolve(pv)
		}
		if v == resolve(res) {
			return true
		}
	}
	return false
}

// derivesFromBox: the list is the result of operated.GetNspatialIdsAroundVoxcels,
// possibly passed through the set helpers of package common.
func derivesFromBox(v ssa.Value, depth int) bool { return boxCallOf(v, depth) != nil }

// boxCallOf: the GetNspatialIdsAroundVoxcels call the list is taken from (nil if none).
func boxCallOf(v ssa.Value, depth int) *ssa.Call {
	if depth > 5 {
		return nil
	}
	v = resolve(v)
	switch x := v.(type) {
	case *ssa.Extract:
		return boxCallOf(x.Tuple, depth+1)
	case *ssa.Call:
		if calleeIs(x, modPath+"/operated", "GetNspatialIdsAroundVoxcels") {
			return x
		}
		for _, nm := range []string{"Difference", "Unique", "Union", "Intersect"} {
			if calleeIs(x, modPath+"/common", nm) && len(x.Call.Args) > 0 {
				return boxCallOf(x.Call.Args[0], depth+1)
			}
		}
	case *ssa.Phi:
		for _, e := range x.Edges {
			if c := boxCallOf(e, depth+1); c != nil {
				return c
			}
		}
	}
	return nil
}

func derivesFromBoxOld(v ssa.Value, depth int) bool {
	if depth > 5 {
		return false
	}
	v = resolve(v)
	switch x := v.(type) {
	case *ssa.Extract:
		return derivesFromBox(x.Tuple, depth+1)
	case *ssa.Call:
		if calleeIs(x, modPath+"/operated", "GetNspatialIdsAroundVoxcels") {
			return true
		}
		for _, nm := range []string{"Difference", "Unique", "Union", "Intersect"} {
			if calleeIs(x, modPath+"/common", nm) && len(x.Call.Args) > 0 {
				return derivesFromBox(x.Call.Args[0], depth+1)
			}
		}
	case *ssa.Phi:
		for _, e := range x.Edges {
			if derivesFromBox(e, depth+1) {
				return true
			}
		}
	}
	return false
}

func unwrapUnique(w *World, v ssa.Value) ssa.Value {
	v = resolve(v)
	if c, ok := v.(*ssa.Call); ok && calleeIs(c, modPath+"/common", "Unique") {
		return resolve(c.Call.Args[0])
	}
	return v
}

// ---------------------------------------------------------------- C15 point fields

func rulePointFields(w *World, r *Report) {
	r.Rule("FIELDGUARD", "longitude, latitude and altitude of a Point are written only by its exported setters; SetLon and SetAlt store their parameter unchanged; SetLat stores Floor(lat*1e10)/1e10 for positive and Ceil(lat*1e10)/1e10 for non-positive input (cut toward zero) and the |lat| limit test on the stored value dominates the store")
	ke := kindsFor(w)
	var lonF, latF, altF *types.Var
	for fv, k := range ke.fieldK {
		if fv.Pkg() == nil || fv.Pkg().Path() != modPath+"/common/object" {
			continue
		}
		switch k {
		case ks(kLON):
			lonF = fv
		case ks(kLAT):
			latF = fv
		case ks(kALT):
			if fv.Name() != "Alt" {
				altF = fv
			}
		}
	}
	if lonF == nil || latF == nil || altF == nil {
		r.add("FIELDGUARD", "object.Point fields", "?", Unresolved, "Point getters do not resolve to fields")
		return
	}
	writers := map[*types.Var][]*ssa.Store{}
	for _, f := range w.ModFuncs {
		if w.IsCanary(f) {
			continue
		}
		instrs(f, func(in ssa.Instruction) {
			st, ok := in.(*ssa.Store)
			if !ok {
				return
			}
			if fv, _, ok := fieldOf(st.Addr); ok && (fv == lonF || fv == latF || fv == altF) {
				writers[fv] = append(writers[fv], st)
			}
		})
	}
	for _, it := range []struct {
		fv   *types.Var
		name string
	}{{lonF, "longitude"}, {latF, "latitude"}, {altF, "altitude"}} {
		key := "object.Point / who writes " + it.name
		sts := writers[it.fv]
		bad := ""
		for _, st := range sts {
			g := st.Parent()
			if g.Signature.Recv() == nil || !tokenExported(g.Name()) || !strings.HasPrefix(g.Name(), "Set") || !isNamed(g.Signature.Recv().Type(), "common/object", "Point") {
				bad = "written outside the Point setters, in " + w.FuncName(g) + " (" + w.Pos(st.Pos()) + ")"
			}
		}
		if len(sts) == 0 {
			bad = "no setter writes the field"
		}
		if bad != "" {
			// not by itself wrong (a constructor may store validated values): the guard table decides validation
			r.add("FIELDGUARD", key, "-", Undecided, bad)
		} else {
			r.add("FIELDGUARD", key, w.Pos(sts[0].Pos()), Discharged, fmt.Sprintf("%d store(s), all inside exported Point setters", len(sts)))
		}
		for i, st := range sts {
			g := st.Parent()
			k2 := fmt.Sprintf("object.Point / stored %s#%d", it.name, i+1)
			if it.fv != latF {
				isSetter := g.Signature.Recv() != nil && strings.HasPrefix(g.Name(), "Set")
				_, isParam := resolve(st.Val).(*ssa.Parameter)
				switch {
				case isSetter && paramIndex(g, resolve(st.Val)) == 1, !isSetter && isParam:
					r.add("FIELDGUARD", k2, w.Pos(st.Pos()), Discharged, "a parameter is stored unchanged")
				case isSetter && isArithOn(resolve(st.Val), g.Params[len(g.Params)-1]):
					r.add("FIELDGUARD", k2, w.Pos(st.Pos()), Violated, "the stored "+it.name+" is computed from the setter's parameter instead of being the parameter itself ("+describeValue(st.Val)+")")
				case isSetter && changedThroughHelper(w, resolve(st.Val), g.Params[len(g.Params)-1]) != "":
					r.add("FIELDGUARD", k2, w.Pos(st.Pos()), Violated, "the stored "+it.name+" is not the setter's parameter itself: "+changedThroughHelper(w, resolve(st.Val), g.Params[len(g.Params)-1]))
				default:
					r.add("FIELDGUARD", k2, w.Pos(st.Pos()), Undecided, "the stored "+it.name+" is not recognisably a parameter of "+w.FuncName(g)+" ("+describeValue(st.Val)+")")
				}
				continue
			}
			// latitude: phi(Floor-form, Ceil-form) selected by the sign of the parameter
			lst, why := latTruncShape(w, g, st)
			r.add("FIELDGUARD", k2, w.Pos(st.Pos()), lst, why)
		}
	}
}

func roundForm(v ssa.Value, p ssa.Value) string {
	// (Floor|Ceil)(p * K) / K
	q, ok := resolve(v).(*ssa.BinOp)
	if !ok || q.Op != token.QUO {
		return ""
	}
	c, ok := resolve(q.X).(*ssa.Call)
	if !ok || calleeOf(c) == nil || pkgOf(calleeOf(c)) == nil || pkgOf(calleeOf(c)).Path() != "math" {
		return ""
	}
	m, ok := resolve(c.Call.Args[0]).(*ssa.BinOp)
	if !ok || m.Op != token.MUL || !(resolve(m.X) == p || resolve(m.Y) == p) {
		return ""
	}
	return calleeOf(c).Name()
}

func latTruncShape(w *World, g *ssa.Function, st *ssa.Store) (Status, string) {
	if len(g.Params) < 2 {
		return Undecided, "unexpected setter signature"
	}
	p := g.Params[1]
	stored := resolve(st.Val)
	how := ""
	if roundForm(stored, p) == "Trunc" {
		how = "math.Trunc(lat*1e10)/1e10 (cut toward zero for both signs)"
	} else {
		phi, ok := stored.(*ssa.Phi)
		if rf := roundForm(stored, p); !ok && rf != "" {
			return Violated, fmt.Sprintf("the stored latitude is rounded with math.%s for both signs: it must be cut toward zero (Floor for positive, Ceil for negative input, or Trunc)", rf)
		}
		if !ok {
			return Undecided, "the stored latitude is neither math.Trunc(lat*K)/K nor a Floor form / Ceil form selected by the sign of the input (" + describeValue(st.Val) + ")"
		}
		inf := math.Inf(1)
		for _, reg := range []struct {
			lo, hi float64
			want   string
		}{{1e-300, inf, "Floor"}, {-inf, -1e-300, "Ceil"}} {
			c := &simCtx{e: scFor(w), f: g, sc: scenario{Kind: scRegion, Param: 1, Lo: reg.lo, Hi: reg.hi}}
			v, uniq := phiValueUnder(g, phi, c.oracle)
			if !uniq {
				return Undecided, "the rounding direction is not selected by the sign of the latitude parameter"
			}
			got := roundForm(v, p)
			if got != reg.want && got != "Trunc" {
				sign := "positive"
				if reg.want == "Ceil" {
					sign = "negative"
				}
				if got == "" {
					return Undecided, fmt.Sprintf("for %s latitudes the rounding of the stored value was not recognised", sign)
				}
				return Violated, fmt.Sprintf("for %s latitudes the stored value is rounded with %q, %s(lat*1e10)/1e10 is required (cut toward zero)", sign, got, reg.want)
			}
		}
		how = "Floor for positive, Ceil for negative input"
	}
	// the limit test on the stored value dominates the store: |v| > L, or v > L and v < -L
	const L = 85.0511287798
	absGuard, hiGuard, loGuard := false, false, false
	for _, blk := range g.Blocks {
		t, fl, ifi := ifSuccs(blk)
		if ifi == nil {
			continue
		}
		c, ok := ifi.Cond.(*ssa.BinOp)
		if !ok {
			continue
		}
		pass := fl
		op := c.Op
		x, y := c.X, c.Y
		if k, isK := constFloat(x); isK {
			_ = k
			x, y = y, x
			op = flipOp(op)
		}
		k, isK := constFloat(y)
		if !isK {
			continue
		}
		switch op {
		case token.GTR, token.LSS:
		case token.LEQ:
			op, pass = token.GTR, t
		case token.GEQ:
			op, pass = token.LSS, t
		default:
			continue
		}
		dom := pass == st.Block() || blockDominatedByEdge(g, blk, pass, st.Block())
		if !dom {
			continue
		}
		if ac, isCall := resolve(x).(*ssa.Call); isCall && calleeIs(ac, "math", "Abs") && resolve(ac.Call.Args[0]) == stored && op == token.GTR && math.Abs(k-L) < 1e-12 {
			absGuard = true
		}
		if resolve(x) == stored {
			if op == token.GTR && math.Abs(k-L) < 1e-12 {
				hiGuard = true
			}
			if op == token.LSS && math.Abs(k+L) < 1e-12 {
				loGuard = true
			}
		}
	}
	if !(absGuard || (hiGuard && loGuard)) {
		return Undecided, "the store was not seen to be dominated by the passing side of the limit test |stored value| <= 85.0511287798 (the guard table decides that out-of-range latitudes fail)"
	}
	return Discharged, how + "; limit test on the stored value dominates the store"
}

// ---------------------------------------------------------------- C18 projection

func ruleProjection(w *World, r *Report, fn string, forward bool) {
	f := lookupByName(w, fn)
	if f == nil {
		r.add("PASSTHRU", fn, "?", Unresolved, "function not found")
		return
	}
	pos := w.Pos(f.Pos())
	loop := loopOverParam(f, 0)
	if loop == nil {
		r.add("PASSTHRU", fn+" / loop", pos, Undecided, "no loop over the input list")
		return
	}
	// the transform: dynamic call whose function value is the result of wgs84.SafeTransform(a, b),
	// created in place or by a private helper whose parameters are the two CRS codes
	var tcall *ssa.Call
	var maker *ssa.Call
	var helperCall *ssa.Call // call of the private helper in f (nil when the maker is in f)
	instrs(f, func(in ssa.Instruction) {
		c, ok := in.(*ssa.Call)
		if !ok || c.Common().StaticCallee() != nil || builtinName(c) != "" || c.Common().IsInvoke() {
			return
		}
		mk, ok := resolve(c.Common().Value).(*ssa.Call)
		if !ok || calleeOf(mk) == nil || pkgOf(calleeOf(mk)) == nil {
			return
		}
		if pkgOf(calleeOf(mk)).Path() == "github.com/wroge/wgs84" {
			tcall, maker = c, mk
			return
		}
		if h := calleeOf(mk); w.InModule(h) && h.Blocks != nil {
			for _, ret := range returnsOf(h) {
				if inner, ok := resolve(ret.Results[0]).(*ssa.Call); ok && calleeOf(inner) != nil && pkgOf(calleeOf(inner)) != nil && pkgOf(calleeOf(inner)).Path() == "github.com/wroge/wgs84" {
					tcall, maker, helperCall = c, inner, mk
				}
			}
		}
	})
	if tcall == nil {
		r.add("CRS-ARGS", fn+" / transform", pos, Info, "no call of a wgs84 transform could be located in this function (no verdict)")
		return
	}
	if calleeOf(maker).Name() != "SafeTransform" {
		r.add("ERRUSED", fn+" / safe variant", w.Pos(maker.Pos()), Violated, "the transform is created with wgs84."+calleeOf(maker).Name()+": only SafeTransform reports an unknown EPSG code as an error")
	} else {
		r.add("ERRUSED", fn+" / safe variant", w.Pos(maker.Pos()), Discharged, "wgs84.SafeTransform (reports unknown CRS as error)")
	}
	// CRS arguments
	geo := int64(0)
	if p := w.PkgByRel["common/consts"]; p != nil {
		if c, ok := p.Types.Scope().Lookup("GeoCrs").(*types.Const); ok {
			geo, _ = constant.Int64Val(c.Val())
		}
	}
	codeArg := func(v ssa.Value) (isGeo bool, isParam bool) {
		c, ok := resolve(v).(*ssa.Call)
		if !ok || calleeOf(c) == nil || calleeOf(c).Name() != "Code" || len(c.Call.Args) != 2 {
			return false, false
		}
		arg := resolve(c.Call.Args[1])
		if helperCall != nil {
			// the code is a parameter of the helper: map it to the helper call's argument in f
			if pi := paramIndex(calleeOf(helperCall), arg); pi >= 0 && pi < len(helperCall.Call.Args) {
				arg = resolve(helperCall.Call.Args[pi])
			}
		}
		if k, ok := constInt(arg); ok && k == geo && geo != 0 {
			return true, false
		}
		if arg == ssa.Value(f.Params[1]) {
			return false, true
		}
		return false, false
	}
	g0, p0 := codeArg(maker.Call.Args[0])
	g1, p1 := codeArg(maker.Call.Args[1])
	okCrs := (forward && g0 && p1) || (!forward && p0 && g1)
	if okCrs {
		r.add("CRS-ARGS", fn+" / direction", w.Pos(maker.Pos()), Discharged, map[bool]string{true: "EPSG:4326 -> requested CRS", false: "requested CRS -> EPSG:4326"}[forward])
	} else if (g0 || p0) && (g1 || p1) {
		// both codes recognised, wrong way round or the same code twice
		r.add("CRS-ARGS", fn+" / direction", w.Pos(maker.Pos()), Violated, "the transform is not built from (Code(consts.GeoCrs), Code(projectedCrs)) in the documented direction")
	} else {
		r.add("CRS-ARGS", fn+" / direction", w.Pos(maker.Pos()), Undecided, "the two CRS codes handed to the transform were not both recognised")
	}
	// error handling of the transform
	ee := extractOf(tcall, 3)
	okErr := false
	if ee != nil && hasRealReferrer(ee) && errTested(f, scFor(w), ee) {
		okErr = true
	}
	codeOK, otherCode := false, ""
	if p := w.PkgByRel["common/errors"]; p != nil {
		if c, ok := p.Types.Scope().Lookup("ValueConvertErrorCode").(*types.Const); ok {
			want := constant.StringVal(c.Val())
			for _, ret := range returnsOf(f) {
				if classifyReturn(f, ret) != retError || !loop.blocks()[ret.Block()] {
					continue
				}
				if ec, ok := resolve(ret.Results[1]).(*ssa.Call); ok && calleeIs(ec, modPath+"/common/errors", "NewSpatialIdError") {
					if s, ok := constString(ec.Call.Args[0]); ok && s == want {
						codeOK = true
					} else if ok {
						otherCode = s
					}
				}
			}
		}
	}
	dropped := ee == nil || !hasRealReferrer(ee)
	switch {
	case okErr && codeOK:
		r.add("ERRUSED", fn+" / transform error", w.Pos(tcall.Pos()), Discharged, "the transform's error is tested in every iteration and mapped to ValueConvertErrorCode")
	case dropped:
		r.add("ERRUSED", fn+" / transform error", w.Pos(tcall.Pos()), Violated, "the transform's error result is discarded: an unknown EPSG code or a point outside the CRS area yields coordinates without an error")
	case otherCode != "" && !codeOK:
		r.add("ERRUSED", fn+" / transform error", w.Pos(tcall.Pos()), Violated, "a failed transform is reported with error code "+otherCode+" instead of the value-conversion error")
	default:
		// carried in a variable to a single exit, wrapped by a helper, a sentinel: not followed
		r.add("ERRUSED", fn+" / transform error", w.Pos(tcall.Pos()), Undecided, fmt.Sprintf("the transform's error is used, but it was not recognised as tested in place (%v) and reported as the value-conversion error (%v)", okErr, codeOK))
	}
	// transform inputs come from this iteration's element
	elemOf := func(v ssa.Value) bool {
		v = resolve(v)
		if c, ok := v.(*ssa.Call); ok && calleeOf(c) != nil && accessorField(calleeOf(c)) != nil && len(c.Call.Args) == 1 {
			return loop.isElem(resolve(c.Call.Args[0])) || isLoadOfElem(loop, c.Call.Args[0])
		}
		if ld, ok := loadOf(v); ok {
			if fa, ok := ld.(*ssa.FieldAddr); ok {
				return loop.isElem(resolve(fa.X)) || isLoadOfElem(loop, fa.X)
			}
		}
		return false
	}
	// outputs
	x, y := ssa.Value(extractOf(tcall, 0)), ssa.Value(extractOf(tcall, 1))
	ke := kindsFor(w)
	if forward {
		// appended element: &ProjectedPoint{X: x, Y: y, Alt: p.Alt()}
		var stX, stY, stA ssa.Value
		instrs(f, func(in ssa.Instruction) {
			st, ok := in.(*ssa.Store)
			if !ok {
				return
			}
			if fv, _, ok := fieldOf(st.Addr); ok {
				switch ke.fieldK[fv] {
				case ks(kPX):
					stX = st.Val
				case ks(kPY):
					stY = st.Val
				case ks(kALT):
					if fv.Name() == "Alt" {
						stA = st.Val
					}
				}
			}
		})
		if stX != nil && stY != nil && resolve(stX) == x && resolve(stY) == y {
			r.add("PASSTHRU", fn+" / coordinates", pos, Discharged, "X and Y are the transform's first two results, unmodified")
		} else {
			r.add("PASSTHRU", fn+" / coordinates", pos, Violated, "the stored X/Y are not exactly the transform's first two results (clamped, swapped or recomputed)")
		}
		altOK := false
		if stA != nil {
			if c, ok := resolve(stA).(*ssa.Call); ok && calleeOf(c) != nil {
				if fv := accessorField(calleeOf(c)); fv != nil && ke.fieldK[fv] == ks(kALT) && elemOf(c) {
					altOK = true
				}
			}
		}
		if altOK {
			r.add("PASSTHRU", fn+" / altitude", pos, Discharged, "Alt is this element's Alt(), not the transformed height")
		} else {
			r.add("PASSTHRU", fn+" / altitude", pos, Violated, "the stored altitude is not the Alt() of the same input element (bit-for-bit carry-over required)")
		}
	} else {
		np := callsTo(f, func(g *ssa.Function) bool { return funcIs(g, modPath+"/common/object", "NewPoint") })
		if len(np) == 1 && resolve(np[0].Call.Args[0]) == x && resolve(np[0].Call.Args[1]) == y {
			r.add("PASSTHRU", fn+" / coordinates", pos, Discharged, "NewPoint receives the transform's first two results, unmodified")
		} else {
			r.add("PASSTHRU", fn+" / coordinates", pos, Violated, "NewPoint does not receive exactly the transform's first two results")
		}
		if len(np) == 1 && elemOf(np[0].Call.Args[2]) {
			r.add("PASSTHRU", fn+" / altitude", pos, Discharged, "NewPoint receives this element's Alt field, not the transformed height")
		} else {
			r.add("PASSTHRU", fn+" / altitude", pos, Violated, "the altitude handed to NewPoint is not the Alt field of the same input element")
		}
	}
	// the transform's inputs are this element's coordinates
	okIn := true
	for i := 0; i < 3 && i < len(tcall.Call.Args); i++ {
		if !elemOf(tcall.Call.Args[i]) {
			okIn = false
		}
	}
	if okIn {
		r.add("PASSTHRU", fn+" / transform inputs", w.Pos(tcall.Pos()), Discharged, "the transform is applied to the coordinates of this iteration's element")
	} else {
		r.add("PASSTHRU", fn+" / transform inputs", w.Pos(tcall.Pos()), Violated, "the transform is not applied to the coordinates of this iteration's element")
	}
}

func isLoadOfElem(loop *sliceRange, v ssa.Value) bool {
	v = resolve(v)
	if ld, ok := loadOf(v); ok {
		return loop.isElem(resolve(ld)) || loop.isElem(ld)
	}
	return false
}

// ---------------------------------------------------------------- C20 helpers

func ruleEmptyGuard(w *World, r *Report) {
	r.Rule("EMPTYGUARD", "Max, Min, MaxPoint and MinPoint reject an empty list before touching element 0: under the scenario len(list) == 0 only failure returns are reachable and no index into the list is reachable")
	e := scFor(w)
	for _, fn := range []string{"common.Max", "common.Min", "common/spatial.MaxPoint", "common/spatial.MinPoint"} {
		f := lookupByName(w, fn)
		if f == nil {
			r.add("EMPTYGUARD", fn, "?", Unresolved, "function not found")
			continue
		}
		bad := ""
		if st, why := e.checkTwoPass(f, scenario{Kind: scEmpty, Param: 0}); st == Violated {
			bad = why
		} else if st == Undecided {
			r.add("EMPTYGUARD", fn, w.Pos(f.Pos()), Undecided, why)
			continue
		}
		if bad != "" {
			r.add("EMPTYGUARD", fn, w.Pos(f.Pos()), Violated, bad)
		} else {
			r.add("EMPTYGUARD", fn, w.Pos(f.Pos()), Discharged, "empty input leads to the input-value error before any element access")
		}
	}
}

// ruleSetOps: Difference / Intersect / Include / Unique / Union compute the
// set-expression term of the operation they are named after (setexpr.go).
func ruleSetOps(w *World, r *Report) {
	r.Rule("SETOP-SHAPE", "the set-expression term derived from the SSA form of each helper equals the definition of the operation it is named after: Unique = keys(set{P0}); Union = keys(set{P0,P1}); Difference = filter(P0, miss, set{P1}); Intersect = filter(Pa, hit, set{Pb}); Include = contains(P0, x1) -- built from total insertion loops, key-collection loops, membership-guarded appends and the slices/maps helpers, through module helpers; a loop over an argument with an early exit (elements skipped) is a violation")
	e := &sxEngine{w: w, busy: map[string]bool{}}
	want := map[string][]string{
		"common.Unique":     {"keys(set{P0})"},
		"common.Union":      {"keys(set{P0,P1})"},
		"common.Difference": {"filter(P0,miss,set{P1})"},
		"common.Intersect":  {"filter(P1,hit,set{P0})", "filter(P0,hit,set{P1})"},
		"common.Include":    {"contains(P0,x1)"},
	}
	for _, fn := range []string{"common.Unique", "common.Union", "common.Difference", "common.Intersect", "common.Include"} {
		f := lookupByName(w, fn)
		if f == nil {
			r.add("SETOP-SHAPE", fn, "?", Unresolved, "function not found")
			continue
		}
		pos := w.Pos(f.Pos())
		env := map[*ssa.Parameter]string{}
		for i, p := range f.Params {
			if _, ok := p.Type().Underlying().(*types.Slice); ok {
				env[p] = fmt.Sprintf("P%d", i)
			}
		}
		// positive evidence first: a scan of an argument that can stop early
		if fn != "common.Include" {
			early := ""
			for _, sr := range findSliceRanges(f) {
				if _, isP := resolve(sr.X).(*ssa.Parameter); isP && !totalLoop(sr.blocks(), sr.Header) {
					early = "the scan of " + describeValue(sr.X) + " is not a total loop (an early exit skips elements)"
				}
			}
			for _, mr := range findMapRanges(f) {
				if !totalLoop(mr.blocks(), mr.Header) {
					early = "the collection of the map's keys is not a total loop (an early exit skips elements)"
				}
			}
			if early != "" {
				r.add("SETOP-SHAPE", fn, pos, Violated, early)
				continue
			}
		}
		term := ""
		n := 0
		for _, ret := range returnsOf(f) {
			n++
			var t string
			if fn == "common.Include" {
				t = e.boolean(f, ret.Results[0], env, 0)
			} else {
				t = e.list(f, ret.Results[0], env, 0)
			}
			if n > 1 && t != term {
				t = ""
			}
			term = t
		}
		if fn == "common.Include" && term == "" {
			term = e.scanContains(f, env)
		}
		ok := false
		for _, wnt := range want[fn] {
			if term == wnt {
				ok = true
			}
		}
		switch {
		case ok:
			r.add("SETOP-SHAPE", fn, pos, Discharged, "computes "+term)
		case term == "":
			r.add("SETOP-SHAPE", fn, pos, Undecided, "no set-expression term could be derived for the result (unrecognised construction)")
		default:
			r.add("SETOP-SHAPE", fn, pos, Violated, "computes "+term+", the operation is defined as "+strings.Join(want[fn], " or "))
		}
	}
}

// holdsAllOf: the slice value contains every element of parameter p
// (p itself, slices.Concat(..., p, ...), or append chains spreading p).
func holdsAllOf(v ssa.Value, p *ssa.Parameter, depth int) bool {
	v = resolve(v)
	if depth > 5 {
		return false
	}
	if v == ssa.Value(p) {
		return true
	}
	c, ok := v.(*ssa.Call)
	if !ok {
		return false
	}
	if builtinName(c) == "append" {
		if holdsAllOf(c.Call.Args[0], p, depth+1) {
			return true
		}
		_, spread := appendedElems(c)
		return spread != nil && holdsAllOf(spread, p, depth+1)
	}
	if g := calleeOf(c); g != nil && pkgOf(g) != nil && pkgOf(g).Path() == "slices" {
		name := g.Name()
		if o := g.Origin(); o != nil {
			name = o.Name()
		}
		if name == "Concat" {
			for _, a := range c.Call.Args {
				if vals, ok := sliceLiteral(a); ok {
					for _, e := range vals {
						if holdsAllOf(e, p, depth+1) {
							return true
						}
					}
				}
				if holdsAllOf(a, p, depth+1) {
					return true
				}
			}
		}
	}
	return false
}

func everyIterationPassesInstr(sr *sliceRange, pred func(ssa.Instruction) bool) (bool, int) {
	stop := map[*ssa.BasicBlock]bool{}
	n := 0
	for b := range sr.blocks() {
		for _, in := range b.Instrs {
			if pred(in) {
				stop[b] = true
				n++
			}
		}
	}
	if n == 0 {
		return false, 0
	}
	reach := simulate(sr.Body, stop, func(ssa.Value) (bool, bool) { return false, false })
	return !reach[sr.Header], n
}

// ruleMatMul: index pattern of Matrix3.Mul and MulVec.
func ruleMatMul(w *World, r *Report) {
	r.Rule("MATMUL-INDEX", "each cell out[i][j] of Matrix3.Mul is the sum of exactly the three products a[i][k]*b[k][j], k = 0..2, and component i of MulVec is the sum of v[k]*a[i][k] (indices read off the SSA; any association or commutation of the sum is accepted)")
	f := lookupByName(w, "common/spatial.(Matrix3).Mul")
	if f == nil {
		r.add("MATMUL-INDEX", "common/spatial.(Matrix3).Mul", "?", Unresolved, "function not found")
		return
	}
	// leaf: load of IndexAddr(IndexAddr(X, i), j) where X is the local copy of param p
	leaf := func(g *ssa.Function, v ssa.Value) (p int, i, j int64, ok bool) {
		ld, isLd := loadOf(resolve2(v))
		if !isLd {
			return
		}
		in, isIA := ld.(*ssa.IndexAddr)
		if !isIA {
			return
		}
		jj, ok1 := constInt(in.Index)
		out, isIA2 := in.X.(*ssa.IndexAddr)
		if !isIA2 || !ok1 {
			return
		}
		ii, ok2 := constInt(out.Index)
		if !ok2 {
			return
		}
		base := out.X
		if al, isAl := base.(*ssa.Alloc); isAl {
			if s := singleStoreAny(al); s != nil {
				base = s
			}
		}
		pi := paramIndex(g, base)
		if pi < 0 {
			return
		}
		return pi, ii, jj, true
	}
	var terms func(v ssa.Value) []ssa.Value
	terms = func(v ssa.Value) []ssa.Value {
		if b, ok := resolve2(v).(*ssa.BinOp); ok && b.Op == token.ADD {
			return append(terms(b.X), terms(b.Y)...)
		}
		return []ssa.Value{v}
	}
	cells := 0
	instrs(f, func(in ssa.Instruction) {
		st, ok := in.(*ssa.Store)
		if !ok {
			return
		}
		ia, ok := st.Addr.(*ssa.IndexAddr)
		if !ok {
			return
		}
		j, ok1 := constInt(ia.Index)
		oa, ok2 := ia.X.(*ssa.IndexAddr)
		if !ok1 || !ok2 {
			return
		}
		i, ok3 := constInt(oa.Index)
		if !ok3 {
			return
		}
		if _, isAlloc := oa.X.(*ssa.Alloc); !isAlloc {
			return
		}
		cells++
		key := fmt.Sprintf("common/spatial.(Matrix3).Mul / cell [%d][%d]", i, j)
		seen := map[int64]bool{}
		bad := ""
		ts := terms(st.Val)
		for _, t := range ts {
			m, ok := resolve2(t).(*ssa.BinOp)
			if !ok || m.Op != token.MUL {
				bad = "a term is not a product"
				break
			}
			p1, i1, j1, ok1 := leaf(f, m.X)
			p2, i2, j2, ok2 := leaf(f, m.Y)
			if !ok1 || !ok2 {
				bad = "a factor is not a matrix element"
				break
			}
			if p1 == 1 && p2 == 0 {
				p1, i1, j1, p2, i2, j2 = p2, i2, j2, p1, i1, j1
			}
			if !(p1 == 0 && p2 == 1 && i1 == i && j2 == j && j1 == i2) {
				bad = fmt.Sprintf("term a[%d][%d]*b[%d][%d] does not fit cell [%d][%d]", i1, j1, i2, j2, i, j)
				break
			}
			seen[j1] = true
		}
		if bad == "" && !(len(ts) == 3 && seen[0] && seen[1] && seen[2]) {
			bad = "the cell is not the sum over k = 0, 1, 2"
		}
		if bad != "" {
			r.add("MATMUL-INDEX", key, w.Pos(st.Pos()), Violated, bad)
		} else {
			r.add("MATMUL-INDEX", key, w.Pos(st.Pos()), Discharged, "sum over k of a[i][k]*b[k][j]")
		}
	})
	if cells != 9 {
		r.add("MATMUL-INDEX", "common/spatial.(Matrix3).Mul / cells", w.Pos(f.Pos()), Undecided, fmt.Sprintf("expected 9 constant-index cell stores, found %d", cells))
	}
}

func resolve2(v ssa.Value) ssa.Value { return stripConv(v) }

// ---------------------------------------------------------------- FOLD-EXACT (C01)

// ruleFoldExact: longitude 180 (and only 180) is folded onto -180: the branch
// that replaces the longitude by its negation is controlled by an exact
// comparison of the longitude with the constant 180 (== or >=), not by a
// tolerance test.
func ruleFoldExact(w *World, r *Report, cl map[*ssa.Function]bool) {
	r.Rule("FOLD-EXACT", "in the point lookup the antimeridian fold (longitude replaced by its negation) is controlled by an exact comparison lon == 180 (or lon >= 180) on the longitude itself: a tolerance test folds longitudes just below 180 into column 0")
	ke := kindsFor(w)
	n := 0
	for _, f := range sortedFuncSet(w, cl) {
		if f.Blocks == nil || f.Synthetic != "" {
			continue
		}
		instrs(f, func(in ssa.Instruction) {
			p, ok := in.(*ssa.Phi)
			if !ok || !isFloatType(p.Type()) || len(p.Edges) != 2 {
				return
			}
			// phi(lon, -lon | -180)
			altIdx := -1
			for i := 0; i < 2; i++ {
				self, alt := p.Edges[1-i], p.Edges[i]
				a := ke.Eval(self)
				if a == nil || a.Scalar != ks(kLON) {
					continue
				}
				if k, isK := constFloat(alt); isK && k == -180 {
					altIdx = i
				}
				if u, isU := alt.(*ssa.UnOp); isU && u.Op == token.SUB && resolve(u.X) == resolve(self) {
					altIdx = i
				}
			}
			if altIdx < 0 {
				return
			}
			self := p.Edges[1-altIdx]
			n++
			key := fmt.Sprintf("%s / longitude fold#%d", w.FuncName(f), n)
			status, detail := Info, "the condition controlling the fold could not be located"
			altPred := p.Block().Preds[altIdx]
			for _, blk := range f.Blocks {
				t, fl, ifi := ifSuccs(blk)
				if ifi == nil || t == fl {
					continue
				}
				var side *ssa.BasicBlock
				switch {
				case t == altPred || (blk == altPred && t == p.Block()):
					side = t
				case fl == altPred || (blk == altPred && fl == p.Block()):
					side = fl
				default:
					continue
				}
				c, isCmp := ifi.Cond.(*ssa.BinOp)
				if !isCmp {
					status, detail = Violated, "the fold is controlled by "+describeValue(ifi.Cond)+", not by an exact comparison of the longitude with 180"
					continue
				}
				k, isK := constFloat(c.Y)
				lon := resolve(c.X) == resolve(self)
				exact := (side == t && (c.Op == token.EQL || c.Op == token.GEQ)) || (side == fl && (c.Op == token.NEQ || c.Op == token.LSS))
				if lon && isK && k == 180 && exact {
					status, detail = Discharged, "fold guarded by an exact comparison with 180"
				} else {
					status, detail = Violated, "the fold is controlled by "+shortInstr(c)+", not by an exact comparison of the longitude with 180"
				}
			}
			r.add("FOLD-EXACT", key, w.Pos(p.Pos()), status, detail)
		})
	}
	if n == 0 {
		r.add("FOLD-EXACT", "point lookup", "-", Info, "no negation of a longitude found in the closure")
	}
}

// listVariants flattens a list expression built from common.Unique,
// common.Union, slices.Concat and spread appends into its alternative
// variants (one per choice at a phi that merges different lists); each
// variant is the list of leaf operands whose union it is.  Loop accumulators
// (a phi that feeds its own append chain) are leaves.
func listVariants(w *World, v ssa.Value, depth int) [][]ssa.Value {
	v = resolve(v)
	if depth > 6 {
		return [][]ssa.Value{{v}}
	}
	cross := func(as, bs [][]ssa.Value) [][]ssa.Value {
		var out [][]ssa.Value
		for _, a := range as {
			for _, b := range bs {
				out = append(out, append(append([]ssa.Value{}, a...), b...))
			}
		}
		return out
	}
	switch x := v.(type) {
	case *ssa.Const:
		if x.Value == nil {
			return [][]ssa.Value{{}}
		}
	case *ssa.Phi:
		if isAccumulatorPhi(x) {
			return [][]ssa.Value{{x}}
		}
		var out [][]ssa.Value
		for _, e := range x.Edges {
			out = append(out, listVariants(w, e, depth+1)...)
		}
		return out
	case *ssa.Call:
		if calleeIs(x, modPath+"/common", "Unique") && len(x.Call.Args) == 1 {
			return listVariants(w, x.Call.Args[0], depth+1)
		}
		if calleeIs(x, modPath+"/common", "Union") && len(x.Call.Args) == 2 {
			return cross(listVariants(w, x.Call.Args[0], depth+1), listVariants(w, x.Call.Args[1], depth+1))
		}
		if parts := concatParts(x); parts != nil {
			out := [][]ssa.Value{{}}
			for _, p := range parts {
				out = cross(out, listVariants(w, p, depth+1))
			}
			return out
		}
		if builtinName(x) == "append" {
			if _, spread := appendedElems(x); spread != nil && !reachesItself(x) {
				return cross(listVariants(w, x.Call.Args[0], depth+1), listVariants(w, spread, depth+1))
			}
		}
	}
	if isEmptySliceBase(v) {
		return [][]ssa.Value{{}}
	}
	return [][]ssa.Value{{v}}
}

// isAccumulatorPhi: the phi is a loop-carried list: one of its edges is an
// append chain that starts from the phi itself.
// ruleVerdictOverwrite: a membership table (map keyed by ID) that is seeded with the line's
// IDs and then assigned a non-constant verdict for every element of the neighbourhood box.
// The box around the line contains voxels of the line itself (each is a neighbour of the
// next), so without a test of the existing entry the seeded "in" is overwritten by the
// measured verdict and a line voxel can drop out of the result.
func ruleVerdictOverwrite(w *World, r *Report, f *ssa.Function, fn string, isLine func(ssa.Value) bool) {
	var box ssa.Value
	instrs(f, func(in ssa.Instruction) {
		c, ok := in.(*ssa.Call)
		if ok && calleeIs(c, modPath+"/operated", "GetNspatialIdsAroundVoxcels") && len(c.Call.Args) > 0 && isLine(c.Call.Args[0]) {
			if ex := extractOf(c, 0); ex != nil {
				box = ex
			}
		}
	})
	if box == nil {
		return
	}
	elemOf := func(list func(ssa.Value) bool, v ssa.Value) bool {
		for _, sr := range findSliceRanges(f) {
			if list(sr.X) && sr.isElem(resolve(v)) {
				return true
			}
		}
		return false
	}
	isBox := func(v ssa.Value) bool { return resolve(v) == box }
	type upd struct {
		mu *ssa.MapUpdate
	}
	seeded := map[ssa.Value]bool{}
	var verdicts []*ssa.MapUpdate
	instrs(f, func(in ssa.Instruction) {
		mu, ok := in.(*ssa.MapUpdate)
		if !ok {
			return
		}
		if elemOf(isLine, mu.Key) {
			seeded[resolve(mu.Map)] = true
		}
		if elemOf(isBox, mu.Key) {
			if _, isConst := resolve(mu.Value).(*ssa.Const); !isConst {
				verdicts = append(verdicts, mu)
			}
		}
	})
	n := 0
	for _, mu := range verdicts {
		m := resolve(mu.Map)
		if !seeded[m] {
			continue
		}
		// a test of the existing entry (or of any map) under the same key in front of the update
		guarded := false
		instrs(f, func(in ssa.Instruction) {
			lk, ok := in.(*ssa.Lookup)
			if !ok || !isMapType(lk.X.Type()) {
				return
			}
			if resolve(lk.Index) == resolve(mu.Key) && (lk.Block() == mu.Block() || lk.Block().Dominates(mu.Block())) {
				guarded = true
			}
		})
		if guarded {
			continue
		}
		n++
		r.add("INCLUDES", fmt.Sprintf("%s / membership table#%d", fn, n), w.Pos(mu.Pos()), Violated, "a table seeded with the line's IDs is assigned a computed verdict for every voxel of the neighbourhood box without a test of the existing entry ("+shortInstr(mu)+"): the box around the line contains voxels of the line, whose entry is overwritten, so a line voxel can drop out of the result")
	}
}

func isMapType(t types.Type) bool {
	_, ok := t.Underlying().(*types.Map)
	return ok
}

// fedFromMap: some element appended to the accumulator comes out of a map iteration (the
// keys of a set built elsewhere: what that set holds is not visible in the list).
func fedFromMap(p *ssa.Phi) bool {
	ai := appendChain(p)
	for _, ap := range ai.Appends {
		elems, spread := appendedElems(ap)
		if spread != nil {
			elems = append(elems, spread)
		}
		for _, el := range elems {
			if ex, ok := resolve(el).(*ssa.Extract); ok {
				if _, isNext := ex.Tuple.(*ssa.Next); isNext {
					return true
				}
			}
		}
	}
	return false
}

func isAccumulatorPhi(p *ssa.Phi) bool {
	for _, e := range p.Edges {
		seen := map[ssa.Value]bool{}
		var walk func(v ssa.Value) bool
		walk = func(v ssa.Value) bool {
			v = stripConv(v)
			if seen[v] {
				return false
			}
			seen[v] = true
			if v == ssa.Value(p) {
				return true
			}
			switch y := v.(type) {
			case *ssa.Phi:
				for _, e2 := range y.Edges {
					if walk(e2) {
						return true
					}
				}
			case *ssa.Call:
				if builtinName(y) == "append" {
					return walk(y.Call.Args[0])
				}
			}
			return false
		}
		if walk(e) {
			return true
		}
	}
	return false
}

// reachesItself: the append is part of a loop-carried accumulation.
func reachesItself(c *ssa.Call) bool {
	ai := appendChain(c)
	for _, b := range ai.Bases {
		_ = b
	}
	seen := map[ssa.Value]bool{}
	var walk func(v ssa.Value) bool
	walk = func(v ssa.Value) bool {
		v = stripConv(v)
		if seen[v] {
			return false
		}
		seen[v] = true
		switch y := v.(type) {
		case *ssa.Phi:
			for _, e := range y.Edges {
				if stripConv(e) == ssa.Value(c) || walk(e) {
					return true
				}
			}
		case *ssa.Call:
			if builtinName(y) == "append" {
				return walk(y.Call.Args[0])
			}
		}
		return false
	}
	return walk(c.Call.Args[0])
}

// isArithOn: v is arithmetic (or a math call) applied directly to p.
func isArithOn(v ssa.Value, p ssa.Value) bool {
	switch x := v.(type) {
	case *ssa.BinOp:
		return resolve(x.X) == p || resolve(x.Y) == p
	case *ssa.UnOp:
		return x.Op == token.SUB && resolve(x.X) == p
	case *ssa.Call:
		if g := calleeOf(x); g != nil && pkgOf(g) != nil && pkgOf(g).Path() == "math" {
			for _, a := range x.Call.Args {
				if resolve(a) == p {
					return true
				}
			}
		}
	}
	return false
}

// changedThroughHelper: positive evidence that v is not the parameter p itself:
// a phi that is p on some paths and a constant on others (a normalisation), or
// the result of a module helper applied to p that returns arithmetic on its
// argument (a truncation helper shared with another setter).
func changedThroughHelper(w *World, v ssa.Value, p ssa.Value) string {
	switch x := v.(type) {
	case *ssa.Phi:
		hasP, konst := false, ""
		for _, e := range x.Edges {
			if resolve(e) == p {
				hasP = true
			} else if k, ok := resolve(e).(*ssa.Const); ok {
				konst = k.String()
			}
		}
		if hasP && konst != "" {
			return "it is the parameter on some paths and the constant " + konst + " on others"
		}
	case *ssa.Call:
		g := calleeOf(x)
		if g == nil || !w.InModule(g) || g.Blocks == nil {
			return ""
		}
		pi := -1
		for i, a := range x.Call.Args {
			if resolve(a) == p {
				pi = i
			}
		}
		if pi < 0 || pi >= len(g.Params) {
			return ""
		}
		for _, ret := range returnsOf(g) {
			if len(ret.Results) == 0 {
				continue
			}
			rv := resolve(ret.Results[0])
			if rv == ssa.Value(g.Params[pi]) {
				continue
			}
			if isArithOn(rv, g.Params[pi]) || isArithOnDeep(rv, g.Params[pi], 0) {
				return "it goes through " + w.FuncName(g) + ", which returns " + describeValue(rv) + " computed from its argument"
			}
		}
	}
	return ""
}

func isArithOnDeep(v ssa.Value, p ssa.Value, d int) bool {
	if d > 4 {
		return false
	}
	v = resolve(v)
	if v == p {
		return d > 0
	}
	switch x := v.(type) {
	case *ssa.BinOp:
		return isArithOnDeep(x.X, p, d+1) || isArithOnDeep(x.Y, p, d+1)
	case *ssa.UnOp:
		return x.Op == token.SUB && isArithOnDeep(x.X, p, d+1)
	case *ssa.Call:
		if g := calleeOf(x); g != nil && pkgOf(g) != nil && pkgOf(g).Path() == "math" {
			for _, a := range x.Call.Args {
				if isArithOnDeep(a, p, d+1) {
					return true
				}
			}
		}
	}
	return false
}

// dependsOn: the value is computed from target -- directly, through
// arithmetic, phis and local variables, through the results of module helpers
// that receive it, or through closures that captured it (their bodies are
// searched for any use of the captured variable).
func dependsOn(w *World, v ssa.Value, target ssa.Value, depth int, seen map[ssa.Value]bool) bool {
	if v == nil || depth > 12 || seen[v] {
		return false
	}
	seen[v] = true
	if v == target || resolve(v) == target {
		return true
	}
	switch x := v.(type) {
	case *ssa.BinOp:
		return dependsOn(w, x.X, target, depth+1, seen) || dependsOn(w, x.Y, target, depth+1, seen)
	case *ssa.UnOp:
		if x.Op == token.MUL {
			if al, ok := x.X.(*ssa.Alloc); ok {
				for _, sv := range storesInto(al) {
					if dependsOn(w, sv, target, depth+1, seen) {
						return true
					}
				}
				return false
			}
		}
		return dependsOn(w, x.X, target, depth+1, seen)
	case *ssa.Convert:
		return dependsOn(w, x.X, target, depth+1, seen)
	case *ssa.ChangeType:
		return dependsOn(w, x.X, target, depth+1, seen)
	case *ssa.Extract:
		return dependsOn(w, x.Tuple, target, depth+1, seen)
	case *ssa.Phi:
		for _, e := range x.Edges {
			if dependsOn(w, e, target, depth+1, seen) {
				return true
			}
		}
	case *ssa.FieldAddr:
		return dependsOn(w, x.X, target, depth+1, seen)
	case *ssa.Field:
		return dependsOn(w, x.X, target, depth+1, seen)
	case *ssa.Lookup:
		return dependsOn(w, x.X, target, depth+1, seen) || dependsOn(w, x.Index, target, depth+1, seen)
	case *ssa.MakeClosure:
		fn, _ := x.Fn.(*ssa.Function)
		for i, b := range x.Bindings {
			if !bindingIs(b, target) {
				continue
			}
			// captured: used at all inside the closure?
			if fn != nil && i < len(fn.FreeVars) && fn.FreeVars[i].Referrers() != nil && len(*fn.FreeVars[i].Referrers()) > 0 {
				return true
			}
		}
	case *ssa.Call:
		for _, a := range x.Call.Args {
			if dependsOn(w, a, target, depth+1, seen) {
				return true
			}
		}
		// a closure value (possibly one of several assigned to a variable)
		if dependsOn(w, x.Call.Value, target, depth+1, seen) {
			return true
		}
	}
	return false
}

// bindingIs: the captured variable holds target (a parameter spilled into a cell).
func bindingIs(b ssa.Value, target ssa.Value) bool {
	if b == target {
		return true
	}
	if al, ok := b.(*ssa.Alloc); ok {
		for _, sv := range storesInto(al) {
			if sv == target || resolve(sv) == target {
				return true
			}
		}
	}
	return false
}

// unitCounterBoundedBy: phi counts 0, 1, 2, ... (initial value 0 from outside the
// loop, every other incoming value is phi+1) and the loop it heads tests
// phi < len(list): the positions of list are visited in order, none skipped.
func unitCounterBoundedBy(f *ssa.Function, phi *ssa.Phi, list ssa.Value) bool {
	hdr := phi.Block()
	zero := false
	for i, e := range phi.Edges {
		if k, isK := constInt(e); isK && k == 0 && !hdr.Dominates(hdr.Preds[i]) {
			zero = true
			continue
		}
		inc, ok := resolve(e).(*ssa.BinOp)
		if !ok || inc.Op != token.ADD || stripConv(inc.X) != ssa.Value(phi) {
			return false
		}
		if k, isK := constInt(inc.Y); !isK || k != 1 {
			return false
		}
	}
	if !zero {
		return false
	}
	for _, blk := range f.Blocks {
		_, _, ifi := ifSuccs(blk)
		if ifi == nil || !hdr.Dominates(blk) {
			continue
		}
		cmp, ok := ifi.Cond.(*ssa.BinOp)
		if !ok || cmp.Op != token.LSS || stripConv(cmp.X) != ssa.Value(phi) {
			continue
		}
		if lc, ok := resolve(cmp.Y).(*ssa.Call); ok && builtinName(lc) == "len" && sameValue(lc.Call.Args[0], list) {
			return true
		}
	}
	return false
}

// peeledTraversal: idx is either a constant position k or a unit counter that
// starts at a constant s > 0 and is tested against len(list), and together the
// constant positions used on list and the counter cover 0, 1, 2, ...: every
// position is visited, none selected.
func peeledTraversal(f *ssa.Function, list ssa.Value, idx ssa.Value) bool {
	consts := map[int64]bool{}
	start := int64(-1)
	instrs(f, func(in ssa.Instruction) {
		var b, i ssa.Value
		switch x := in.(type) {
		case *ssa.IndexAddr:
			b, i = x.X, x.Index
		case *ssa.Index:
			b, i = x.X, x.Index
		default:
			return
		}
		if !sameValue(b, list) {
			return
		}
		if k, ok := constInt(i); ok {
			consts[k] = true
			return
		}
		ph, ok := i.(*ssa.Phi)
		if !ok {
			return
		}
		hdr := ph.Block()
		s := int64(-1)
		for j, e := range ph.Edges {
			if k, isK := constInt(e); isK && !hdr.Dominates(hdr.Preds[j]) {
				s = k
				continue
			}
			inc, ok := resolve(e).(*ssa.BinOp)
			if !ok || inc.Op != token.ADD || stripConv(inc.X) != ssa.Value(ph) {
				return
			}
			if k, isK := constInt(inc.Y); !isK || k != 1 {
				return
			}
		}
		if s <= 0 {
			return
		}
		bounded := false
		for _, blk := range f.Blocks {
			_, _, ifi := ifSuccs(blk)
			if ifi == nil || !hdr.Dominates(blk) {
				continue
			}
			cmp, ok := ifi.Cond.(*ssa.BinOp)
			if !ok || cmp.Op != token.LSS || stripConv(cmp.X) != ssa.Value(ph) {
				continue
			}
			if lc, ok := resolve(cmp.Y).(*ssa.Call); ok && builtinName(lc) == "len" && sameValue(lc.Call.Args[0], list) {
				bounded = true
			}
		}
		if bounded {
			start = s
		}
	})
	if start <= 0 {
		return false
	}
	for k := int64(0); k < start; k++ {
		if !consts[k] {
			return false
		}
	}
	// idx itself is one of the covered positions
	if k, ok := constInt(idx); ok {
		return k < start
	}
	_, isPhi := idx.(*ssa.Phi)
	return isPhi
}
