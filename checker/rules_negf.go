package main

import (
	"fmt"
	"go/token"

	"golang.org/x/tools/go/ssa"
)

// NEGF: the vertical index is a signed quantity (a voxel below the reference height has a
// negative f at every zoom).  A test `f < 0` whose true side can only fail refuses all of
// them.  Only values whose kind is known to include the vertical index are looked at, and
// only tests against 0 / -1 whose negative side reaches nothing but failure returns.
func ruleNegF(w *World, r *Report, in map[*ssa.Function]bool) {
	r.Rule("NEGF", "no test of a vertical index against zero has a negative side that can only fail: negative vertical indices denote voxels below the reference height and are valid at every zoom")
	ke := kindsFor(w)
	e := scFor(w)
	n := 0
	for _, f := range w.ModFuncs {
		if f.Synthetic != "" || f.Blocks == nil {
			continue
		}
		can := w.IsCanary(f)
		if can && !containsAny(f.Name(), "canaryBadNegF", "canaryGoodNegF") {
			continue
		}
		if !can && in != nil && !in[f] {
			continue
		}
		name := w.FuncName(f)
		ord := 0
		for _, blk := range f.Blocks {
			t, fl, ifi := ifSuccs(blk)
			if ifi == nil {
				continue
			}
			c, ok := ifi.Cond.(*ssa.BinOp)
			if !ok {
				continue
			}
			// normalise to  subj OP k
			subj, kv, op := c.X, c.Y, c.Op
			if _, isK := constInt(c.X); isK {
				subj, kv, op = c.Y, c.X, flipOp(c.Op)
			}
			k, isK := constInt(kv)
			if !isK {
				continue
			}
			var neg *ssa.BasicBlock
			switch {
			case op == token.LSS && k == 0, op == token.LEQ && k == -1:
				neg = t
			case op == token.GEQ && k == 0, op == token.GTR && k == -1:
				neg = fl
			default:
				continue
			}
			a := ke.Eval(subj)
			if a == nil || !a.Scalar.has(kF) {
				continue
			}
			// only the vertical index, or a mix of indexes that contains it (a loop over x, y, f)
			if a.Scalar&^ks(kF, kX, kY) != 0 {
				continue
			}
			reach := reachableFrom(neg, nil)
			any, all := false, true
			for _, ret := range returnsOf(f) {
				if reach[ret.Block()] {
					any = true
					if !e.isFailureReturn(f, ret) {
						all = false
					}
				}
			}
			if !any || !all {
				continue
			}
			ord++
			n++
			r.Add(Obligation{Rule: "NEGF", Key: fmt.Sprintf("NEGF / %s / sign test#%d", name, ord), Pos: w.Pos(c.Pos()), Status: Violated, Canary: can,
				Detail: "a value that can be a vertical index (kind " + a.Scalar.String() + ") is tested against zero and the negative side reaches failure returns only (" + shortInstr(c) + "): every voxel below the reference height is refused"})
		}
	}
	if n == 0 {
		r.add("NEGF", "module scan", "-", Discharged, "no sign test of a vertical index has a failing negative side")
	}
}
