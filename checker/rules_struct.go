package main

// Structural rule families: DISTINCT, MAPORDER, WRAPPER, INCLUDES,
// ordering simulation (MINSEL / MAXSEL / ELIGIBILITY), must-pass-through.

import (
	"fmt"
	"go/token"
	"go/types"
	"os"
	"sort"
	"strings"

	"golang.org/x/tools/go/ssa"
)

// ---------------------------------------------------------------- DISTINCT

type distinctEngine struct {
	w    *World
	memo map[*ssa.Function]int // 0 unknown, 1 yes, 2 no, 3 in progress
}

var distinctCache *distinctEngine

func distinctFor(w *World) *distinctEngine {
	if distinctCache == nil {
		distinctCache = &distinctEngine{w: w, memo: map[*ssa.Function]int{}}
	}
	return distinctCache
}

// mapKeySlice: v is built only by appending the keys delivered by ranging
// over one map (bases empty).
func mapKeySlice(f *ssa.Function, v ssa.Value) bool {
	ai := appendChain(v)
	if len(ai.Appends) == 0 {
		return false
	}
	for _, b := range ai.Bases {
		if !isEmptySliceBase(b) {
			return false
		}
	}
	mrs := findMapRanges(f)
	for _, ap := range ai.Appends {
		elems, spread := appendedElems(ap)
		if spread != nil || len(elems) != 1 {
			return false
		}
		ok := false
		for _, mr := range mrs {
			if k := mr.key(); k != nil && elems[0] == k && mr.blocks()[ap.Block()] {
				ok = true
			}
		}
		if !ok {
			return false
		}
	}
	return true
}

// fnReturnsDistinct: every (non-error) return of g is a duplicate-free slice.
func (d *distinctEngine) fnReturnsDistinct(g *ssa.Function) bool {
	if g == nil || g.Blocks == nil {
		return false
	}
	switch d.memo[g] {
	case 1:
		return true
	case 2, 3:
		return false
	}
	d.memo[g] = 3
	ok := true
	n := 0
	for _, r := range returnsOf(g) {
		if errResultIndex(g) >= 0 && classifyReturn(g, r) == retError {
			continue
		}
		if len(r.Results) == 0 {
			ok = false
			break
		}
		n++
		if !d.valueDistinct(g, r.Results[0], 0) {
			ok = false
			break
		}
	}
	if n == 0 {
		ok = false
	}
	if ok {
		d.memo[g] = 1
	} else {
		d.memo[g] = 2
	}
	return ok
}

// valueDistinct: the slice value is duplicate-free by construction.
func (d *distinctEngine) valueDistinct(f *ssa.Function, v ssa.Value, depth int) bool {
	if depth > 8 {
		return false
	}
	v = resolve(v)
	switch x := v.(type) {
	case *ssa.Phi:
		if mapKeySlice(f, x) || seenFilterSlice(f, x) {
			return true
		}
		if src := d.filterOf(f, x, depth+1); src != nil {
			return d.listDistinct(f, src, depth+1)
		}
		for _, e := range phiLeaves(x) {
			if !d.valueDistinct(f, e, depth+1) {
				return false
			}
		}
		return true
	case *ssa.Extract:
		if c, ok := x.Tuple.(*ssa.Call); ok && x.Index == 0 {
			return d.callDistinct(f, c, depth)
		}
		return false
	case *ssa.Call:
		if builtinName(x) == "append" {
			if mapKeySlice(f, x) || seenFilterSlice(f, x) {
				return true
			}
			if src := d.filterOf(f, x, depth+1); src != nil {
				return d.valueDistinct(f, src, depth+1)
			}
			return false
		}
		if parts := concatParts(x); parts != nil {
			return d.disjointDistinct(f, parts, depth+1)
		}
		if sortedCompact(f, x) || collectedKeys(x) {
			return true
		}
		return d.callDistinct(f, x, depth)
	case *ssa.Const:
		return x.Value == nil // nil slice
	case *ssa.Slice:
		// at most one element: x[:1], x[i:i+1] is not recognised, literal {a}
		if x.High != nil {
			if h, ok := constInt(x.High); ok && h <= 1 && x.Low == nil {
				return true
			}
		}
		if vals, ok := sliceLiteral(x); ok && len(vals) <= 1 {
			return true
		}
	}
	if isEmptySliceBase(v) {
		return true
	}
	return mapKeySlice(f, v) || seenFilterSlice(f, v)
}

// dedupConstructOnPath: the derivation of the returned list (this function
// and the module callees whose results flow into it, three levels deep)
// contains something that removes duplicates -- a map used as a set, a call
// of common.Unique / Union, slices.Compact*, maps.Keys.  Used only to tell
// "the documented de-duplication is gone" (violation) from "there is one,
// in a form the rule cannot verify" (no verdict).  badCompact reports a
// slices.Compact that is not preceded by a natural sort (it removes adjacent
// duplicates only).
func (d *distinctEngine) dedupConstructOnPath(f *ssa.Function, v ssa.Value, depth int, seenF map[*ssa.Function]bool) (found bool, badCompact string) {
	if f == nil || f.Blocks == nil || depth > 3 {
		return false, ""
	}
	seen := map[ssa.Value]bool{}
	var walk func(x ssa.Value, dd int)
	guardedByLookup := func(blk *ssa.BasicBlock) bool {
		// the append may sit in a closure of f (collect := func(id string) { if seen .. })
		for _, b := range blk.Parent().Blocks {
			_, _, ifi := ifSuccs(b)
			if ifi == nil || !(b == blk || b.Dominates(blk)) {
				continue
			}
			c := resolve(ifi.Cond)
			if u, ok := c.(*ssa.UnOp); ok && u.Op == token.NOT {
				c = resolve(u.X)
			}
			var lk *ssa.Lookup
			switch y := c.(type) {
			case *ssa.Extract:
				lk, _ = y.Tuple.(*ssa.Lookup)
			case *ssa.Lookup:
				lk = y
			case *ssa.Call:
				// seen-set helper: register(m, key) bool
				for _, a := range y.Call.Args {
					if isMap(a.Type()) {
						return true
					}
				}
			}
			if lk != nil && isMap(lk.X.Type()) {
				return true
			}
		}
		return false
	}
	walk = func(x ssa.Value, dd int) {
		if x == nil || dd > 12 || found && badCompact != "" {
			return
		}
		x = resolve(x)
		if seen[x] {
			return
		}
		seen[x] = true
		switch y := x.(type) {
		case *ssa.Phi:
			for _, e := range y.Edges {
				walk(e, dd+1)
			}
		case *ssa.Extract:
			walk(y.Tuple, dd+1)
		case *ssa.Slice:
			walk(y.X, dd+1)
		case *ssa.Call:
			if builtinName(y) == "append" {
				if guardedByLookup(y.Block()) {
					found = true
				}
				// appended once per entry of a map (the element is built from the key, or from
				// the keys of nested maps): a set stands behind the list
				for _, mr := range findMapRanges(f) {
					if mr.blocks()[y.Block()] {
						found = true
					}
				}
				walk(y.Call.Args[0], dd+1)
				elems, spread := appendedElems(y)
				if spread != nil {
					walk(spread, dd+1)
				}
				for _, el := range elems {
					el = resolve(el)
					for _, mr := range findMapRanges(f) {
						if k := mr.key(); k != nil && el == k {
							found = true // keys of a map are distinct
						}
					}
					for _, sr := range findSliceRanges(f) {
						if sr.isElem(el) {
							walk(sr.X, dd+1)
						}
					}
					walk(el, dd+1)
				}
				return
			}
			if calleeIs(y, modPath+"/common", "Unique") || calleeIs(y, modPath+"/common", "Union") {
				found = true
				return
			}
			p, n := stdCallName(y)
			switch {
			case p == "maps" && n == "Keys", p == "slices" && n == "CompactFunc":
				found = true
				return
			case p == "slices" && n == "Compact":
				found = true
				if pc := partialComparator(d.w, f, y); pc != "" {
					badCompact = pc + ": whole-element duplicates need not be adjacent after the sort, and slices.Compact removes adjacent duplicates only"
				} else if !sortedCompact(f, y) && !anySortBefore(f, y) {
					badCompact = "slices.Compact at " + d.w.Pos(y.Pos()) + " removes adjacent duplicates only and the list is not sorted before"
				}
				return
			case p == "slices" || p == "maps":
				for _, a := range y.Call.Args {
					walk(a, dd+1)
				}
				return
			}
			if g := calleeOf(y); g != nil && d.w.InModule(g) && g.Blocks != nil && !seenF[g] {
				seenF[g] = true
				for _, ret := range returnsOf(g) {
					if len(ret.Results) > 0 {
						f2, b2 := d.dedupConstructOnPath(g, ret.Results[0], depth+1, seenF)
						if f2 {
							found = true
						}
						if b2 != "" {
							badCompact = b2
						}
					}
				}
			}
			for _, a := range y.Call.Args {
				if isSlice(a.Type()) || isMap(a.Type()) {
					walk(a, dd+1)
				}
			}
		case *ssa.MakeMap:
			// a map on the derivation (ranged into the result, or handed to a helper)
			found = true
		case *ssa.Parameter:
			// the parameter of a function literal (stage, err = ids, stepErr inside step :=
			// func(ids []string, stepErr error)): it holds what the literal is invoked with, which
			// is not followed here
			if y.Parent() != nil && y.Parent().Parent() != nil {
				found = true
			}
		case *ssa.MakeSlice:
			// a pre-sized list filled by index: what is stored, the lists the filling loops run
			// over, and the list its length is taken from
			if y.Referrers() != nil {
				for _, ref := range *y.Referrers() {
					ia, ok := ref.(*ssa.IndexAddr)
					if !ok || ia.Referrers() == nil {
						continue
					}
					for _, r2 := range *ia.Referrers() {
						st, ok := r2.(*ssa.Store)
						if !ok || st.Addr != ssa.Value(ia) {
							continue
						}
						walk(st.Val, dd+1)
						for _, sr := range findSliceRanges(f) {
							if sr.blocks()[st.Block()] {
								walk(sr.X, dd+1)
							}
						}
						for _, mr := range findMapRanges(f) {
							if mr.blocks()[st.Block()] {
								found = true
							}
						}
					}
				}
			}
			if lc, ok := resolve(y.Len).(*ssa.Call); ok && builtinName(lc) == "len" {
				walk(lc.Call.Args[0], dd+1)
			}
		case *ssa.UnOp:
			// a result kept in a variable: everything stored into it, also by (deferred) closures
			if al, ok := y.X.(*ssa.Alloc); ok && y.Op == token.MUL {
				for _, sv := range storesInto(al) {
					walk(sv, dd+1)
				}
				return
			}
			if fv, ok := y.X.(*ssa.FreeVar); ok && y.Op == token.MUL {
				// inside a closure: the captured variable of the parent
				if par := f.Parent(); par != nil {
					instrs(par, func(in ssa.Instruction) {
						mc, ok := in.(*ssa.MakeClosure)
						if !ok || mc.Fn != ssa.Value(f) {
							return
						}
						for i, b := range mc.Bindings {
							if i < len(f.FreeVars) && f.FreeVars[i] == fv {
								if al, ok := b.(*ssa.Alloc); ok {
									for _, sv := range storesInto(al) {
										if !seen[sv] {
											walk(sv, dd+1)
										}
									}
								}
							}
						}
					})
				}
				return
			}
			walk(y.X, dd+1)
		}
	}
	walk(v, 0)
	return found, badCompact
}

// concatParts: v == slices.Concat(p1, p2, ...): the parts, else nil.
func concatParts(c *ssa.Call) []ssa.Value {
	g := calleeOf(c)
	if g == nil || pkgOf(g) == nil || pkgOf(g).Path() != "slices" {
		return nil
	}
	name := g.Name()
	if o := g.Origin(); o != nil {
		name = o.Name()
	}
	if name != "Concat" || len(c.Call.Args) != 1 {
		return nil
	}
	vals, ok := sliceLiteral(c.Call.Args[0])
	if !ok || len(vals) == 0 {
		return nil
	}
	return vals
}

// filterOf: v is built from an empty list by appending, at most once per
// iteration, the current element of a range loop over a list L (a filter of
// L): returns L.  The result is a sub-sequence of L, so it is duplicate-free
// whenever L is and shares no element with anything L is disjoint from.
func (d *distinctEngine) filterOf(f *ssa.Function, v ssa.Value, depth int) ssa.Value {
	ai := appendChain(v)
	if len(ai.Appends) != 1 {
		return nil
	}
	for _, b := range ai.Bases {
		if !isEmptySliceBase(b) && !isNilConst(b) {
			return nil
		}
	}
	ap := ai.Appends[0]
	elems, spread := appendedElems(ap)
	if spread != nil || len(elems) != 1 {
		return nil
	}
	for _, sr := range findSliceRanges(f) {
		if !sr.blocks()[ap.Block()] || !sr.isElem(resolve(elems[0])) {
			continue
		}
		// the append is not inside a loop nested in this one (at most once per element)
		nested := false
		for _, in := range findSliceRanges(f) {
			if in != sr && sr.blocks()[in.Header] && in.blocks()[ap.Block()] {
				nested = true
			}
		}
		for _, in := range findMapRanges(f) {
			if sr.blocks()[in.Header] && in.blocks()[ap.Block()] {
				nested = true
			}
		}
		if nested {
			return nil
		}
		return sr.X
	}
	return nil
}

// filterSource: the list v is a sub-sequence of (v itself, or the source of
// the filter loop / filtering helper that built it), followed transitively.
func (d *distinctEngine) filterSources(f *ssa.Function, v ssa.Value, depth int) []ssa.Value {
	out := []ssa.Value{}
	for i := 0; i < 6 && v != nil; i++ {
		v = resolve(v)
		out = append(out, v)
		var next ssa.Value
		switch x := v.(type) {
		case *ssa.Phi:
			if src := d.filterOf(f, x, depth+1); src != nil {
				next = src
			}
		case *ssa.Call:
			if builtinName(x) == "append" {
				next = d.filterOf(f, x, depth+1)
			} else if g := calleeOf(x); g != nil && d.w.InModule(g) {
				if pi := d.fnFiltersParam(g); pi >= 0 && pi < len(x.Call.Args) {
					next = x.Call.Args[pi]
				}
			}
		}
		v = next
	}
	return out
}

// fnFiltersParam: every return of g is a filter (sub-sequence) of one list
// parameter: its index, else -1.
func (d *distinctEngine) fnFiltersParam(g *ssa.Function) int {
	if g == nil || g.Blocks == nil {
		return -1
	}
	pi := -1
	for _, ret := range returnsOf(g) {
		if len(ret.Results) != 1 {
			return -1
		}
		src := d.filterOf(g, ret.Results[0], 0)
		if src == nil {
			return -1
		}
		i := paramIndex(g, resolve(src))
		if i < 0 || (pi >= 0 && pi != i) {
			return -1
		}
		pi = i
	}
	return pi
}

// excludes: no element of list v equals an element of list a, because v is a
// sub-sequence of common.Difference(_, a) (whose shape SETOP-SHAPE decides).
func (d *distinctEngine) excludes(f *ssa.Function, v, a ssa.Value, depth int) bool {
	for _, s := range d.filterSources(f, v, depth) {
		if c, ok := s.(*ssa.Call); ok && calleeIs(c, modPath+"/common", "Difference") && len(c.Call.Args) == 2 && equivValue(c.Call.Args[1], a) {
			return true
		}
		if ph, ok := s.(*ssa.Phi); ok && d.filterOf(f, ph, depth+1) == nil {
			all := len(ph.Edges) > 0
			for _, e := range phiLeaves(ph) {
				if isNilConst(resolve(e)) || isEmptySliceBase(resolve(e)) {
					continue
				}
				if resolve(e) == ssa.Value(ph) || !d.excludes(f, e, a, depth+1) {
					all = false
				}
			}
			if all {
				return true
			}
		}
	}
	return false
}

// disjointDistinct: the concatenation of the parts is duplicate-free: each
// part is, and every later part excludes every earlier one.
func (d *distinctEngine) disjointDistinct(f *ssa.Function, parts []ssa.Value, depth int) bool {
	if depth > 8 {
		return false
	}
	for i, p := range parts {
		if !d.listDistinct(f, p, depth+1) {
			return false
		}
		for j := 0; j < i; j++ {
			if !d.excludes(f, p, parts[j], depth+1) && !d.excludes(f, parts[j], p, depth+1) {
				return false
			}
		}
	}
	return true
}

// listDistinct: valueDistinct, or a filter (transitively) of a duplicate-free list.
func (d *distinctEngine) listDistinct(f *ssa.Function, v ssa.Value, depth int) bool {
	if depth > 8 {
		return false
	}
	v = resolve(v)
	if ph, ok := v.(*ssa.Phi); ok && d.filterOf(f, ph, depth+1) == nil && !mapKeySlice(f, ph) && !seenFilterSlice(f, ph) {
		// a choice between lists
		for _, e := range phiLeaves(ph) {
			if resolve(e) == ssa.Value(ph) || !d.listDistinct(f, e, depth+1) {
				return false
			}
		}
		return true
	}
	for _, s := range d.filterSources(f, v, depth) {
		if _, isPhi := s.(*ssa.Phi); isPhi && s != v {
			if d.listDistinct(f, s, depth+1) {
				return true
			}
			continue
		}
		if d.valueDistinct(f, s, depth+1) {
			return true
		}
	}
	return false
}

// seenFilterSlice: every append into v is confined to the miss branch of a
// lookup of the appended element in a local map, and that element is inserted
// into the map on the same branch (first-occurrence filter).
func seenFilterSlice(f *ssa.Function, v ssa.Value) bool {
	ai := appendChain(v)
	if len(ai.Appends) == 0 {
		return false
	}
	for _, b := range ai.Bases {
		if isEmptySliceBase(b) {
			continue
		}
		if sl, ok := b.(*ssa.Slice); ok {
			if h, ok := constInt(sl.High); sl.High != nil && ok && h == 0 {
				continue // x[:0]
			}
		}
		return false
	}
	for _, ap := range ai.Appends {
		elems, spread := appendedElems(ap)
		if spread != nil || len(elems) != 1 {
			return false
		}
		el := elems[0]
		found := false
		for _, blk := range f.Blocks {
			t, fl, ifi := ifSuccs(blk)
			if ifi == nil {
				continue
			}
			var lk *ssa.Lookup
			miss := fl
			switch x := resolve(ifi.Cond).(type) {
			case *ssa.Extract:
				lk, _ = x.Tuple.(*ssa.Lookup)
			case *ssa.Lookup:
				lk = x
			case *ssa.UnOp:
				if x.Op == token.NOT {
					miss = t
					switch y := resolve(x.X).(type) {
					case *ssa.Extract:
						lk, _ = y.Tuple.(*ssa.Lookup)
					case *ssa.Lookup:
						lk = y
					}
				}
			}
			if lk == nil || !equivValue(lk.Index, el) {
				continue
			}
			mm, ok := resolve(lk.X).(*ssa.MakeMap)
			if !ok {
				continue
			}
			if selfReach(mm.Block()) {
				continue // the map is re-created inside a loop: it forgets earlier elements
			}
			if !(miss == ap.Block() || blockDominatedByEdge(f, blk, miss, ap.Block())) {
				continue
			}
			ins := false
			instrs(f, func(in ssa.Instruction) {
				if mu, ok := in.(*ssa.MapUpdate); ok && resolve(mu.Map) == ssa.Value(mm) && equivValue(mu.Key, el) && (mu.Block() == miss || blockDominatedByEdge(f, blk, miss, mu.Block())) {
					ins = true
				}
			})
			if ins {
				found = true
			}
		}
		if !found {
			return false
		}
	}
	return true
}

func (d *distinctEngine) callDistinct(f *ssa.Function, c *ssa.Call, depth int) bool {
	g := calleeOf(c)
	if g == nil || !d.w.InModule(g) {
		return false
	}
	if d.fnReturnsDistinct(g) {
		return true
	}
	if pi := d.fnFiltersParam(g); pi >= 0 && pi < len(c.Call.Args) {
		return d.listDistinct(f, c.Call.Args[pi], depth+1)
	}
	// element-wise notation conversion of a duplicate-free list whose IDs have
	// hZoom == vZoom (established by WRAPPER): still duplicate-free
	if funcIs(g, modPath+"/shape", "ConvertExtendedSpatialIdsToSpatialIds") || funcIs(g, modPath+"/shape", "ConvertSpatialIdsToExtendedSpatialIds") {
		return d.valueDistinct(f, c.Call.Args[0], depth+1)
	}
	return false
}

func ruleDistinct(w *World, r *Report, f *ssa.Function) {
	if why := seenLeavesLoop(w, f); why != "" {
		r.Rule("NOSKIP", "a duplicate found in a seen-set skips that element only: the hit edge of the test returns to the header of the innermost loop around it")
		r.Add(Obligation{Rule: "NOSKIP", Key: "NOSKIP / " + w.FuncName(f) + " / seen-set hit", Pos: w.Pos(f.Pos()), Status: Violated, Detail: why, Canary: w.IsCanary(f)})
	}
	r.Rule("DISTINCT", "every success return of a function documented to return a de-duplicated list is duplicate-free by construction: the keys of a map range (common.Unique/Union, a private de-duplication helper), a miss-then-insert guarded append, or an element-wise notation conversion of such a list")
	d := distinctFor(w)
	name := w.FuncName(f)
	n := 0
	for _, ret := range returnsOf(f) {
		if errResultIndex(f) >= 0 && classifyReturn(f, ret) == retError {
			continue
		}
		n++
		key := fmt.Sprintf("%s / success return#%d", name, n)
		if len(ret.Results) == 0 {
			continue
		}
		if d.valueDistinct(f, ret.Results[0], 0) {
			r.Add(Obligation{Rule: "DISTINCT", Key: "DISTINCT / " + key, Pos: w.Pos(ret.Pos()), Status: Discharged, Detail: "returned list is the key set of a map / result of a de-duplicating call", Canary: w.IsCanary(f)})
			continue
		}
		// a single exit (named results, one `return list, err`): only the values that arrive
		// together with a nil error are success results
		lists, uncertain := successValues(f, ret, 0)
		allDistinct := len(lists) > 0
		for _, l := range lists {
			if !d.valueDistinct(f, l, 0) {
				allDistinct = false
			}
		}
		if allDistinct && !uncertain {
			r.Add(Obligation{Rule: "DISTINCT", Key: "DISTINCT / " + key, Pos: w.Pos(ret.Pos()), Status: Discharged, Detail: "every list that reaches the single exit together with a nil error is de-duplicated", Canary: w.IsCanary(f)})
			continue
		}
		// not proven.  Positive evidence of a violation: nothing on the way removes
		// duplicates at all, or a Compact on an unsorted list; otherwise no verdict.
		found, badCompact := true, ""
		var leaves []ssa.Value
		for _, l := range lists {
			leaves = append(leaves, phiLeaves(resolve(l))...)
		}
		for _, leaf := range leaves {
			if ph, isPhi := leaf.(*ssa.Phi); isPhi && ph == resolve(ret.Results[0]) {
				continue
			}
			if d.valueDistinct(f, leaf, 1) {
				continue
			}
			f1, b1 := d.dedupConstructOnPath(f, leaf, 0, map[*ssa.Function]bool{})
			if !f1 {
				found = false // on this path nothing removes duplicates
			}
			if b1 != "" {
				badCompact = b1
			}
		}
		if badCompact == "" {
			badCompact = d.weakDedup(f, ret.Results[0])
		}
		switch {
		case badCompact != "":
			r.Add(Obligation{Rule: "DISTINCT", Key: "DISTINCT / " + key, Pos: w.Pos(ret.Pos()), Status: Violated, Detail: "returned list " + ret.Results[0].Name() + " is not duplicate-free: " + badCompact, Canary: w.IsCanary(f)})
		case !found && uncertain:
			r.Add(Obligation{Rule: "DISTINCT", Key: "DISTINCT / " + key, Pos: w.Pos(ret.Pos()), Status: Undecided, Detail: "a list without de-duplication reaches the single exit, but whether it arrives together with a nil error could not be determined (" + describeValue(ret.Results[0]) + ")", Canary: w.IsCanary(f)})
		case !found:
			r.Add(Obligation{Rule: "DISTINCT", Key: "DISTINCT / " + key, Pos: w.Pos(ret.Pos()), Status: Violated, Detail: "returned list " + ret.Results[0].Name() + " does not pass through a de-duplication on this path (" + describeValue(ret.Results[0]) + "), and nothing in its derivation removes duplicates", Canary: w.IsCanary(f)})
		default:
			r.Add(Obligation{Rule: "DISTINCT", Key: "DISTINCT / " + key, Pos: w.Pos(ret.Pos()), Status: Undecided, Detail: "returned list " + ret.Results[0].Name() + " (" + describeValue(ret.Results[0]) + ") could not be shown duplicate-free; its derivation does contain a de-duplicating construct the rule cannot verify", Canary: w.IsCanary(f)})
		}
	}
	if n == 0 {
		r.Add(Obligation{Rule: "DISTINCT", Key: "DISTINCT / " + name, Pos: w.Pos(f.Pos()), Status: Undecided, Detail: "no success return found", Canary: w.IsCanary(f)})
	}
}

func describeValue(v ssa.Value) string {
	v = resolve(v)
	if in, ok := v.(ssa.Instruction); ok {
		return shortInstr(in)
	}
	return v.String()
}

// ---------------------------------------------------------------- MAPORDER

// ruleMapOrder: the first result of f on success is built by exactly one
// append per iteration of a range over parameter pidx, in order, from an
// empty base, and returned without reordering.
func ruleMapOrder(w *World, r *Report, f *ssa.Function, pidx int) {
	r.Rule("MAPORDER", "an element-wise conversion returns a list built by exactly one append (or one indexed store) per element of the input list, in input order, with no iteration skipping it and no reordering call between the loop and the return; the list may pass through intermediate element-wise stages (a loop over the previous stage's list, or a module helper that itself maps its list parameter element by element or hands it back)")
	name := w.FuncName(f)
	can := w.IsCanary(f)
	add := func(sub string, pos string, st Status, d string) {
		r.Add(Obligation{Rule: "MAPORDER", Key: "MAPORDER / " + name + " / " + sub, Pos: pos, Status: st, Detail: d, Canary: can})
	}
	if pidx >= len(f.Params) {
		add("loop", w.Pos(f.Pos()), Unresolved, "parameter missing")
		return
	}
	n := 0
	for _, ret := range returnsOf(f) {
		if errResultIndex(f) >= 0 && classifyReturn(f, ret) == retError {
			continue
		}
		n++
		sub := fmt.Sprintf("success return#%d", n)
		src, st, msg, stages := mapChain(w, f, ret.Results[0], 0)
		switch {
		case st == Violated:
			add(sub, w.Pos(ret.Pos()), Violated, msg)
		case st == Discharged && src == ssa.Value(f.Params[pidx]):
			add(sub, w.Pos(ret.Pos()), Discharged, fmt.Sprintf("one output per element of %s, in order (%d element-wise stage(s))", f.Params[pidx].Name(), stages))
		case st == Discharged:
			add(sub, w.Pos(ret.Pos()), Undecided, "the returned list is an element-wise image of "+describeValue(src)+", which could not be traced to the input list "+f.Params[pidx].Name())
		default:
			add(sub, w.Pos(ret.Pos()), Undecided, msg)
		}
	}
	if n == 0 {
		add("returns", w.Pos(f.Pos()), Undecided, "no success return")
	}
}

// mapChain traces a list value back through element-wise stages to the list
// it is an in-order, one-to-one image of.  Violated is returned only on
// positive evidence (an iteration that skips its output, two outputs per
// element, a second append site); an unrecognised construction is Undecided.
func mapChain(w *World, f *ssa.Function, v ssa.Value, depth int) (ssa.Value, Status, string, int) {
	v = resolve(v)
	if depth > 6 {
		return v, Undecided, "too many stages", 0
	}
	if _, ok := v.(*ssa.Parameter); ok {
		return v, Discharged, "", 0
	}
	// a module helper that maps one of its list parameters (or hands it back)
	var call *ssa.Call
	switch x := v.(type) {
	case *ssa.Extract:
		if x.Index == 0 {
			call, _ = x.Tuple.(*ssa.Call)
		}
	case *ssa.Call:
		if builtinName(x) == "" {
			call = x
		}
	}
	if call != nil {
		g := calleeOf(call)
		if g == nil || !w.InModule(g) || g.Blocks == nil {
			return v, Undecided, "the list comes from " + describeValue(v) + ", which is not analysed", 0
		}
		pi := -1
		total := 0
		for _, ret := range returnsOf(g) {
			if errResultIndex(g) >= 0 && classifyReturn(g, ret) == retError {
				continue
			}
			if len(ret.Results) == 0 {
				return v, Undecided, "helper returns nothing", 0
			}
			src, st, msg, k := mapChain(w, g, ret.Results[0], depth+1)
			if st != Discharged {
				return v, st, "in " + w.FuncName(g) + ": " + msg, 0
			}
			i := paramIndex(g, src)
			if i < 0 || (pi >= 0 && pi != i) {
				return v, Undecided, "helper " + w.FuncName(g) + " does not map one list parameter", 0
			}
			pi = i
			total = k
		}
		if pi < 0 || pi >= len(call.Call.Args) {
			return v, Undecided, "helper " + w.FuncName(g) + " has no success return", 0
		}
		src, st, msg, k := mapChain(w, f, call.Call.Args[pi], depth+1)
		return src, st, msg, k + total
	}
	// pre-sized list filled by index in a loop over the source
	if ms, ok := v.(*ssa.MakeSlice); ok {
		for _, loop := range findSliceRanges(f) {
			lc, isL := resolve(ms.Len).(*ssa.Call)
			if !isL || builtinName(lc) != "len" || resolve(lc.Call.Args[0]) != resolve(loop.X) {
				continue
			}
			stores := 0
			okIdx := true
			var stBlk *ssa.BasicBlock
			for _, ref := range *ms.Referrers() {
				ia, isIA := ref.(*ssa.IndexAddr)
				if !isIA {
					continue
				}
				for _, r2 := range *ia.Referrers() {
					if st, isSt := r2.(*ssa.Store); isSt && st.Addr == ia {
						if ia.Index != loop.Idx || !loop.blocks()[st.Block()] {
							okIdx = false
						}
						stores++
						stBlk = st.Block()
					}
				}
			}
			if stores == 0 {
				continue
			}
			if !okIdx || stores != 1 {
				// alternative store sites (one per branch), or an index that equals the loop
				// index without being it: not followed
				return v, Undecided, fmt.Sprintf("the pre-sized result is not filled by exactly one indexed store per iteration at the loop index (stores: %d)", stores), 0
			}
			if simulate(loop.Body, map[*ssa.BasicBlock]bool{stBlk: true, loop.Done: true}, noOracle)[loop.Header] {
				return v, Violated, "some iteration returns to the loop header without storing its output (an input element is skipped)", 0
			}
			src, st, msg, k := mapChain(w, f, loop.X, depth+1)
			return src, st, msg, k + 1
		}
	}
	// a list modified in place element by element and handed on: the list itself
	ai := appendChain(v)
	if len(ai.Appends) == 0 {
		return v, Undecided, "the list " + describeValue(v) + " is not built by appends", 0
	}
	for _, b := range ai.Bases {
		if !isEmptySliceBase(b) {
			// appended to the result of an earlier stage (or a peeled first element): not followed
			return v, Undecided, "returned list is not built from an empty list by appends only (" + describeValue(v) + ")", 0
		}
	}
	for _, ap := range ai.Appends {
		elems, spread := appendedElems(ap)
		if spread != nil {
			return v, Undecided, "an append spreads a list whose length is not known (" + shortInstr(ap) + ")", 0
		}
		if len(elems) != 1 {
			return v, Violated, "an append does not add exactly one element", 0
		}
	}
	// the outermost range loop that contains every append site
	var loop *sliceRange
	for _, sr := range findSliceRanges(f) {
		all := true
		for _, ap := range ai.Appends {
			if !sr.blocks()[ap.Block()] {
				all = false
			}
		}
		if all && (loop == nil || sr.blocks()[loop.Header]) {
			loop = sr
		}
	}
	if loop == nil {
		if len(ai.Appends) > 1 {
			for _, sr := range findSliceRanges(f) {
				for _, ap := range ai.Appends {
					if sr.blocks()[ap.Block()] {
						// a peeled first/last element is appended outside the loop: not followed
						return v, Undecided, fmt.Sprintf("the list is built by %d append sites, some of them outside the loop over the input", len(ai.Appends)), 0
					}
				}
			}
		}
		return v, Undecided, "the append is not inside a range loop over a list", 0
	}
	blocks := loop.blocks()
	stop := map[*ssa.BasicBlock]bool{loop.Done: true}
	for _, ap := range ai.Appends {
		stop[ap.Block()] = true
		// a nested loop that goes on after the append produces several outputs for one input;
		// a search loop that appends once and leaves (break) does not
		for _, sr := range findSliceRanges(f) {
			if sr != loop && blocks[sr.Header] && sr.blocks()[ap.Block()] {
				if appendLoopsOn(ap, sr.Header, sr.blocks()) {
					return v, Violated, "the append is inside a nested loop that continues after it (more than one output per input)", 0
				}
				return v, Undecided, "the append is inside a nested loop that is left after it", 0
			}
		}
		for _, mr := range findMapRanges(f) {
			if blocks[mr.Header] && mr.blocks()[ap.Block()] {
				if appendLoopsOn(ap, mr.Header, mr.blocks()) {
					return v, Violated, "the append is inside a nested loop that continues after it (more than one output per input)", 0
				}
				return v, Undecided, "the append is inside a nested loop that is left after it", 0
			}
		}
	}
	if simulate(loop.Body, stop, noOracle)[loop.Header] {
		return v, Violated, "some iteration returns to the loop header without appending (an input element is skipped)", 0
	}
	// alternative append sites (one per branch) are fine; two on one path are not
	for _, ap := range ai.Appends {
		n := 0
		for _, in := range ap.Block().Instrs {
			if c, ok := in.(*ssa.Call); ok {
				for _, a2 := range ai.Appends {
					if a2 == c {
						n++
					}
				}
			}
		}
		after := map[*ssa.BasicBlock]bool{}
		for _, s := range ap.Block().Succs {
			for b := range reachableFrom(s, map[*ssa.BasicBlock]bool{loop.Header: true}) {
				after[b] = true
			}
		}
		for _, a2 := range ai.Appends {
			if a2 != ap && after[a2.Block()] && a2.Block() != ap.Block() {
				n++
			}
		}
		if n > 1 {
			return v, Violated, "an iteration can append twice (more than one output per input)", 0
		}
	}
	src, st, msg, k := mapChain(w, f, loop.X, depth+1)
	return src, st, msg, k + 1
}

// ---------------------------------------------------------------- WRAPPER

type wrapperSpec struct {
	Wrapper  string // single-zoom function
	Extended string // extended counterpart
	ZoomArg  int    // index of the zoom parameter in Wrapper
	ExtH     int    // index of hZoom / vZoom parameters in Extended
	ExtV     int
	IDsArg   int // index of ID-list parameter converted on the way in (-1: none)
	PassArgs [][2]int
}

func ruleWrapper(w *World, r *Report, ws wrapperSpec) {
	r.Rule("WRAPPER", "the single-zoom form calls its extended counterpart with the same zoom parameter in both zoom positions, converts IDs with shape.ConvertSpatialIdsToExtendedSpatialIds / ConvertExtendedSpatialIdsToSpatialIds, and returns exactly that result on success")
	f := lookupByName(w, ws.Wrapper)
	g := lookupByName(w, ws.Extended)
	key := ws.Wrapper
	if f == nil || g == nil {
		r.add("WRAPPER", key, "?", Unresolved, "function not found")
		return
	}
	pos := w.Pos(f.Pos())
	calls := callsTo(f, func(x *ssa.Function) bool { return x == g })
	if len(calls) != 1 {
		r.add("WRAPPER", key+" / delegation", pos, Undecided, fmt.Sprintf("expected exactly one call of %s, found %d", ws.Extended, len(calls)))
		return
	}
	c := calls[0]
	zoom := f.Params[ws.ZoomArg]
	if resolve(c.Call.Args[ws.ExtH]) != zoom || resolve(c.Call.Args[ws.ExtV]) != zoom {
		r.add("WRAPPER", key+" / zooms", w.Pos(c.Pos()), Violated, "the zoom parameter is not passed unchanged as both hZoom and vZoom ("+shortInstr(c)+")")
	} else {
		r.add("WRAPPER", key+" / zooms", w.Pos(c.Pos()), Discharged, "zoom passed as both hZoom and vZoom")
	}
	for _, pa := range ws.PassArgs {
		if resolve(c.Call.Args[pa[1]]) != f.Params[pa[0]] {
			r.add("WRAPPER", fmt.Sprintf("%s / argument %s", key, f.Params[pa[0]].Name()), w.Pos(c.Pos()), Violated, "parameter is not passed through unchanged")
		} else {
			r.add("WRAPPER", fmt.Sprintf("%s / argument %s", key, f.Params[pa[0]].Name()), w.Pos(c.Pos()), Discharged, "passed through unchanged")
		}
	}
	if ws.IDsArg >= 0 {
		ok := false
		if ex, isEx := resolve(c.Call.Args[0]).(*ssa.Extract); isEx && ex.Index == 0 {
			if cc, isCall := ex.Tuple.(*ssa.Call); isCall && calleeIs(cc, modPath+"/shape", "ConvertSpatialIdsToExtendedSpatialIds") && resolve(cc.Call.Args[0]) == f.Params[ws.IDsArg] {
				ok = true
			}
		}
		if ok {
			r.add("WRAPPER", key+" / input conversion", w.Pos(c.Pos()), Discharged, "input IDs converted with shape.ConvertSpatialIdsToExtendedSpatialIds")
		} else {
			st := Undecided
			if resolve(c.Call.Args[0]) == ssa.Value(f.Params[ws.IDsArg]) {
				st = Violated // the single-zoom IDs are handed over unconverted
			}
			r.add("WRAPPER", key+" / input conversion", w.Pos(c.Pos()), st, "the ID list handed to the extended form is not (recognised as) the converted input list")
		}
	}
	// success returns
	n := 0
	for _, ret := range returnsOf(f) {
		if classifyReturn(f, ret) == retError {
			continue
		}
		n++
		sub := fmt.Sprintf("%s / success return#%d", key, n)
		ok := false
		for _, leaf := range phiLeaves(resolve(ret.Results[0])) {
			ok = false
			if ex, isEx := leaf.(*ssa.Extract); isEx && ex.Index == 0 {
				if cc, isCall := ex.Tuple.(*ssa.Call); isCall && calleeIs(cc, modPath+"/shape", "ConvertExtendedSpatialIdsToSpatialIds") {
					if in, isEx2 := resolve(cc.Call.Args[0]).(*ssa.Extract); isEx2 && in.Index == 0 && in.Tuple == ssa.Value(c) {
						ok = true
					}
				}
			}
			if !ok {
				break
			}
		}
		if ok {
			r.add("WRAPPER", sub, w.Pos(ret.Pos()), Discharged, "returns ConvertExtendedSpatialIdsToSpatialIds(result of the extended form)")
		} else {
			// classifyReturn unknown (err passed through) with the same shape is fine
			st := Undecided
			if in, isEx := resolve(ret.Results[0]).(*ssa.Extract); isEx && in.Index == 0 && in.Tuple == ssa.Value(c) {
				st = Violated // extended IDs are returned unconverted
			}
			r.add("WRAPPER", sub, w.Pos(ret.Pos()), st, "the returned list is not (recognised as) the converted result of the extended form ("+describeValue(ret.Results[0])+")")
		}
	}
	if n == 0 {
		r.add("WRAPPER", key+" / returns", pos, Undecided, "no non-error return")
	}
}

// ---------------------------------------------------------------- value equivalence

// equivValue: same SSA value, or calls of the same field getter on equivalent
// receivers, or loads through the same pointer.
func equivValue(a, b ssa.Value) bool {
	a, b = resolve(a), resolve(b)
	if a == b {
		return true
	}
	ca, oka := a.(*ssa.Call)
	cb, okb := b.(*ssa.Call)
	if oka && okb {
		ga, gb := calleeOf(ca), calleeOf(cb)
		if ga != nil && ga == gb && accessorField(ga) != nil && len(ca.Call.Args) == 1 && len(cb.Call.Args) == 1 {
			return equivValue(ca.Call.Args[0], cb.Call.Args[0])
		}
		return false
	}
	la, oka := loadOf(a)
	lb, okb := loadOf(b)
	if oka && okb {
		return equivValue(la, lb)
	}
	// the same field of the same write-once local struct
	fa, oka := a.(*ssa.FieldAddr)
	fb, okb := b.(*ssa.FieldAddr)
	if oka && okb && fa.Field == fb.Field && fa.X == fb.X {
		if al, ok := fa.X.(*ssa.Alloc); ok && writeOnceStruct(al) {
			return true
		}
	}
	return false
}

// writeOnceStruct: the local struct variable is assigned as a whole at most
// once and its fields are only read afterwards (never stored to, never
// address-taken into a call or closure).
func writeOnceStruct(al *ssa.Alloc) bool {
	if al.Referrers() == nil {
		return false
	}
	stores := 0
	for _, ref := range *al.Referrers() {
		switch x := ref.(type) {
		case *ssa.Store:
			if x.Addr != ssa.Value(al) {
				return false
			}
			stores++
		case *ssa.FieldAddr:
			for _, r2 := range *x.Referrers() {
				if u, ok := r2.(*ssa.UnOp); ok && u.Op == token.MUL {
					continue
				}
				if _, ok := r2.(*ssa.DebugRef); ok {
					continue
				}
				return false
			}
		case *ssa.UnOp, *ssa.DebugRef:
		default:
			return false
		}
	}
	return stores <= 1
}

// ---------------------------------------------------------------- ordering simulation

type rel int

const (
	relLT rel = 1
	relEQ rel = 2
	relGT rel = 4
)

// cmpOutcome: outcome of `x op y` when rel(x,y) = r.
func cmpOutcome(op token.Token, r rel) (bool, bool) {
	switch op {
	case token.LSS:
		return r == relLT, true
	case token.LEQ:
		return r != relGT, true
	case token.GTR:
		return r == relGT, true
	case token.GEQ:
		return r != relLT, true
	case token.EQL:
		return r == relEQ, true
	case token.NEQ:
		return r != relEQ, true
	}
	return false, false
}

func flipRel(r rel) rel {
	switch r {
	case relLT:
		return relGT
	case relGT:
		return relLT
	}
	return r
}

type pairRel struct {
	A, B ssa.Value
	R    rel
}

// oracleFor builds a branch oracle from known relations between value pairs.
func oracleFor(pairs []pairRel) func(cond ssa.Value) (bool, bool) {
	return func(cond ssa.Value) (bool, bool) {
		b, ok := cond.(*ssa.BinOp)
		if !ok {
			return false, false
		}
		for _, p := range pairs {
			if equivValue(b.X, p.A) && equivValue(b.Y, p.B) {
				return cmpOutcome(b.Op, p.R)
			}
			if equivValue(b.X, p.B) && equivValue(b.Y, p.A) {
				return cmpOutcome(b.Op, flipRel(p.R))
			}
		}
		// cmp.Compare(a, b) <op> k: the three-way result is -1, 0 or +1
		for _, side := range [][2]ssa.Value{{b.X, b.Y}, {b.Y, b.X}} {
			call, ok := resolve(side[0]).(*ssa.Call)
			if !ok || len(call.Call.Args) != 2 {
				continue
			}
			if pth, nm := stdCallName(call); pth != "cmp" || nm != "Compare" {
				continue
			}
			k, isK := constInt(side[1])
			if !isK {
				continue
			}
			for _, p := range pairs {
				r := rel(0)
				if equivValue(call.Call.Args[0], p.A) && equivValue(call.Call.Args[1], p.B) {
					r = p.R
				} else if equivValue(call.Call.Args[0], p.B) && equivValue(call.Call.Args[1], p.A) {
					r = flipRel(p.R)
				} else {
					continue
				}
				v := int64(0)
				switch r {
				case relLT:
					v = -1
				case relGT:
					v = 1
				}
				op := b.Op
				if side[0] == b.Y { // k <op> Compare(..)
					op = flipOp(op)
				}
				switch op {
				case token.EQL:
					return v == k, true
				case token.NEQ:
					return v != k, true
				case token.LSS:
					return v < k, true
				case token.LEQ:
					return v <= k, true
				case token.GTR:
					return v > k, true
				case token.GEQ:
					return v >= k, true
				}
			}
		}
		return false, false
	}
}

// simulate explores the CFG from start; at If instructions the oracle may fix
// the outcome.  Blocks in stop are not entered.  Returns the reachable blocks
// and the set of CFG edges taken.
func simulate(start *ssa.BasicBlock, stop map[*ssa.BasicBlock]bool, oracle func(ssa.Value) (bool, bool)) map[*ssa.BasicBlock]bool {
	return simulateFrom(start, nil, stop, oracle)
}

// simulateFrom: as simulate, with start entered along the edge from->start (the
// phis of start take the values of that edge).
// simCallBudget bounds the number of path simulations of one optional exploration (the
// "ends of a domain are accepted" check): negative = unlimited.  When it is used up every
// further simulation answers "everything is reachable", which can only turn a verdict into
// "not proven", never into a violation.
var simCallBudget int64 = -1

func simulateFrom(start, from0 *ssa.BasicBlock, stop map[*ssa.BasicBlock]bool, oracle func(ssa.Value) (bool, bool)) map[*ssa.BasicBlock]bool {
	if simCallBudget == 0 {
		all := map[*ssa.BasicBlock]bool{}
		if start != nil && start.Parent() != nil {
			for _, b := range start.Parent().Blocks {
				all[b] = true
			}
		}
		return all
	}
	if simCallBudget > 0 {
		simCallBudget--
	}
	// Boolean phis (the value form of && and ||, flags such as isTarget := a && b) are
	// tracked along the path: entering a block by an edge fixes the value of its bool
	// phis when the incoming value is a constant, a tracked phi, or decided by the oracle.
	seen := map[*ssa.BasicBlock]bool{}
	type state struct {
		b   *ssa.BasicBlock
		env string
	}
	visited := map[state]bool{}
	budget := 4000
	envKey := func(env map[*ssa.Phi]bool) string {
		if len(env) == 0 {
			return ""
		}
		var parts []string
		for p, v := range env {
			parts = append(parts, fmt.Sprintf("%s=%v", p.Name(), v))
		}
		sort.Strings(parts)
		return strings.Join(parts, ",")
	}
	var evalB func(v ssa.Value, env map[*ssa.Phi]bool) (bool, bool)
	evalB = func(v ssa.Value, env map[*ssa.Phi]bool) (bool, bool) {
		switch x := v.(type) {
		case *ssa.Const:
			if x.Value != nil {
				return x.Value.String() == "true", true
			}
		case *ssa.Phi:
			if val, ok := env[x]; ok {
				return val, true
			}
			return false, false
		case *ssa.UnOp:
			if x.Op == token.NOT {
				val, ok := evalB(x.X, env)
				return !val, ok
			}
		case *ssa.BinOp:
			// e != nil / e == nil for an error (or pointer) phi whose nil-ness is tracked along
			// the path (env value true = non-nil)
			if x.Op == token.NEQ || x.Op == token.EQL {
				var other ssa.Value
				if isNilConst(x.Y) {
					other = x.X
				} else if isNilConst(x.X) {
					other = x.Y
				}
				if other != nil {
					if nn, ok := nonNilUnder(other, env); ok {
						return nn == (x.Op == token.NEQ), true
					}
				}
			}
		}
		return oracle(v)
	}
	var walk func(b, from *ssa.BasicBlock, env map[*ssa.Phi]bool)
	walk = func(b, from *ssa.BasicBlock, env map[*ssa.Phi]bool) {
		if stop[b] || budget <= 0 {
			return
		}
		budget--
		// bool phis of b under the entering edge
		var next map[*ssa.Phi]bool
		if from != nil {
			for _, in := range b.Instrs {
				ph, ok := in.(*ssa.Phi)
				if !ok {
					break
				}
				if bt, isB := ph.Type().Underlying().(*types.Basic); !isB || bt.Kind() != types.Bool {
					if !nilable(ph.Type()) {
						continue
					}
					for k, pred := range b.Preds {
						if pred != from || k >= len(ph.Edges) {
							continue
						}
						if next == nil {
							next = map[*ssa.Phi]bool{}
							for p, v := range env {
								next[p] = v
							}
						}
						if nn, known := nonNilUnder(ph.Edges[k], env); known {
							next[ph] = nn
						} else {
							delete(next, ph)
						}
						break
					}
					continue
				}
				for k, pred := range b.Preds {
					if pred != from || k >= len(ph.Edges) {
						continue
					}
					if next == nil {
						next = map[*ssa.Phi]bool{}
						for p, v := range env {
							next[p] = v
						}
					}
					if val, known := evalB(ph.Edges[k], env); known {
						next[ph] = val
					} else {
						delete(next, ph)
					}
					break
				}
			}
		}
		if next != nil {
			env = next
		}
		st := state{b, envKey(env)}
		if visited[st] {
			return
		}
		visited[st] = true
		seen[b] = true
		t, f, i := ifSuccs(b)
		if i != nil {
			if out, known := evalB(i.Cond, env); known {
				if out {
					walk(t, b, env)
				} else {
					walk(f, b, env)
				}
				return
			}
			// an undecided test of a flag (a bool phi, possibly negated): each branch goes on
			// under the outcome it assumed, so that `if c { A }; if !c { B }` has no path that
			// skips both A and B
			cv, neg := ssa.Value(i.Cond), false
			for {
				u, ok := cv.(*ssa.UnOp)
				if !ok || u.Op != token.NOT {
					break
				}
				cv, neg = u.X, !neg
			}
			if ph, ok := cv.(*ssa.Phi); ok {
				for _, br := range []struct {
					to  *ssa.BasicBlock
					val bool
				}{{t, !neg}, {f, neg}} {
					e2 := map[*ssa.Phi]bool{}
					for p, v := range env {
						e2[p] = v
					}
					e2[ph] = br.val
					walk(br.to, b, e2)
				}
				return
			}
		}
		for _, s := range b.Succs {
			walk(s, b, env)
		}
	}
	walk(start, from0, map[*ssa.Phi]bool{})
	return seen
}

func noOracle(ssa.Value) (bool, bool) { return false, false }

// pinnedOnBackEdge: value e, carried to the loop header along the edge
// latch->header, is known to be nil (or a false flag) there because a test of e
// itself sends every other outcome elsewhere.
func pinnedOnBackEdge(f *ssa.Function, e ssa.Value, latch, header *ssa.BasicBlock) bool {
	if isNilConst(e) || isConst(e) {
		return true
	}
	if e.Referrers() == nil {
		return false
	}
	holds := func(b, side *ssa.BasicBlock) bool {
		if b == latch && side == header {
			return true
		}
		return side != header && edgeDominates(f, b, side, latch)
	}
	for _, b := range f.Blocks {
		t, fl, ifi := ifSuccs(b)
		if ifi == nil {
			continue
		}
		c := ifi.Cond
		neg := false
		if u, ok := c.(*ssa.UnOp); ok && u.Op == token.NOT {
			c, neg = u.X, true
		}
		if c == e {
			// a flag: the way back needs it false
			side := fl
			if neg {
				side = t
			}
			if holds(b, side) {
				return true
			}
			continue
		}
		bo, ok := c.(*ssa.BinOp)
		if !ok || (bo.Op != token.NEQ && bo.Op != token.EQL) {
			continue
		}
		if !((bo.X == e && isNilConst(bo.Y)) || (bo.Y == e && isNilConst(bo.X))) {
			continue
		}
		side := fl // e != nil: the nil side is the false edge
		if (bo.Op == token.EQL) != neg {
			side = t
		}
		if holds(b, side) {
			return true
		}
	}
	return false
}

func nilable(t types.Type) bool {
	switch t.Underlying().(type) {
	case *types.Interface, *types.Pointer:
		return true
	}
	return false
}

// nonNilUnder: is v certainly non-nil (true) / certainly nil (false) given the
// phis tracked along the path?
func nonNilUnder(v ssa.Value, env map[*ssa.Phi]bool) (bool, bool) {
	if isNilConst(v) {
		return false, true
	}
	if ph, ok := v.(*ssa.Phi); ok {
		val, ok := env[ph]
		return val, ok
	}
	if mi, ok := v.(*ssa.MakeInterface); ok {
		if _, isPtr := mi.X.Type().Underlying().(*types.Pointer); !isPtr {
			return true, true
		}
	}
	if isErrorCtor(v) {
		return true, true
	}
	if rv := resolve(v); rv != v {
		return nonNilUnder(rv, env)
	}
	return false, false
}

// phiValueUnder: which incoming value does phi take when the CFG is explored
// under the oracle (unique if exactly one predecessor edge is feasible).
func phiValueUnder(f *ssa.Function, p *ssa.Phi, oracle func(ssa.Value) (bool, bool)) (ssa.Value, bool) {
	blk := p.Block()
	reach := simulate(f.Blocks[0], nil, oracle)
	var val ssa.Value
	n := 0
	for i, pred := range blk.Preds {
		if !reach[pred] {
			continue
		}
		// is the edge pred->blk feasible under the oracle?
		t, fl, ifi := ifSuccs(pred)
		if ifi != nil {
			if out, known := oracle(ifi.Cond); known {
				if (out && t != blk) || (!out && fl != blk) {
					continue
				}
			}
		}
		e := p.Edges[i]
		if val == nil || !equivValue(val, e) {
			n++
			val = e
		}
	}
	return val, n == 1
}

// selectRule checks that value sel (possibly a phi, or a min/max builtin call)
// equals min (wantMin) or max of a and b under all three orderings.
func selectIs(f *ssa.Function, sel, a, b ssa.Value, wantMin bool) (bool, string) {
	sel = resolve(sel)
	if c, ok := sel.(*ssa.Call); ok {
		bn := builtinName(c)
		if (bn == "min" && wantMin) || (bn == "max" && !wantMin) {
			if len(c.Call.Args) == 2 && ((equivValue(c.Call.Args[0], a) && equivValue(c.Call.Args[1], b)) || (equivValue(c.Call.Args[0], b) && equivValue(c.Call.Args[1], a))) {
				return true, "builtin " + bn
			}
		}
		return false, "selected by " + shortInstr(c)
	}
	p, ok := sel.(*ssa.Phi)
	if !ok {
		if equivValue(sel, a) || equivValue(sel, b) {
			return false, "always one of the two values, no selection"
		}
		return false, "not a selection between the two values (" + describeValue(sel) + ")"
	}
	for _, r := range []rel{relLT, relEQ, relGT} {
		v, uniq := phiValueUnder(f, p, oracleFor([]pairRel{{a, b, r}}))
		if !uniq {
			return false, "selection is not controlled by a comparison of the two selected values"
		}
		v = resolve(v)
		var want ssa.Value
		switch {
		case r == relEQ:
			if !(equivValue(v, a) || equivValue(v, b)) {
				return false, "selects a third value when the two are equal"
			}
			continue
		case (r == relLT) == wantMin:
			want = a
		default:
			want = b
		}
		if !equivValue(v, want) {
			which := "smaller"
			if !wantMin {
				which = "larger"
			}
			return false, "does not select the " + which + " of the two values in one ordering"
		}
	}
	return true, "comparison-controlled selection"
}

// ---------------------------------------------------------------- helpers

// parsedField: v == Atoi/ParseInt(Split(param p, "/")[k]) (extract #0) ?
func parsedField(v ssa.Value, p *ssa.Parameter, k int64) bool {
	v = resolve(v)
	ex, ok := v.(*ssa.Extract)
	if !ok || ex.Index != 0 {
		return false
	}
	c, ok := ex.Tuple.(*ssa.Call)
	if !ok || !(calleeIs(c, "strconv", "Atoi") || calleeIs(c, "strconv", "ParseInt")) {
		return false
	}
	return splitField(c.Call.Args[0], p, k)
}

// splitField: v == strings.Split(p, "/")[k]
func splitField(v ssa.Value, p *ssa.Parameter, k int64) bool {
	v = resolve(v)
	ld, ok := loadOf(v)
	if !ok {
		return false
	}
	ia, ok := ld.(*ssa.IndexAddr)
	if !ok {
		return false
	}
	idx, ok := constInt(ia.Index)
	if !ok || idx != k {
		return false
	}
	sc, ok := resolve(ia.X).(*ssa.Call)
	if !ok || !isSplitCall(sc, k+1) {
		return false
	}
	return resolve(sc.Call.Args[0]) == p
}

func isNamed(t types.Type, pkgRel, name string) bool {
	if p, ok := t.(*types.Pointer); ok {
		t = p.Elem()
	}
	n, ok := t.(*types.Named)
	if !ok {
		return false
	}
	return n.Obj().Name() == name && n.Obj().Pkg() != nil && n.Obj().Pkg().Path() == modPath+"/"+pkgRel
}

// ---------------------------------------------------------------- NOCLAMP

// ruleNoClamp: in the per-axis zoom functions no branch condition compares an
// index value (kind X, Y or F) except the test of the emission loop: a clamp
// or range check on the index changes which voxels refine or contain the input.
func ruleNoClamp(w *World, r *Report, fn string) {
	r.Rule("NOCLAMP", "in the per-axis zoom functions (HorizontalZoomMinMax, HorizontalZoom, VerticalZoom) branch conditions depend on the zoom difference only; an index value is compared only with another index (the bound test of the loop that emits the range, an emptiness test of that range), never with a constant or a zoom-derived limit (an index clamp or range check silently drops or moves voxels at the edge of the index range)")
	f := lookupByName(w, fn)
	if f == nil {
		r.add("NOCLAMP", fn, "?", Unresolved, "function not found")
		return
	}
	ke := kindsFor(w)
	idx := ks(kX, kY, kF)
	n, bad := 0, ""
	for _, blk := range f.Blocks {
		_, _, ifi := ifSuccs(blk)
		if ifi == nil {
			continue
		}
		c, ok := ifi.Cond.(*ssa.BinOp)
		if !ok {
			continue
		}
		n++
		kx, ky := ke.Eval(c.X), ke.Eval(c.Y)
		isIdx := func(a *AV) bool { return a != nil && a.Scalar&idx != 0 && a.Scalar&^idx == 0 }
		if !isIdx(kx) && !isIdx(ky) {
			continue
		}
		if isIdx(kx) && isIdx(ky) {
			// two indices compared with each other (range order / emptiness test,
			// loop bound): not a test against the edge of the index range
			continue
		}
		// loop test: one operand is a loop phi incremented by one in the loop
		loopTest := false
		for _, v := range []ssa.Value{c.X, c.Y} {
			if p, ok := v.(*ssa.Phi); ok && p.Block() == blk {
				for _, e := range p.Edges {
					if inc, ok := e.(*ssa.BinOp); ok && inc.Op == token.ADD && inc.X == ssa.Value(p) {
						if k, ok := constInt(inc.Y); ok && k == 1 {
							loopTest = true
						}
					}
				}
			}
		}
		if !loopTest {
			bad = "index value compared outside the emission loop test at " + w.Pos(c.Pos()) + " (" + shortInstr(c) + ")"
		}
	}
	// the vertical axis has two cells even at zoom 0 (f = 0 and f = -1): an ID
	// emitted as a constant ignores the sign of the input index
	if strings.HasSuffix(fn, ".VerticalZoom") {
		instrs(f, func(in ssa.Instruction) {
			c, ok := in.(*ssa.Call)
			if !ok || builtinName(c) != "append" {
				return
			}
			elems, _ := appendedElems(c)
			for _, el := range elems {
				if k, isK := resolve(el).(*ssa.Const); isK && k.Value != nil && isStringType(k.Type()) {
					bad = "a constant vertical ID (" + k.Value.String() + ") is emitted at " + w.Pos(c.Pos()) + ", whatever the input index is (below ground the ancestor of a negative index is negative at every zoom, also at zoom 0)"
				}
			}
		})
		for _, ret := range returnsOf(f) {
			if len(ret.Results) == 0 {
				continue
			}
			if vals, ok := sliceLiteral(ret.Results[0]); ok {
				for _, el := range vals {
					if k, isK := resolve(el).(*ssa.Const); isK && k.Value != nil && isStringType(k.Type()) {
						bad = "a constant vertical ID (" + k.Value.String() + ") is returned at " + w.Pos(ret.Pos()) + ", whatever the input index is (below ground the ancestor of a negative index is negative at every zoom, also at zoom 0)"
					}
				}
			}
		}
	}
	if bad != "" {
		r.add("NOCLAMP", fn, w.Pos(f.Pos()), Violated, bad)
	} else {
		r.add("NOCLAMP", fn, w.Pos(f.Pos()), Discharged, fmt.Sprintf("%d branch conditions: none clamps or range-checks an index", n))
	}
}

// ---------------------------------------------------------------- ELEMENTWISE

// ruleElementwise: the loop over the input list of an element-wise conversion
// carries no state from one element to the next except the loop counter, the
// result accumulators (slices / maps) and integer counters stepped by a constant.
func ruleElementwise(w *World, r *Report, fn string, pidx int) {
	r.Rule("ELEMENTWISE", "the per-element loop of a conversion carries nothing from one element to the next except the loop counter, result accumulators (slices, maps) and constant-step counters: a remembered previous key, tile or result makes an element's output depend on its neighbours (stale cache)")
	f := lookupByName(w, fn)
	if f == nil {
		r.add("ELEMENTWISE", fn, "?", Unresolved, "function not found")
		return
	}
	loop := loopOverParam(f, pidx)
	if loop == nil {
		r.add("ELEMENTWISE", fn, w.Pos(f.Pos()), Info, "no range loop over the input list")
		return
	}
	blocks := loop.blocks()
	bad := ""
	n := 0
	for _, in := range loop.Header.Instrs {
		p, ok := in.(*ssa.Phi)
		if !ok {
			continue
		}
		n++
		if isSlice(p.Type()) || isMap(p.Type()) {
			continue
		}
		// the rangeindex counter, or a counter stepped by a constant
		okCounter := false
		if isIntType(p.Type()) {
			okCounter = true
			for i, e := range p.Edges {
				if !blocks[loop.Header.Preds[i]] {
					continue
				}
				for _, leaf := range phiLeaves(e) {
					if leaf == ssa.Value(p) {
						continue
					}
					inc, ok := leaf.(*ssa.BinOp)
					if !ok || inc.Op != token.ADD || stripConv(inc.X) != ssa.Value(p) {
						okCounter = false
						continue
					}
					if _, isK := constInt(inc.Y); !isK {
						okCounter = false
					}
				}
			}
		}
		if okCounter {
			continue
		}
		// a value that never changes inside the loop is not state
		changes := false
		for i, e := range p.Edges {
			if blocks[loop.Header.Preds[i]] && resolve(e) != ssa.Value(p) {
				changes = true
			}
		}
		if !changes {
			continue
		}
		// a value that no instruction of the loop reads (an error or result variable that
		// is overwritten in every iteration and only looked at after the loop) carries
		// nothing from one element to the next
		readInLoop := false
		if p.Referrers() != nil {
			for _, ref := range *p.Referrers() {
				if _, isDbg := ref.(*ssa.DebugRef); isDbg {
					continue
				}
				if q, isPhi := ref.(*ssa.Phi); isPhi && (q == p || !blocks[q.Block()] || q.Block() == loop.Header) {
					continue
				}
				if blocks[ref.Block()] || ref.Block() == loop.Header {
					readInLoop = true
				}
			}
		}
		if !readInLoop {
			continue
		}
		// a value that a test pins to one constant on every way back to the header (an error
		// that is nil whenever the loop goes on, a stop flag that is false) is not state
		pinned := true
		for i, e := range p.Edges {
			if blocks[loop.Header.Preds[i]] {
				if !pinnedOnBackEdge(f, e, loop.Header.Preds[i], loop.Header) {
					pinned = false
				}
			} else if !isNilConst(e) && !isConst(e) {
				pinned = false
			}
		}
		if pinned {
			continue
		}
		bad = "loop-carried value " + p.Name() + " (" + p.Comment + ", " + p.Type().String() + ") is remembered from one element to the next"
	}
	// state carried through memory: a local variable declared before the loop,
	// written inside it, and read inside it at a point that is not preceded by a
	// write of the same iteration
	if bad == "" {
		instrs(f, func(in ssa.Instruction) {
			al, ok := in.(*ssa.Alloc)
			if !ok || blocks[al.Block()] || bad != "" || al.Referrers() == nil {
				return
			}
			et := al.Type().(*types.Pointer).Elem()
			if isSlice(et) || isMap(et) {
				return
			}
			type acc struct {
				blk *ssa.BasicBlock
				idx int
			}
			var writes, reads []acc
			posOf := func(x ssa.Instruction) acc {
				for i, y := range x.Block().Instrs {
					if y == x {
						return acc{x.Block(), i}
					}
				}
				return acc{x.Block(), 0}
			}
			var scan func(addr ssa.Value, depth int)
			scan = func(addr ssa.Value, depth int) {
				if addr.Referrers() == nil || depth > 2 {
					return
				}
				for _, ref := range *addr.Referrers() {
					if !blocks[ref.Block()] {
						continue
					}
					switch x := ref.(type) {
					case *ssa.Store:
						if x.Addr == addr {
							writes = append(writes, posOf(x))
						}
					case *ssa.UnOp:
						if x.Op == token.MUL {
							reads = append(reads, posOf(x))
						}
					case *ssa.FieldAddr:
						scan(x, depth+1)
					case *ssa.IndexAddr:
						scan(x, depth+1)
					}
				}
			}
			scan(al, 0)
			if len(writes) == 0 || len(reads) == 0 {
				return
			}
			// integer counters stepped by constants are fine
			if isIntType(et) {
				return
			}
			// an error variable (a named result kept in memory, a single-exit err): set by the
			// failing element, looked at to leave the loop; it carries no data between elements
			if isErrorType(et) {
				return
			}
			for _, rd := range reads {
				covered := false
				for _, wr := range writes {
					if (wr.blk == rd.blk && wr.idx < rd.idx) || (wr.blk != rd.blk && wr.blk.Dominates(rd.blk) && blocks[wr.blk]) {
						covered = true
					}
				}
				if !covered {
					bad = "local variable " + al.Comment + " (" + et.String() + "), declared before the loop, is written while one element is processed and read while the next one is: a value is remembered from one element to the next"
					return
				}
			}
		})
	}
	if bad != "" {
		r.Add(Obligation{Rule: "ELEMENTWISE", Key: "ELEMENTWISE / " + fn, Pos: w.Pos(f.Pos()), Status: Violated, Detail: bad, Canary: w.IsCanary(f)})
	} else {
		r.Add(Obligation{Rule: "ELEMENTWISE", Key: "ELEMENTWISE / " + fn, Pos: w.Pos(f.Pos()), Status: Discharged, Detail: fmt.Sprintf("%d loop-carried value(s): counter and accumulators only", n), Canary: w.IsCanary(f)})
	}
}

// ---------------------------------------------------------------- NOSKIP

// ruleNoSkip: in every loop of fn each iteration that returns to the loop
// header has recorded its element somewhere (append, map insert, or a call of
// an accumulating method): an element dropped on some path makes the result
// depend on what earlier elements happened to register.
func ruleNoSkip(w *World, r *Report, fn string) {
	r.Rule("NOSKIP", "every iteration of every loop of the listed function (merge pipeline, zoom change, pair conversions) records its element (append, map insert or HighSpatialID.Merge) before it returns to the loop header: no input ID, unit or group is silently dropped depending on the state built from earlier elements")
	f := lookupByName(w, fn)
	if f == nil {
		r.add("NOSKIP", fn, "?", Unresolved, "function not found")
		return
	}
	nloops := naturalLoops(f)
	isEffect := func(in ssa.Instruction) bool {
		switch x := in.(type) {
		case *ssa.MapUpdate:
			return true
		case *ssa.Store:
			// an indexed store into a list that exists outside this iteration (a pre-sized
			// result filled by index) records the element like an append does
			if ia, ok := x.Addr.(*ssa.IndexAddr); ok && isSlice(ia.X.Type()) {
				return true
			}
			return false
		case *ssa.Call:
			if builtinName(x) == "append" {
				return true
			}
			if mc, ok := resolve(x.Call.Value).(*ssa.MakeClosure); ok {
				if fn, ok := mc.Fn.(*ssa.Function); ok {
					cs := effectsFor(w).Summary(fn)
					if len(cs.WritesFree) > 0 || len(cs.WritesFreeDeep) > 0 {
						return true
					}
				}
			}
			if g := calleeOf(x); g != nil && isSetter(w, g) {
				// re-initialising a scratch object the function itself allocated
				// (s := &T{}; s.Reset(id)) records nothing
				if len(x.Call.Args) > 0 {
					if _, scratch := resolve(x.Call.Args[0]).(*ssa.Alloc); scratch {
						return false
					}
				}
				return true
			}
			// a module helper that writes into an object that outlives the iteration: a set it is
			// handed (by pointer, as a map, or as a closure that captured one)
			if g := calleeOf(x); g != nil && w.InModule(g) && g.Blocks != nil {
				outside := func(v ssa.Value) bool {
					in, ok := resolve(v).(ssa.Instruction)
					if !ok {
						return true
					}
					lp := innermostLoop(nloops, x.Block())
					return lp == nil || !lp.Blocks[in.Block()]
				}
				es := effectsFor(w).Summary(g)
				for j := range es.WritesParam {
					if j < len(x.Call.Args) && holdsRefs(x.Call.Args[j].Type()) && outside(x.Call.Args[j]) {
						return true
					}
				}
				for j := range es.WritesParamDeep {
					if j < len(x.Call.Args) && outside(x.Call.Args[j]) {
						return true
					}
				}
				for _, a := range x.Call.Args {
					// a function value created outside the loop (a stateful closure such as a
					// first-time filter) may record through what it captured
					if _, isFn := a.Type().Underlying().(*types.Signature); isFn && outside(a) {
						if _, isPlain := resolve(a).(*ssa.Function); !isPlain {
							return true
						}
					}
					if mc, ok := resolve(a).(*ssa.MakeClosure); ok {
						// a callback that writes what it captured: created outside the loop, or created
						// per iteration around something that lives outside it (a seen-set, the result)
						keeps := outside(a)
						for _, b := range mc.Bindings {
							if outside(b) {
								keeps = true
							}
						}
						if fn, ok := mc.Fn.(*ssa.Function); ok && keeps {
							cs := effectsFor(w).Summary(fn)
							if len(cs.WritesFree) > 0 || len(cs.WritesFreeDeep) > 0 {
								return true
							}
						}
					}
				}
				for i, a := range x.Call.Args {
					if !isMap(a.Type()) || i >= len(g.Params) {
						continue
					}
					ins := false
					instrs(g, func(in2 ssa.Instruction) {
						if mu, ok := in2.(*ssa.MapUpdate); ok && resolve(mu.Map) == ssa.Value(g.Params[i]) {
							ins = true
						}
					})
					if ins {
						return true
					}
				}
			}
		}
		return false
	}
	check := func(kind string, k int, header, body *ssa.BasicBlock, blocks map[*ssa.BasicBlock]bool) {
		stop := map[*ssa.BasicBlock]bool{}
		n := 0
		for b := range blocks {
			for _, in := range b.Instrs {
				if !isEffect(in) {
					continue
				}
				// an append to a scratch list created inside this very loop (and so thrown
				// away with the iteration) records nothing that outlives the iteration
				if c, ok := in.(*ssa.Call); ok && builtinName(c) == "append" {
					scratch := true
					ai := appendChain(c)
					for _, base := range ai.Bases {
						bi, isIn := base.(ssa.Instruction)
						if !isIn || !blocks[bi.Block()] {
							scratch = false
							continue
						}
						// the current value of a variable that lives outside the loop (a named
						// result kept in memory, a captured list) is not a per-iteration scratch list
						if ld, ok := loadOf(base); ok {
							if al, ok := ld.(*ssa.Alloc); ok && !blocks[al.Block()] {
								scratch = false
							}
							if _, ok := ld.(*ssa.FreeVar); ok {
								scratch = false
							}
							// a list kept in a field of an object reached through a pointer (a group looked
							// up in a map): it outlives the iteration unless the object was made in it
							if fa, ok := ld.(*ssa.FieldAddr); ok {
								if al, isAl := fa.X.(*ssa.Alloc); !isAl || !blocks[al.Block()] || al.Heap {
									scratch = false
								}
							}
						}
					}
					if scratch && len(ai.Bases) > 0 {
						continue
					}
				}
				// an effect on the way out of the function for good (a failure recorded before a
				// return) is not the recording of an element of the pipeline
				if !reachableFrom(b, nil)[header] {
					continue
				}
				stop[b] = true
				n++
			}
		}
		key := fmt.Sprintf("%s / %s loop#%d", fn, kind, k)
		if n == 0 {
			r.add("NOSKIP", key, w.Pos(header.Instrs[0].Pos()), Info, "loop without recording effect (not part of the pipeline)")
			return
		}
		// a nested loop that records its own elements stands for one bulk
		// append of its collection (which may be empty): reaching it counts
		for _, sr := range findSliceRanges(f) {
			if sr.Header != header && blocks[sr.Header] {
				for b := range sr.blocks() {
					if stop[b] {
						stop[sr.Header] = true
					}
				}
			}
		}
		for _, mr := range findMapRanges(f) {
			if mr.Header != header && blocks[mr.Header] {
				for b := range mr.blocks() {
					if stop[b] {
						stop[mr.Header] = true
					}
				}
			}
		}
		// a counted inner loop (for i := lo; i <= hi; i++) that records: its header
		// dominates the recording block and lies on a cycle with it that avoids
		// the outer header
		for e := range blocks {
			if !stop[e] {
				continue
			}
			back := reachableFrom(e, map[*ssa.BasicBlock]bool{header: true})
			for h := range blocks {
				if h != header && h != e && h.Dominates(e) && back[h] {
					stop[h] = true
				}
			}
		}
		// an element may be left out when its group is already complete: a branch taken
		// because a looked-up group reports IsDense() does not lose anything
		denseSkip := func(cond ssa.Value) (bool, bool) {
			cv := resolve(cond)
			neg := false
			if u, ok := cv.(*ssa.UnOp); ok && u.Op == token.NOT {
				cv, neg = resolve(u.X), true
			}
			if c, ok := cv.(*ssa.Call); ok && calleeOf(c) != nil && calleeOf(c).Name() == "IsDense" {
				return neg, true // explore only the not-dense side
			}
			// a hit in a seen-set (the key is inserted on the miss side) legitimately
			// records nothing: explore only the miss side
			var lk *ssa.Lookup
			switch y := cv.(type) {
			case *ssa.Extract:
				if y.Index == 1 {
					lk, _ = y.Tuple.(*ssa.Lookup)
				}
			case *ssa.Lookup:
				lk = y
			}
			// a pure membership test: the stored value is not looked at (or there is none to
			// look at); a map whose values steer the decision is state, not a seen-set
			if lk != nil && lk.CommaOk {
				if mt, ok := lk.X.Type().Underlying().(*types.Map); ok {
					pure := false
					switch et := mt.Elem().Underlying().(type) {
					case *types.Struct:
						pure = et.NumFields() == 0
					case *types.Basic:
						pure = et.Kind() == types.Bool
					}
					if e0 := extractOf(lk, 0); !pure && e0 != nil && hasRealReferrer(e0) {
						lk = nil
					}
				}
			}
			if lk != nil {
				// only when the duplicate is the element this very loop level handles:
				// test and insertion sit in the same innermost loop
				if mm, ok := resolve(lk.X).(*ssa.MakeMap); ok {
					for _, ref := range *mm.Referrers() {
						if mu, ok := ref.(*ssa.MapUpdate); ok && equivValue(mu.Key, lk.Index) && innermostLoop(nloops, mu.Block()) == innermostLoop(nloops, lk.Block()) {
							return neg, true
						}
					}
				}
			}
			// a hit in a seen-list (slices.Contains(done, key) with `done = append(done, key)` on
			// the other side, same loop level) is the same idiom with a list
			if c, ok := cv.(*ssa.Call); ok && (calleeIs(c, "slices", "Contains") || (calleeOf(c) != nil && calleeOf(c).Name() == "Include" && w.InModule(calleeOf(c)))) && len(c.Call.Args) == 2 {
				lst := c.Call.Args[0]
				found := false
				instrs(f, func(in2 ssa.Instruction) {
					ap, ok := in2.(*ssa.Call)
					if !ok || builtinName(ap) != "append" || found {
						return
					}
					if !sameListVar(ap, lst) {
						return
					}
					elems, _ := appendedElems(ap)
					for _, e := range elems {
						if equivValue(e, c.Call.Args[1]) && innermostLoop(nloops, ap.Block()) == innermostLoop(nloops, c.Block()) {
							found = true
						}
					}
				})
				if found {
					return neg, true
				}
			}
			// if register(set, element) { record }: a helper with the shape "false on hit;
			// insert and true on miss"
			if c, ok := cv.(*ssa.Call); ok && calleeOf(c) != nil && w.InModule(calleeOf(c)) && missThenInsertHelper(calleeOf(c)) {
				return !neg, true
			}
			return false, false
		}
		reach := simulate(body, stop, denseSkip)
		if os.Getenv("SID_DEBUG_NOSKIP") != "" {
			fmt.Fprintln(os.Stderr, "NOSKIP", key, "header", header.Index, "body", body.Index)
			for b := range stop {
				fmt.Fprintln(os.Stderr, "  stop", b.Index)
			}
			for b := range reach {
				fmt.Fprintln(os.Stderr, "  reach", b.Index)
			}
		}
		if reach[header] {
			r.add("NOSKIP", key, w.Pos(header.Instrs[0].Pos()), Violated, "an iteration can return to the loop header without recording its element (the element is dropped on that path)")
		} else {
			r.add("NOSKIP", key, w.Pos(header.Instrs[0].Pos()), Discharged, "every continuing iteration records its element")
		}
	}
	for k, sr := range findSliceRanges(f) {
		check("slice", k+1, sr.Header, sr.Body, sr.blocks())
	}
	for k, mr := range findMapRanges(f) {
		check("map", k+1, mr.Header, mr.Body, mr.blocks())
	}
}

// ---------------------------------------------------------------- CACHE-KEY

// ruleCacheKey: a local map used as a memo (its looked-up value is used as
// data and its stored values come from a call) must be keyed by a literal
// that contains every argument of the memoised call that varies inside the
// enclosing loop.
func ruleCacheKey(w *World, r *Report, in map[*ssa.Function]bool) {
	r.Rule("CACHE-KEY", "a local map whose looked-up values are used in place of a call result (a memo) is keyed by an array/struct literal (or the single varying argument itself) that contains every argument of the memoised call that changes from element to element: a key that omits one, or packs them lossily (shifts, sums), returns another element's result")
	n := 0
	for _, f := range w.ModFuncs {
		if f.Synthetic != "" || f.Blocks == nil {
			continue
		}
		can := w.IsCanary(f)
		if !can && in != nil && !in[f] {
			continue
		}
		name := w.FuncName(f)
		ord := 0
		instrs(f, func(ins ssa.Instruction) {
			mm, ok := ins.(*ssa.MakeMap)
			if !ok || mm.Referrers() == nil {
				return
			}
			var updates []*ssa.MapUpdate
			valueUsed := false
			for _, ref := range *mm.Referrers() {
				switch x := ref.(type) {
				case *ssa.MapUpdate:
					updates = append(updates, x)
				case *ssa.Lookup:
					if x.CommaOk {
						if e0 := extractOf(x, 0); e0 != nil && hasRealReferrer(e0) {
							valueUsed = true
						}
					} else if hasRealReferrer(x) {
						if b, isB := x.Type().Underlying().(*types.Basic); !isB || b.Kind() != types.Bool {
							valueUsed = true
						}
					}
				}
			}
			if os.Getenv("SID_DEBUG_CACHE") != "" {
				fmt.Fprintf(os.Stderr, "DEBUG cache %s: map %s valueUsed=%v updates=%d\n", name, mm.Name(), valueUsed, len(updates))
			}
			if !valueUsed || len(updates) == 0 {
				return
			}
			for _, mu := range updates {
				// the stored value comes from a call?
				var call *ssa.Call
				for _, leaf := range phiLeaves(resolve(mu.Value)) {
					switch y := leaf.(type) {
					case *ssa.Call:
						if builtinName(y) == "" {
							call = y
						}
					case *ssa.Extract:
						if c, ok := y.Tuple.(*ssa.Call); ok {
							call = c
						}
					}
				}
				if call == nil {
					// a struct/array literal of call results
					vals, ok := arrayLiteral(mu.Value)
					if !ok {
						vals, ok = arrayLiteral(resolve(mu.Value))
					}
					if !ok {
						vals, ok = structLiteralFields(resolve(mu.Value))
					}
					if ok {
						for _, v := range vals {
							if ex, ok := resolve(v).(*ssa.Extract); ok {
								if c, ok := ex.Tuple.(*ssa.Call); ok {
									call = c
								}
							}
						}
					}
				}
				if os.Getenv("SID_DEBUG_CACHE") != "" {
					fmt.Fprintf(os.Stderr, "DEBUG cache %s: update %s call=%v value=%s resolved=%s\n", name, shortInstr(mu), call != nil, describeValue(mu.Value), describeValue(resolve(mu.Value)))
					for _, in := range mu.Block().Instrs {
						fmt.Fprintf(os.Stderr, "      %s\n", shortInstr(in))
					}
				}
				if call == nil {
					continue
				}
				// a memo skips the call on a hit: the call runs only on the miss branch of a lookup
				onMiss := false
				for _, ref := range *mm.Referrers() {
					lk, ok := ref.(*ssa.Lookup)
					if !ok || !lk.CommaOk {
						continue
					}
					okv := extractOf(lk, 1)
					if okv == nil {
						continue
					}
					for _, blk := range f.Blocks {
						t, fl, ifi := ifSuccs(blk)
						if ifi == nil {
							continue
						}
						miss := fl
						cond := resolve(ifi.Cond)
						if u, isNot := cond.(*ssa.UnOp); isNot && u.Op == token.NOT {
							cond, miss = resolve(u.X), t
						}
						if cond != ssa.Value(okv) {
							continue
						}
						if blockDominatedByEdge(f, blk, miss, call.Block()) {
							onMiss = true
						}
					}
				}
				if !onMiss {
					continue
				}
				ord++
				n++
				key := fmt.Sprintf("CACHE-KEY / %s / memo#%d", name, ord)
				// varying arguments: defined inside a loop that contains the update
				var loopBlocks map[*ssa.BasicBlock]bool
				for _, sr := range findSliceRanges(f) {
					if sr.blocks()[mu.Block()] {
						loopBlocks = sr.blocks()
					}
				}
				varying := []ssa.Value{}
				for _, a := range call.Call.Args {
					ai, isInstr := resolve(a).(ssa.Instruction)
					if isInstr && loopBlocks != nil && loopBlocks[ai.Block()] {
						varying = append(varying, a)
					}
				}
				// key components
				comps := []ssa.Value{mu.Key}
				if vals, ok := arrayLiteral(mu.Key); ok {
					comps = vals
				} else if vals, ok := structLiteralFields(mu.Key); ok {
					comps = vals
				}
				missing := ""
				for _, a := range varying {
					found := false
					for _, c := range comps {
						if equivValue(c, a) {
							found = true
						}
					}
					// the argument is the key itself (a struct value handed over whole)
					if equivValue(mu.Key, a) {
						found = true
					}
					if !found {
						missing = describeValue(a)
					}
				}
				if missing != "" {
					r.Add(Obligation{Rule: "CACHE-KEY", Key: key, Pos: w.Pos(mu.Pos()), Status: Violated, Detail: "the memo of " + shortInstr(call) + " is keyed by " + describeValue(mu.Key) + ", which does not contain the varying argument " + missing + " as a component", Canary: can})
				} else {
					r.Add(Obligation{Rule: "CACHE-KEY", Key: key, Pos: w.Pos(mu.Pos()), Status: Discharged, Detail: "memo key holds every varying argument of the memoised call", Canary: can})
				}
			}
		})
	}
	r.Analysed["memo_maps"] = n
}

// structLiteralFields: values stored into the fields of a local struct that is then loaded.
func structLiteralFields(v ssa.Value) ([]ssa.Value, bool) {
	u, ok := v.(*ssa.UnOp)
	if !ok || u.Op != token.MUL {
		return nil, false
	}
	al, ok := u.X.(*ssa.Alloc)
	if !ok {
		return nil, false
	}
	if _, isStruct := al.Type().(*types.Pointer).Elem().Underlying().(*types.Struct); !isStruct {
		return nil, false
	}
	var out []ssa.Value
	for _, ref := range *al.Referrers() {
		if fa, ok := ref.(*ssa.FieldAddr); ok {
			for _, r2 := range *fa.Referrers() {
				if st, ok := r2.(*ssa.Store); ok && st.Addr == fa {
					out = append(out, st.Val)
				}
			}
		}
	}
	return out, len(out) > 0
}

func stdCallName(c *ssa.Call) (string, string) {
	g := calleeOf(c)
	if g == nil || pkgOf(g) == nil {
		return "", ""
	}
	name := g.Name()
	if o := g.Origin(); o != nil {
		name = o.Name()
	}
	return pkgOf(g).Path(), name
}

// sortedCompact: slices.Compact(x) of a list that was sorted in its natural
// order (slices.Sort / sort.Strings / sort.Ints on the same list, dominating
// the call): equal elements are adjacent, so the result is duplicate-free.
// Comparator-based forms (SortFunc / CompactFunc) are not accepted: nothing
// says the comparator separates exactly the unequal elements.
func sortedCompact(f *ssa.Function, c *ssa.Call) bool {
	if p, n := stdCallName(c); p != "slices" || n != "Compact" || len(c.Call.Args) != 1 {
		return false
	}
	arg := c.Call.Args[0]
	if sc, ok := resolve(arg).(*ssa.Call); ok {
		if p, n := stdCallName(sc); p == "slices" && n == "Sorted" {
			return true
		}
	}
	found := false
	instrs(f, func(in ssa.Instruction) {
		sc, ok := in.(*ssa.Call)
		if !ok || len(sc.Call.Args) < 1 {
			return
		}
		p, n := stdCallName(sc)
		if !((p == "slices" && n == "Sort") || (p == "sort" && (n == "Strings" || n == "Ints" || n == "Float64s"))) {
			return
		}
		if !equivValue(sc.Call.Args[0], arg) {
			return
		}
		if sc.Block() == c.Block() || sc.Block().Dominates(c.Block()) {
			found = true
		}
	})
	return found
}

// collectedKeys: slices.Collect(maps.Keys(m)) / slices.Sorted(maps.Keys(m)).
func collectedKeys(c *ssa.Call) bool {
	p, n := stdCallName(c)
	if p != "slices" || (n != "Collect" && n != "Sorted") || len(c.Call.Args) != 1 {
		return false
	}
	kc, ok := resolve(c.Call.Args[0]).(*ssa.Call)
	if !ok {
		return false
	}
	p2, n2 := stdCallName(kc)
	return p2 == "maps" && n2 == "Keys"
}

// weakDedup: positive evidence that a de-duplication on the way to v does not
// cover the whole result:
//   - a seen-set that is re-created inside an enclosing loop (it forgets the
//     elements of earlier iterations),
//   - separately de-duplicated batches appended to one another with nothing
//     making them disjoint,
//   - a seen-set key that omits a varying component of the appended element.
func (d *distinctEngine) weakDedup(f *ssa.Function, v ssa.Value) string {
	ai := appendChain(v)
	for _, ap := range ai.Appends {
		elems, spread := appendedElems(ap)
		// batches: append(acc, Unique(batch)...) where acc is itself accumulated
		if spread != nil {
			if c, ok := resolve(spread).(*ssa.Call); ok && (calleeIs(c, modPath+"/common", "Unique") || calleeIs(c, modPath+"/common", "Union")) {
				base := appendChain(ap.Call.Args[0])
				if len(base.Appends) > 0 || reachesItself(ap) {
					if !d.excludes(f, spread, ap.Call.Args[0], 0) {
						return "separately de-duplicated batches are appended to one another at " + d.w.Pos(ap.Pos()) + ": an ID that occurs in two batches is returned twice"
					}
				}
			}
		}
		if len(elems) != 1 {
			continue
		}
		el := elems[0]
		// the seen-set lookup guarding this append
		for _, blk := range f.Blocks {
			_, _, ifi := ifSuccs(blk)
			if ifi == nil || !(blk == ap.Block() || blk.Dominates(ap.Block())) {
				continue
			}
			c := resolve(ifi.Cond)
			if u, ok := c.(*ssa.UnOp); ok && u.Op == token.NOT {
				c = resolve(u.X)
			}
			var lk *ssa.Lookup
			switch y := c.(type) {
			case *ssa.Extract:
				lk, _ = y.Tuple.(*ssa.Lookup)
			case *ssa.Lookup:
				lk = y
			}
			if lk == nil {
				continue
			}
			mm, ok := resolve(lk.X).(*ssa.MakeMap)
			if !ok {
				continue
			}
			// re-created inside a loop (the block of the make lies on a cycle) while the
			// accumulator starts outside that cycle
			if selfReach(mm.Block()) {
				fromMM := reachableFrom(mm.Block(), nil)
				inCycle := func(b *ssa.BasicBlock) bool {
					return fromMM[b] && reachableFrom(b, nil)[mm.Block()]
				}
				acc := appendChain(ap.Call.Args[0])
				outlives := false
				for _, b := range acc.Bases {
					if in, isIn := b.(ssa.Instruction); isIn && !inCycle(in.Block()) {
						outlives = true
					}
					if _, isC := b.(*ssa.Const); isC {
						outlives = true
					}
				}
				if outlives && inCycle(ap.Block()) {
					return "the seen-set guarding the append at " + d.w.Pos(ap.Pos()) + " is re-created in every iteration of an enclosing loop: duplicates across iterations are not removed"
				}
			}
			// key components versus the varying parts of the appended element
			if equivValue(lk.Index, el) {
				continue
			}
			comps, okK := arrayLiteral(resolve(lk.Index))
			if !okK {
				comps, okK = structLiteralFields(resolve(lk.Index))
			}
			if !okK {
				continue
			}
			parts := elementParts(d.w, f, el)
			if len(parts) == 0 {
				continue
			}
			var loopBlocks map[*ssa.BasicBlock]bool
			for _, sr := range findSliceRanges(f) {
				if sr.blocks()[ap.Block()] && (loopBlocks == nil || len(sr.blocks()) > len(loopBlocks)) {
					loopBlocks = sr.blocks()
				}
			}
			for _, p := range parts {
				pi, isInstr := resolve(p).(ssa.Instruction)
				if !isInstr || loopBlocks == nil || !loopBlocks[pi.Block()] {
					continue // does not vary
				}
				inKey := false
				for _, k := range comps {
					if equivValue(k, p) {
						inKey = true
					}
				}
				if !inKey {
					return "the seen-set key at " + d.w.Pos(lk.Pos()) + " does not contain " + describeValue(p) + ", a varying component of the appended element: different elements are taken for duplicates"
				}
			}
		}
	}
	return ""
}

// elementParts: the values a struct element is made of (arguments of setter
// calls on it, stores into its fields), when it is built in place.
func elementParts(w *World, f *ssa.Function, el ssa.Value) []ssa.Value {
	var al *ssa.Alloc
	if ld, ok := loadOf(el); ok {
		al, _ = ld.(*ssa.Alloc)
	} else if a, ok := el.(*ssa.Alloc); ok {
		al = a
	}
	if al == nil || al.Referrers() == nil {
		return nil
	}
	var out []ssa.Value
	for _, ref := range *al.Referrers() {
		switch x := ref.(type) {
		case *ssa.Call:
			if g := calleeOf(x); g != nil && isSetter(w, g) && len(x.Call.Args) > 1 && x.Call.Args[0] == ssa.Value(al) {
				out = append(out, x.Call.Args[1:]...)
			}
		case *ssa.FieldAddr:
			for _, r2 := range *x.Referrers() {
				if st, ok := r2.(*ssa.Store); ok && st.Addr == ssa.Value(x) {
					out = append(out, st.Val)
				}
			}
		}
	}
	return out
}

// ifHitSucc: the successor of the If in blk taken when the lookup hits.
func ifHitSucc(blk *ssa.BasicBlock, lk *ssa.Lookup) *ssa.BasicBlock {
	t, fl, ifi := ifSuccs(blk)
	if ifi == nil {
		return nil
	}
	c := resolve(ifi.Cond)
	neg := false
	if u, ok := c.(*ssa.UnOp); ok && u.Op == token.NOT {
		c, neg = resolve(u.X), true
	}
	switch y := c.(type) {
	case *ssa.Extract:
		if y.Tuple != ssa.Value(lk) || y.Index != 1 {
			return nil
		}
	case *ssa.Lookup:
		if y != lk {
			return nil
		}
	default:
		return nil
	}
	if neg {
		return fl
	}
	return t
}

// seenLeavesLoop: a test of a local seen-set whose hit edge leaves the
// innermost loop around it (break, labelled continue of an outer loop)
// instead of going on with that loop's next element.
func seenLeavesLoop(w *World, f *ssa.Function) string {
	loops := naturalLoops(f)
	for _, blk := range f.Blocks {
		_, _, ifi := ifSuccs(blk)
		if ifi == nil {
			continue
		}
		c := resolve(ifi.Cond)
		if u, ok := c.(*ssa.UnOp); ok && u.Op == token.NOT {
			c = resolve(u.X)
		}
		var lk *ssa.Lookup
		switch y := c.(type) {
		case *ssa.Extract:
			lk, _ = y.Tuple.(*ssa.Lookup)
		case *ssa.Lookup:
			lk = y
		}
		if lk == nil {
			continue
		}
		mm, ok := resolve(lk.X).(*ssa.MakeMap)
		if !ok {
			continue
		}
		// a seen-set: the looked-up key is also inserted on the miss side
		inserts := false
		for _, ref := range *mm.Referrers() {
			if mu, ok := ref.(*ssa.MapUpdate); ok && equivValue(mu.Key, lk.Index) {
				inserts = true
			}
		}
		if !inserts {
			continue
		}
		hit := ifHitSucc(blk, lk)
		if hit == nil {
			continue
		}
		il := innermostLoop(loops, blk)
		if il == nil {
			continue
		}
		inner, innerHdr := il.Blocks, il.Header
		stop := rotatedLatches(il)
		if stop[hit] {
			continue
		}
		stop[innerHdr] = true
		for b := range reachableFrom(hit, stop) {
			if !inner[b] && b != innerHdr {
				if _, isRet := b.Instrs[len(b.Instrs)-1].(*ssa.Return); isRet && len(b.Preds) > 0 {
					// leaving through a return is an answer, not a skipped tail
					continue
				}
				return "when the element tested at " + w.Pos(lk.Pos()) + " is already in the seen-set, the enclosing loop is left (break / labelled continue) instead of going on with its next element: elements after a duplicate are never examined"
			}
		}
	}
	return ""
}

// ---------------------------------------------------------------- UNTRIMMED

// ruleUntrimmed: a list created with a non-zero length (make([]T, n)), filled
// through a separate counter that some iteration of the filling loop does not
// advance (an element is skipped), and then used as a whole -- never cut to
// the counter -- still holds zero values in its unfilled tail: they are
// reported as if they were elements.
func ruleUntrimmed(w *World, r *Report, in map[*ssa.Function]bool) {
	r.Rule("UNTRIMMED", "a list made with a non-zero length and filled through a counter that an iteration of the filling loop can leave unchanged (a skipped element) is cut to the counter before it is used as a whole; otherwise the zero values of the unfilled tail are reported as elements")
	for _, f := range w.ModFuncs {
		if f.Synthetic != "" || f.Blocks == nil {
			continue
		}
		can := w.IsCanary(f)
		if !can && (in == nil || !in[f]) {
			continue
		}
		name := w.FuncName(f)
		loops := naturalLoops(f)
		ord := 0
		instrs(f, func(ins ssa.Instruction) {
			ms, ok := ins.(*ssa.MakeSlice)
			if !ok || ms.Referrers() == nil {
				return
			}
			if c, isC := constInt(ms.Len); isC && c == 0 {
				return
			}
			var stores []*ssa.IndexAddr
			cut, whole := false, ""
			for _, ref := range *ms.Referrers() {
				switch x := ref.(type) {
				case *ssa.IndexAddr:
					if x.Referrers() != nil {
						for _, r2 := range *x.Referrers() {
							if st, isSt := r2.(*ssa.Store); isSt && st.Addr == ssa.Value(x) {
								stores = append(stores, x)
							}
						}
					}
				case *ssa.Slice:
					if x.High != nil {
						cut = true
					}
				case *ssa.DebugRef:
				case *ssa.Call:
					if bn := builtinName(x); bn == "len" || bn == "cap" {
						continue
					}
					whole = shortInstr(x)
				case *ssa.Return, *ssa.Store, *ssa.MakeInterface, *ssa.Phi:
					whole = shortInstr(x.(ssa.Instruction))
				}
			}
			if len(stores) == 0 || cut || whole == "" {
				return
			}
			// every store goes through a counter (phi advanced by one), not through the
			// induction variable of the loop it sits in
			skipped := ""
			for _, ia := range stores {
				phi, isPhi := resolve(ia.Index).(*ssa.Phi)
				if !isPhi {
					return
				}
				stepped := false
				for _, e := range phi.Edges {
					if b, ok := resolve(e).(*ssa.BinOp); ok && b.Op == token.ADD {
						// advanced exactly where the store happens (the induction variable of the
						// loop is advanced in the loop's own step block instead)
						if c, ok := constInt(b.Y); ok && c == 1 && reachesPhi(b.X, phi, 0) && (b.Block() == ia.Block() || ia.Block().Dominates(b.Block())) {
							stepped = true
						}
					}
				}
				if !stepped {
					return
				}
				l := innermostLoop(loops, ia.Block())
				if l == nil {
					return
				}
				// an iteration of the innermost loop that comes back to the header without the store
				for _, s := range l.Header.Succs {
					if !l.Blocks[s] || s == l.Header {
						continue
					}
					reach := reachableFrom(s, map[*ssa.BasicBlock]bool{ia.Block(): true, l.Header: true})
					for b := range reach {
						for _, s2 := range b.Succs {
							if s2 == l.Header && l.Blocks[b] {
								skipped = w.Pos(b.Instrs[len(b.Instrs)-1].Pos())
							}
						}
					}
				}
			}
			ord++
			key := fmt.Sprintf("UNTRIMMED / %s / list#%d", name, ord)
			if skipped != "" {
				r.Add(Obligation{Rule: "UNTRIMMED", Key: key, Pos: w.Pos(ms.Pos()), Status: Violated, Detail: "the list is made with its full length, an iteration of the filling loop can skip the store without advancing the counter, and the list is then used whole (" + whole + "): the unfilled tail holds zero values", Canary: can})
			} else {
				r.Add(Obligation{Rule: "UNTRIMMED", Key: key, Pos: w.Pos(ms.Pos()), Status: Discharged, Detail: "every iteration of the filling loop stores one element", Canary: can})
			}
		})
	}
}

// reachesPhi: v is phi itself, possibly through other phis.
func reachesPhi(v ssa.Value, phi *ssa.Phi, depth int) bool {
	v = resolve(v)
	if v == ssa.Value(phi) {
		return true
	}
	if p, ok := v.(*ssa.Phi); ok && depth < 4 {
		for _, e := range p.Edges {
			if reachesPhi(e, phi, depth+1) {
				return true
			}
		}
	}
	return false
}

// sameListVar: the append feeds the variable whose current value is lst (the
// two are linked through the phi web of one source variable).
func sameListVar(ap *ssa.Call, lst ssa.Value) bool {
	ai := appendChain(ap)
	li := phiLeaves(lst)
	for _, l := range li {
		l = resolve(l)
		if l == ssa.Value(ap) {
			return true
		}
		for _, b := range ai.Bases {
			if resolve(b) == l {
				return true
			}
		}
	}
	return false
}

// appendLoopsOn: from the block of the append the header of the nested loop is
// reachable again without leaving that loop.
func appendLoopsOn(ap *ssa.Call, header *ssa.BasicBlock, blocks map[*ssa.BasicBlock]bool) bool {
	seen := map[*ssa.BasicBlock]bool{}
	var walk func(b *ssa.BasicBlock) bool
	walk = func(b *ssa.BasicBlock) bool {
		if b == header {
			return true
		}
		if seen[b] || !blocks[b] {
			return false
		}
		seen[b] = true
		for _, s := range b.Succs {
			if walk(s) {
				return true
			}
		}
		return false
	}
	for _, s := range ap.Block().Succs {
		if walk(s) {
			return true
		}
	}
	return false
}

// successValues: the values result #idx can have at this return when the
// error result is nil.  For an ordinary return that is the operand itself.
// For a single exit whose operands are phis of one block (named results, one
// `return v, err`), only the incoming values paired with a nil (or not
// classifiable: uncertain) error are kept.
func successValues(f *ssa.Function, ret *ssa.Return, idx int) (vals []ssa.Value, uncertain bool) {
	// a result kept in a variable (named results of a function with defer, a result that a
	// closure assigns): everything ever stored into it, flow-insensitively
	if idx < len(ret.Results) {
		if ld, ok := ret.Results[idx].(*ssa.UnOp); ok && ld.Op == token.MUL && resolve(ld) == ssa.Value(ld) {
			if al, ok := ld.X.(*ssa.Alloc); ok {
				if stored := storesInto(al); len(stored) > 0 {
					return stored, true
				}
			}
		}
	}
	ei := errResultIndex(f)
	if ei < 0 || ei >= len(ret.Results) || idx >= len(ret.Results) {
		return []ssa.Value{ret.Results[idx]}, false
	}
	pe, okE := ret.Results[ei].(*ssa.Phi)
	if !okE {
		return []ssa.Value{ret.Results[idx]}, false
	}
	pv, okV := ret.Results[idx].(*ssa.Phi)
	for i, e := range pe.Edges {
		cls := classifyErrValue(f, e, pe.Block().Preds[i], map[ssa.Value]bool{})
		if cls == retError {
			continue
		}
		if cls == retUnknown {
			uncertain = true
		}
		if okV && pv.Block() == pe.Block() {
			vals = append(vals, pv.Edges[i])
		} else {
			vals = append(vals, ret.Results[idx])
		}
	}
	return vals, uncertain
}

// storesInto: the values stored into the local variable, in this function and in
// the closures that captured it (loads of the variable itself are skipped: x = f(x)).
func storesInto(al *ssa.Alloc) []ssa.Value {
	var out []ssa.Value
	seen := map[ssa.Value]bool{}
	var scan func(addr ssa.Value, depth int)
	scan = func(addr ssa.Value, depth int) {
		if addr.Referrers() == nil || depth > 2 {
			return
		}
		for _, ref := range *addr.Referrers() {
			switch x := ref.(type) {
			case *ssa.Store:
				if x.Addr == addr && !seen[x.Val] {
					seen[x.Val] = true
					if c, isC := x.Val.(*ssa.Const); isC && c.Value == nil {
						continue // = nil
					}
					out = append(out, x.Val)
				}
			case *ssa.MakeClosure:
				fn, _ := x.Fn.(*ssa.Function)
				for i, b := range x.Bindings {
					if b == addr && fn != nil && i < len(fn.FreeVars) {
						scan(fn.FreeVars[i], depth+1)
					}
				}
			}
		}
	}
	scan(al, 0)
	return out
}

// anySortBefore: some sort of the compacted list precedes the Compact call -- a
// natural sort, or one with a comparator the rule does not read (SortFunc,
// sort.Slice, ...): the Compact is then not evidently applied to an unsorted list.
func anySortBefore(f *ssa.Function, c *ssa.Call) bool {
	if len(c.Call.Args) < 1 {
		return false
	}
	arg := c.Call.Args[0]
	found := false
	instrs(f, func(in ssa.Instruction) {
		sc, ok := in.(*ssa.Call)
		if !ok || len(sc.Call.Args) < 1 {
			return
		}
		p, n := stdCallName(sc)
		if !((p == "slices" && strings.HasPrefix(n, "Sort")) || (p == "sort" && (n == "Slice" || n == "SliceStable" || n == "Sort" || n == "Stable" || n == "Strings" || n == "Ints" || n == "Float64s"))) {
			return
		}
		a0 := sc.Call.Args[0]
		if mi, isMI := a0.(*ssa.MakeInterface); isMI {
			a0 = mi.X
		}
		if !equivValue(a0, arg) && resolve(a0) != resolve(arg) {
			return
		}
		if sc.Block() == c.Block() || sc.Block().Dominates(c.Block()) {
			found = true
		}
	})
	return found
}

// ---------------------------------------------------------------- sort + Compact with a partial comparator

// partialComparator: slices.SortFunc(list, cmp) precedes slices.Compact(list);
// the elements are structs built in this function; the comparator looks at
// some of their fields only, and a field it ignores is set from a value that
// changes from element to element.  Elements that are equal as a whole are then
// not necessarily adjacent after the sort, and Compact (which compares whole
// elements) leaves duplicates.
func partialComparator(w *World, f *ssa.Function, compact *ssa.Call) string {
	if len(compact.Call.Args) < 1 {
		return ""
	}
	arg := compact.Call.Args[0]
	var sortCall *ssa.Call
	instrs(f, func(in ssa.Instruction) {
		sc, ok := in.(*ssa.Call)
		if !ok || len(sc.Call.Args) != 2 {
			return
		}
		if p, n := stdCallName(sc); p != "slices" || (n != "SortFunc" && n != "SortStableFunc") {
			return
		}
		if !equivValue(sc.Call.Args[0], arg) && resolve(sc.Call.Args[0]) != resolve(arg) {
			return
		}
		if sc.Block() == compact.Block() || sc.Block().Dominates(compact.Block()) {
			sortCall = sc
		}
	})
	if sortCall == nil {
		return ""
	}
	var cmpFn *ssa.Function
	switch x := resolve(sortCall.Call.Args[1]).(type) {
	case *ssa.MakeClosure:
		cmpFn, _ = x.Fn.(*ssa.Function)
	case *ssa.Function:
		cmpFn = x
	}
	if cmpFn == nil || cmpFn.Blocks == nil || len(cmpFn.Params) != 2 {
		return ""
	}
	st, ok := cmpFn.Params[0].Type().Underlying().(*types.Struct)
	if !ok {
		if pt, isP := cmpFn.Params[0].Type().Underlying().(*types.Pointer); isP {
			st, ok = pt.Elem().Underlying().(*types.Struct)
		}
		if !ok {
			return ""
		}
	}
	// fields the comparator reads (through getters or directly)
	read := map[*types.Var]bool{}
	opaque := false
	instrs(cmpFn, func(in ssa.Instruction) {
		switch x := in.(type) {
		case *ssa.Call:
			g := calleeOf(x)
			if g == nil {
				return
			}
			if fv := accessorField(g); fv != nil {
				read[fv] = true
				return
			}
			// the whole element handed to something else: it may look at every field
			for _, a := range x.Call.Args {
				if v := resolve(a); v == ssa.Value(cmpFn.Params[0]) || v == ssa.Value(cmpFn.Params[1]) {
					opaque = true
				}
				if ld, ok := loadOf(a); ok {
					if al, ok := ld.(*ssa.Alloc); ok {
						if sv := singleStoreAny(al); sv == ssa.Value(cmpFn.Params[0]) || sv == ssa.Value(cmpFn.Params[1]) {
							opaque = true
						}
					}
				}
			}
		case *ssa.FieldAddr:
			if fv, _, ok := fieldOf(x); ok {
				read[fv] = true
			}
		case *ssa.Field:
			if x.Field < st.NumFields() {
				read[st.Field(x.Field)] = true
			}
		case *ssa.BinOp:
			// a == b on whole elements
			if (x.Op == token.EQL || x.Op == token.NEQ) && types.Identical(x.X.Type(), cmpFn.Params[0].Type()) {
				opaque = true
			}
		}
	})
	if opaque || len(read) == 0 {
		return ""
	}
	var ignored []*types.Var
	for i := 0; i < st.NumFields(); i++ {
		if !read[st.Field(i)] {
			ignored = append(ignored, st.Field(i))
		}
	}
	if len(ignored) == 0 {
		return ""
	}
	// how the ignored fields of the elements are set: setter calls and field stores on local
	// element variables, in f -- or, when f is a helper that receives the list, in its callers
	builders := []*ssa.Function{f}
	if _, isParam := resolve(arg).(*ssa.Parameter); isParam {
		for _, g := range w.ModFuncs {
			if g.Blocks == nil || g == f {
				continue
			}
			calls := false
			instrs(g, func(in ssa.Instruction) {
				if c, ok := in.(*ssa.Call); ok && calleeOf(c) == f {
					calls = true
				}
			})
			if calls {
				builders = append(builders, g)
			}
		}
	}
	bad := ""
	for _, bf := range builders {
		loops := naturalLoops(bf)
		varying := func(v ssa.Value) bool {
			v = resolve(v)
			in, ok := v.(ssa.Instruction)
			if !ok {
				return false // parameter, constant
			}
			return innermostLoop(loops, in.Block()) != nil
		}
		instrs(bf, func(in ssa.Instruction) {
			if bad != "" {
				return
			}
			switch x := in.(type) {
			case *ssa.Call:
				g := calleeOf(x)
				if g == nil || !isSetter(w, g) || len(x.Call.Args) < 2 {
					return
				}
				for pi, fv := range setterFields(g) {
					if pi >= len(x.Call.Args) {
						continue
					}
					for _, ig := range ignored {
						if fv == ig && varying(x.Call.Args[pi]) {
							bad = fmt.Sprintf("the comparator of %s ignores field %s, which is set from %s (different from element to element)", shortInstr(sortCall), ig.Name(), describeValue(x.Call.Args[pi]))
						}
					}
				}
			case *ssa.Store:
				if fv, _, ok := fieldOf(x.Addr); ok {
					for _, ig := range ignored {
						if fv == ig && varying(x.Val) {
							bad = fmt.Sprintf("the comparator of %s ignores field %s, which is set from %s (different from element to element)", shortInstr(sortCall), ig.Name(), describeValue(x.Val))
						}
					}
				}
			}
		})
	}
	return bad
}

// setterFields: parameter index -> field of the receiver the setter stores it into.
func setterFields(g *ssa.Function) map[int]*types.Var {
	out := map[int]*types.Var{}
	if g.Blocks == nil {
		return out
	}
	instrs(g, func(in ssa.Instruction) {
		st, ok := in.(*ssa.Store)
		if !ok {
			return
		}
		fv, _, ok := fieldOf(st.Addr)
		if !ok {
			return
		}
		if pi := paramIndex(g, resolve(st.Val)); pi > 0 {
			out[pi] = fv
		}
	})
	return out
}
