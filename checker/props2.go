package main

import (
	"fmt"
	"go/token"
	"strings"

	"golang.org/x/tools/go/ssa"
)

func init() {
	register(&propSpec{ID: "C05", Level: "other", Run: runC05,
		Explain: otherNote + "C05: decided = both IDs are aligned to the per-axis minimum zoom with integrate.ChangeExtendedSpatialIdsZoom itself; the array form is the disjunction of the pair form; every element of both lists is inserted/queried; the tree is never queried when empty; both halves of the altitude-key range are consumed (known finding D8); malformed IDs fail; the aligned IDs that are compared as strings are printed from parsed integers.",
		Canary:  []CanaryExpect{{Rule: "RANGEUSE", Bad: "canaryBadDropMax", Good: "canaryGoodBothBounds"}}})
	register(&propSpec{ID: "C06", Level: "other", Run: runC06,
		Explain: otherNote + "C06: decided = result de-duplicated on every success path; the end-point voxels are part of every returned list; single-voxel short cut; every midpoint voxel is reported and looked up at the requested zooms; spatial form = extended form with h = v. Gap-freeness and 'only voxels the segment touches' are NOT decided.",
		Canary:  []CanaryExpect{{Rule: "KIND-LAYOUT", Bad: "canaryBadFloatText", Good: "canaryGoodIntText"}}})
	register(&propSpec{ID: "C07", Level: "other", Run: runC07,
		Explain: otherNote + "C07: decided = output layout hZoom/x/y/vZoom/f with zooms copied, x and y wrapped by isomorphic computations, the vertical index exactly f + dv (no clamp, wrap or branch), malformed input yields the empty ID; no non-empty return hands back the parsed ID with its vertical index untouched on a path that does not depend on dv. Exactness of the float Pow/Mod arithmetic is NOT decided.",
		Canary: []CanaryExpect{{Rule: "NOWRAP-F", Bad: "canaryBadClampF", Good: "canaryGoodPlainF"},
			{Rule: "REM-SIGN", Bad: "canaryBadRemWrap", Good: ""}, {Rule: "FLOATGUARD", Bad: "canaryBadFloatGuard", Good: ""}}})
	register(&propSpec{ID: "C08", Level: "other", Run: runC08,
		Canary:  []CanaryExpect{{Rule: "RADIX", Bad: "canaryBadRadix", Good: "canaryGoodRadix"}},
		Explain: otherNote + "C08: decided = the constant stencils are exactly the 6 / 8 / 26 offset sets, each offset once, all produced through GetShiftingSpatialID; the N-layer loop nest is the full box minus the origin applied to every input ID; N-layer result de-duplicated; negative layers rejected."})
}

func runC05(w *World, r *Report, tier string) {
	kindRuleTexts(r)
	unresolvedSeeds(w, r)
	entries := entryFuncs(w, r, "detector.CheckSpatialIdsOverlap", "detector.CheckSpatialIdsArrayOverlap",
		"detector.CheckExtendedSpatialIdsOverlap", "detector.CheckExtendedSpatialIdsArrayOverlap")
	ruleChunks(w, r, closureOf(w, entries))
	cl := closureOf(w, entries)
	r.Analysed["closure_functions"] = len(cl)
	det := map[*ssa.Function]bool{}
	for f := range cl {
		if p := pkgOf(f); p != nil && p.Path() == modPath+"/detector" {
			det[f] = true
		}
	}
	kr := kindRulesFor(w)
	kr.emit(w, r, []string{"ROUND", "KIND-CALL"}, cl)
	ruleOverlapAlign(w, r)
	ruleExistsLoop(w, r)
	ruleTreeOverlap(w, r)
	ruleRangeUse(w, r, det)
	ruleVerbatim(w, r, "integrate.ChangeExtendedSpatialIdsZoom") // the aligned IDs are compared as strings
	// single-pair spatial form = array form on two singletons
	if f := lookupByName(w, "detector.CheckSpatialIdsOverlap"); f != nil {
		g := lookupByName(w, "detector.CheckSpatialIdsArrayOverlap")
		ok := false
		for _, c := range callsTo(f, func(x *ssa.Function) bool { return x == g }) {
			a, ok1 := sliceLiteral(c.Call.Args[0])
			b, ok2 := sliceLiteral(c.Call.Args[1])
			if ok1 && ok2 && len(a) == 1 && len(b) == 1 && resolve(a[0]) == ssa.Value(f.Params[0]) && resolve(b[0]) == ssa.Value(f.Params[1]) {
				ok = true
				for _, ret := range returnsOf(f) {
					if resolve(ret.Results[0]) != ssa.Value(extractOf(c, 0)) {
						ok = false
					}
				}
			}
		}
		r.Rule("WRAPPER", "the single-pair spatial-ID check is the array check applied to the two one-element lists {id1}, {id2}")
		if ok {
			r.add("WRAPPER", "detector.CheckSpatialIdsOverlap", w.Pos(f.Pos()), Discharged, "returns CheckSpatialIdsArrayOverlap({id1}, {id2})")
		} else {
			r.add("WRAPPER", "detector.CheckSpatialIdsOverlap", w.Pos(f.Pos()), Undecided, "was not recognised to return CheckSpatialIdsArrayOverlap({id1}, {id2}) unchanged")
		}
	}
	for _, n := range []string{"detector.CheckSpatialIdsArrayOverlap", "detector.CheckExtendedSpatialIdsOverlap", "detector.CheckExtendedSpatialIdsArrayOverlap"} {
		ruleNoPartial(w, r, n)
	}
}

func runC06(w *World, r *Report, tier string) {
	kindRuleTexts(r)
	unresolvedSeeds(w, r)
	ruleSignedField(w, r)
	entries := entryFuncs(w, r, "shape.GetExtendedSpatialIdsOnLine", "shape.GetSpatialIdsOnLine")
	ruleChunks(w, r, closureOf(w, entries))
	cl := closureOf(w, entries)
	r.Analysed["closure_functions"] = len(cl)
	own := map[*ssa.Function]bool{}
	for f := range cl {
		if p := pkgOf(f); p != nil && p.Path() == modPath+"/shape" {
			own[f] = true
		}
	}
	kr := kindRulesFor(w)
	kr.emit(w, r, []string{"ROUND", "FLOOR-NOBIAS", "KIND-CALL", "KIND-LAYOUT"}, own)
	for _, n := range []string{"shape.GetExtendedSpatialIdsOnLine", "shape.GetSpatialIdsOnLine"} {
		if f := lookupByName(w, n); f != nil {
			ruleDistinct(w, r, f)
		}
	}
	ruleLineIncludes(w, r)
	ruleThresholdAxis(w, r)
	ruleWrapper(w, r, wrapperSpec{Wrapper: "shape.GetSpatialIdsOnLine", Extended: "shape.GetExtendedSpatialIdsOnLine", ZoomArg: 2, ExtH: 2, ExtV: 3, IDsArg: -1, PassArgs: [][2]int{{0, 0}, {1, 1}}})
	guardRows(w, r, "C06")
}

func runC07(w *World, r *Report, tier string) {
	kindRuleTexts(r)
	unresolvedSeeds(w, r)
	ruleLenCap(w, r)
	entries := entryFuncs(w, r, "operated.GetShiftingSpatialID")
	cl := closureOf(w, entries)
	ruleIndexIntervalOpt(w, r, cl, true)
	r.Analysed["closure_functions"] = len(cl)
	kr := kindRulesFor(w)
	kr.emit(w, r, []string{"KIND-CALL", "KIND-LAYOUT", "KIND-STORE", "REM-SIGN"}, cl)
	ruleAxisSym(w, r, "operated.GetShiftingSpatialID")
	ruleNoWrapF(w, r, lookupByName(w, "operated.GetShiftingSpatialID"))
	for _, f := range canaryFuncs(w) {
		if containsAny(f.Name(), "canaryBadClampF", "canaryGoodPlainF") {
			ruleNoWrapF(w, r, f)
		}
	}
	ruleZoomPassthru(w, r)
	ruleIndexRange(w, r)
	ruleFloatGuard(w, r, "operated.GetShiftingSpatialID")
	guardRows(w, r, "C07")
}

func runC08(w *World, r *Report, tier string) {
	kindRuleTexts(r)
	unresolvedSeeds(w, r)
	ruleLenCap(w, r)
	entries := entryFuncs(w, r, "operated.Get6spatialIdsAdjacentToFaces", "operated.Get8spatialIdsAroundHorizontal",
		"operated.Get26spatialIdsAroundVoxel", "operated.GetNspatialIdsAroundVoxcels")
	ruleChunks(w, r, closureOf(w, entries))
	cl := closureOf(w, entries)
	r.Analysed["closure_functions"] = len(cl)
	own := map[*ssa.Function]bool{}
	for _, f := range entries {
		own[f] = true
	}
	kr := kindRulesFor(w)
	kr.emit(w, r, []string{"KIND-CALL", "KIND-LAYOUT"}, own)
	kr.emit(w, r, []string{"REM-SIGN"}, cl)
	ruleStencil(w, r)
	if f := lookupByName(w, "operated.GetNspatialIdsAroundVoxcels"); f != nil {
		ruleDistinct(w, r, f)
	}
	// the shift function itself keeps the vertical axis unbounded (the stencils rely on it)
	ruleNoWrapF(w, r, lookupByName(w, "operated.GetShiftingSpatialID"))
	guardRows(w, r, "C08")
}

// shiftOutputs locates, for every return of a shift-like function, the numeric
// values printed as fields 0..4 of the returned ID: either the FormatInt
// arguments of a joined five-element literal, or the arguments of the setters
// applied to the object whose ID() is returned (missing entries = field kept
// from the copied source object).
func shiftOutputs(w *World, f *ssa.Function) []map[int]ssa.Value {
	var outs []map[int]ssa.Value
	ke := kindsFor(w)
	idFn := lookupByName(w, "common/object.(ExtendedSpatialID).ID")
	for _, ret := range returnsOf(f) {
		c, ok := resolve(ret.Results[0]).(*ssa.Call)
		if !ok {
			continue
		}
		if calleeIs(c, "strings", "Join") {
			vals, ok := sliceLiteral(c.Call.Args[0])
			if !ok || len(vals) != 5 {
				continue
			}
			m := map[int]ssa.Value{}
			for i, v := range vals {
				if fc, ok := resolve(v).(*ssa.Call); ok && (calleeIs(fc, "strconv", "FormatInt") || calleeIs(fc, "strconv", "Itoa")) {
					m[i] = fc.Call.Args[0]
				}
			}
			if len(m) == 5 {
				outs = append(outs, m)
			}
			continue
		}
		if idFn != nil && calleeOf(c) == idFn && len(c.Call.Args) == 1 {
			// receiver object: value loaded from a local struct or through a pointer
			recv := stripConv(c.Call.Args[0])
			var obj ssa.Value
			if ld, ok := loadOf(recv); ok {
				obj = ld
			} else {
				obj = recv
			}
			m := map[int]ssa.Value{}
			at := map[int]*ssa.Call{}
			later := func(a, b *ssa.Call) bool { // a executes after b on the way to the return
				if a.Block() == b.Block() {
					for _, in := range a.Block().Instrs {
						if in == ssa.Instruction(b) {
							return true
						}
						if in == ssa.Instruction(a) {
							return false
						}
					}
				}
				return b.Block().Dominates(a.Block())
			}
			instrs(f, func(in ssa.Instruction) {
				sc, ok := in.(*ssa.Call)
				if !ok || calleeOf(sc) == nil || len(sc.Call.Args) < 2 {
					return
				}
				g := calleeOf(sc)
				if g.Signature.Recv() == nil || !isNamed(g.Signature.Recv().Type(), "common/object", "ExtendedSpatialID") {
					return
				}
				if stripConv(sc.Call.Args[0]) != obj {
					return
				}
				// only setters that are executed on every path to this return
				if !(sc.Block() == c.Block() || sc.Block().Dominates(c.Block())) {
					return
				}
				for i := 1; i < len(sc.Call.Args); i++ {
					role := ke.paramRole(g, i)
					if role == nil {
						continue
					}
					if k, ok := role.Scalar.single(); ok {
						pos := map[Kind]int{kHZ: 0, kX: 1, kY: 2, kVZ: 3, kF: 4}
						pi, known := pos[k]
						if !known {
							continue
						}
						if prev := at[pi]; prev == nil || later(sc, prev) {
							at[pi] = sc
							m[pi] = sc.Call.Args[i]
						}
					}
				}
			})
			if len(m) > 0 {
				m[-1] = obj // marker: setter form
				outs = append(outs, m)
			}
		}
	}
	return outs
}

// ruleNoWrapF: the vertical field of the returned ID is exactly f + dv.
func ruleNoWrapF(w *World, r *Report, f *ssa.Function) {
	r.Rule("NOWRAP-F", "the vertical index of a shifted ID is the integer sum (parsed f) + dv: no modulus, clamp, branch or other arithmetic between the parsed index and the printed one")
	if f == nil {
		r.add("NOWRAP-F", "operated.GetShiftingSpatialID", "?", Unresolved, "function not found")
		return
	}
	ke := kindsFor(w)
	name := w.FuncName(f)
	can := w.IsCanary(f)
	pos := w.Pos(f.Pos())
	n := 0
	for _, m := range shiftOutputs(w, f) {
		fv, ok := m[4]
		if !ok {
			continue
		}
		n++
		key := fmt.Sprintf("NOWRAP-F / %s / return#%d", name, n)
		v := resolve(fv)
		b, ok := v.(*ssa.BinOp)
		good := false
		if ok && b.Op == token.ADD {
			kx, ky := ke.Eval(b.X), ke.Eval(b.Y)
			isF := func(a *AV) bool { return a != nil && a.Scalar == ks(kF) }
			isD := func(a *AV, v ssa.Value) bool {
				_, isParam := resolve(v).(*ssa.Parameter)
				return isParam && (a == nil || a.Scalar == ks(kDF) || a.Scalar == 0)
			}
			isAcc := func(v ssa.Value) bool {
				c, ok := resolve(v).(*ssa.Call)
				return ok && calleeOf(c) != nil && accessorField(calleeOf(c)) != nil
			}
			if (isF(kx) && isAcc(b.X) && isD(ky, b.Y)) || (isF(ky) && isAcc(b.Y) && isD(kx, b.X)) {
				good = true
			}
		}
		if !good {
			// a module helper that returns the sum of two of its parameters
			if hc, isCall := v.(*ssa.Call); isCall && calleeOf(hc) != nil && w.InModule(calleeOf(hc)) && calleeOf(hc).Blocks != nil {
				g := calleeOf(hc)
				allSum := len(returnsOf(g)) > 0
				var ia, ib int
				for _, ret := range returnsOf(g) {
					hb, isB := resolve(ret.Results[0]).(*ssa.BinOp)
					if len(ret.Results) != 1 || !isB || hb.Op != token.ADD {
						allSum = false
						break
					}
					ia, ib = paramIndex(g, resolve(hb.X)), paramIndex(g, resolve(hb.Y))
					if ia < 0 || ib < 0 {
						allSum = false
					}
				}
				if allSum && ia < len(hc.Call.Args) && ib < len(hc.Call.Args) {
					x, y := hc.Call.Args[ia], hc.Call.Args[ib]
					kx, ky := ke.Eval(x), ke.Eval(y)
					_, px := resolve(x).(*ssa.Parameter)
					_, py := resolve(y).(*ssa.Parameter)
					if (kx != nil && kx.Scalar == ks(kF) && py) || (ky != nil && ky.Scalar == ks(kF) && px) {
						good = true
					}
				}
			}
		}
		if good {
			r.Add(Obligation{Rule: "NOWRAP-F", Key: key, Pos: pos, Status: Discharged, Detail: "vertical field = Z() + dv", Canary: can})
		} else if why := nonSumEvidence(w, v, 0); why != "" {
			r.Add(Obligation{Rule: "NOWRAP-F", Key: key, Pos: pos, Status: Violated, Detail: "the printed vertical index is not the plain sum of the parsed index and dv: " + why + " (" + describeValue(fv) + "); the vertical axis must be advanced without bound, exactly", Canary: can})
		} else {
			r.Add(Obligation{Rule: "NOWRAP-F", Key: key, Pos: pos, Status: Undecided, Detail: "the printed vertical index (" + describeValue(fv) + ") was not recognised as the plain sum of the parsed index and dv", Canary: can})
		}
	}
	// a return of the parsed object's own ID with no vertical setter on the way (a shortcut in
	// front of the shift): the vertical index is f, not f + dv
	if idFn := lookupByName(w, "common/object.(ExtendedSpatialID).ID"); idFn != nil && len(f.Params) >= 4 {
		k := 0
		for _, ret := range returnsOf(f) {
			c, ok := resolve(ret.Results[0]).(*ssa.Call)
			if !ok || calleeOf(c) != idFn || len(c.Call.Args) != 1 {
				continue
			}
			recv := stripConv(c.Call.Args[0])
			obj := recv
			if ld, ok := loadOf(recv); ok {
				obj = ld
			}
			// the receiver is the object parsed from the input (not a copy built elsewhere)
			setZ := false
			instrs(f, func(in ssa.Instruction) {
				sc, ok := in.(*ssa.Call)
				if !ok || calleeOf(sc) == nil || len(sc.Call.Args) < 2 || stripConv(sc.Call.Args[0]) != obj {
					return
				}
				g := calleeOf(sc)
				for i := 1; i < len(sc.Call.Args); i++ {
					if role := ke.paramRole(g, i); role != nil && role.Scalar&ks(kF) != 0 {
						if reachableFrom(sc.Block(), nil)[c.Block()] {
							setZ = true
						}
					}
				}
			})
			if setZ {
				continue
			}
			if _, isCall := obj.(*ssa.Call); !isCall {
				if _, isEx := obj.(*ssa.Extract); !isEx {
					continue
				}
			}
			k++
			key := fmt.Sprintf("NOWRAP-F / %s / unshifted return#%d", name, k)
			// is the return behind a test of dv (v == 0: nothing to advance)?
			dv := f.Params[3]
			tested := false
			for _, blk := range f.Blocks {
				_, _, ifi := ifSuccs(blk)
				if ifi == nil || !blk.Dominates(ret.Block()) {
					continue
				}
				var walk func(v ssa.Value, d int) bool
				walk = func(v ssa.Value, d int) bool {
					if d > 4 {
						return false
					}
					switch x := v.(type) {
					case *ssa.Parameter:
						return x == dv
					case *ssa.BinOp:
						return walk(x.X, d+1) || walk(x.Y, d+1)
					case *ssa.UnOp:
						return walk(x.X, d+1)
					case *ssa.Phi:
						for _, e := range x.Edges {
							if walk(e, d+1) {
								return true
							}
						}
					}
					return false
				}
				if walk(ifi.Cond, 0) {
					tested = true
				}
			}
			if tested {
				r.Add(Obligation{Rule: "NOWRAP-F", Key: key, Pos: w.Pos(ret.Pos()), Status: Undecided, Detail: "the parsed object's ID is returned without a vertical setter, behind a test of dv", Canary: can})
			} else {
				r.Add(Obligation{Rule: "NOWRAP-F", Key: key, Pos: w.Pos(ret.Pos()), Status: Violated, Detail: "the ID of the parsed object is returned with its vertical index untouched on a path that does not depend on dv: the vertical index must be f + dv on every non-empty return", Canary: can})
			}
		}
	}
	if n == 0 {
		r.Add(Obligation{Rule: "NOWRAP-F", Key: "NOWRAP-F / " + name, Pos: pos, Status: Info, Detail: "the printed vertical index could not be located (neither a joined five-field literal nor setters on the returned object)", Canary: can})
	}
}

// ruleZoomPassthru: fields 0 and 3 of the shifted ID are the parsed zooms themselves.
func ruleZoomPassthru(w *World, r *Report) {
	r.Rule("PASSTHRU", "the zoom fields of the shifted ID are the parsed HZoom() and VZoom() of the input, printed unchanged")
	fn := "operated.GetShiftingSpatialID"
	f := lookupByName(w, fn)
	if f == nil {
		return
	}
	ke := kindsFor(w)
	for _, m := range shiftOutputs(w, f) {
		for _, it := range []struct {
			i int
			k Kind
		}{{0, kHZ}, {3, kVZ}} {
			key := fmt.Sprintf("%s / field %d", fn, it.i)
			v, has := m[it.i]
			if !has {
				if _, setterForm := m[-1]; setterForm {
					r.add("PASSTHRU", key, w.Pos(f.Pos()), Discharged, "zoom field is kept from the copied input object (no setter touches it)")
				}
				continue
			}
			good := false
			if ac, ok := resolve(v).(*ssa.Call); ok && calleeOf(ac) != nil {
				if fv := accessorField(calleeOf(ac)); fv != nil && ke.fieldK[fv] == ks(it.k) {
					good = true
				}
			}
			if good {
				r.add("PASSTHRU", key, w.Pos(f.Pos()), Discharged, "zoom field printed from the parsed "+kindNames[it.k])
			} else {
				// positive evidence: arithmetic on the zoom, a constant, or a value of another kind
				st := Undecided
				rv := resolve(v)
				if _, isB := rv.(*ssa.BinOp); isB {
					st = Violated
				}
				if _, isK := rv.(*ssa.Const); isK {
					st = Violated
				}
				if av := ke.Eval(v); av != nil && av.Scalar != 0 && av.Scalar&ks(it.k) == 0 {
					st = Violated
				}
				r.add("PASSTHRU", key, w.Pos(f.Pos()), st, "zoom field "+fmtInt(it.i)+" is not (recognised as) the parsed zoom printed unchanged ("+describeValue(v)+")")
			}
		}
	}
}

// nonSumEvidence: positive evidence that an integer value is more than a sum
// of its inputs: a remainder / mask / shift / division, a float detour, a
// math.Mod, or a choice between different values (phi); followed into module
// helpers.  "" if nothing of the kind is seen.
func nonSumEvidence(w *World, v ssa.Value, depth int) string {
	if depth > 6 {
		return ""
	}
	switch x := resolve(v).(type) {
	case *ssa.BinOp:
		switch x.Op {
		case token.REM, token.QUO, token.AND, token.OR, token.SHR, token.SHL, token.MUL, token.AND_NOT, token.XOR:
			return "it goes through " + x.Op.String() + " (" + shortInstr(x) + ")"
		}
		if s := nonSumEvidence(w, x.X, depth+1); s != "" {
			return s
		}
		return nonSumEvidence(w, x.Y, depth+1)
	case *ssa.Convert:
		if isFloatType(x.X.Type()) {
			return "it is converted from a float64 (" + shortInstr(x) + "): integers beyond 2^53 are not exact"
		}
		return nonSumEvidence(w, x.X, depth+1)
	case *ssa.Phi:
		return "it is chosen between different values (" + shortInstr(x) + ")"
	case *ssa.Call:
		if calleeIs(x, "math", "Mod") || calleeIs(x, "math", "Floor") || calleeIs(x, "math", "Trunc") {
			return "it goes through math." + calleeOf(x).Name()
		}
		if bn := builtinName(x); bn == "min" || bn == "max" {
			return "it is clamped with " + bn
		}
		if g := calleeOf(x); g != nil && w.InModule(g) && g.Blocks != nil && accessorField(g) == nil {
			for _, ret := range returnsOf(g) {
				if len(ret.Results) == 1 {
					if s := nonSumEvidence(w, ret.Results[0], depth+1); s != "" {
						return "in " + w.FuncName(g) + " " + s
					}
				}
			}
		}
	}
	return ""
}

// ruleFloatGuard: the vertical index is unbounded within 64 bits; a branch
// that refuses the shift (leads only to the failure constant) and whose
// condition looks at the vertical index or the vertical shift through a
// float64 conversion cannot be an exact 64-bit overflow test: float64 has 53
// bits, so near the ends of the range valid shifts are refused.
func ruleFloatGuard(w *World, r *Report, entry string) {
	r.Rule("FLOATGUARD", "no branch of the shift (and of the functions it calls) that leads only to the empty-ID failure depends on the vertical index or the vertical shift through a float64 conversion: the index is unbounded within 64 bits and float64 cannot represent its ends exactly")
	f := lookupByName(w, entry)
	if f == nil {
		r.add("FLOATGUARD", entry, "?", Unresolved, "function not found")
		return
	}
	e := scFor(w)
	ke := kindsFor(w)
	vert := ks(kF, kDF)
	n := 0
	scope := closureOf(w, []*ssa.Function{f})
	for _, cf := range canaryFuncs(w) {
		if strings.Contains(cf.Name(), "FloatGuard") {
			scope[cf] = true
		}
	}
	for g := range scope {
		if g.Blocks == nil || pkgOf(g) == nil || pkgOf(g).Path() != modPath+"/operated" {
			continue
		}
		name := w.FuncName(g)
		for _, blk := range g.Blocks {
			_, _, ifi := ifSuccs(blk)
			if ifi == nil {
				continue
			}
			// one side leads only to failure returns
			onlyFail := false
			for _, s := range blk.Succs {
				reach := reachableFrom(s, nil)
				any, all := false, true
				for _, ret := range returnsOf(g) {
					if reach[ret.Block()] {
						any = true
						if !e.isFailureReturn(g, ret) && !(len(ret.Results) == 1 && isEmptyString(ret.Results[0])) {
							all = false
						}
					}
				}
				if any && all {
					onlyFail = true
				}
			}
			if !onlyFail {
				continue
			}
			// the condition reads a vertical quantity through float64
			bad := ""
			seen := map[ssa.Value]bool{}
			var walk func(v ssa.Value, d int)
			walk = func(v ssa.Value, d int) {
				if v == nil || d > 8 || seen[v] || bad != "" {
					return
				}
				seen[v] = true
				switch x := v.(type) {
				case *ssa.Convert:
					if isFloatType(x.Type()) && isIntType(x.X.Type()) {
						if a := ke.Eval(x.X); a != nil && a.Scalar != 0 && a.Scalar&^vert == 0 {
							bad = shortInstr(x)
							return
						}
					}
					walk(x.X, d+1)
				case *ssa.BinOp:
					walk(x.X, d+1)
					walk(x.Y, d+1)
				case *ssa.UnOp:
					walk(x.X, d+1)
				case *ssa.Phi:
					for _, ed := range x.Edges {
						walk(ed, d+1)
					}
				case *ssa.Call:
					for _, a := range x.Call.Args {
						walk(a, d+1)
					}
				}
			}
			walk(ifi.Cond, 0)
			n++
			key := fmt.Sprintf("FLOATGUARD / %s / refusing branch at %s", name, w.Pos(ifi.Pos()))
			if bad != "" {
				r.Add(Obligation{Rule: "FLOATGUARD", Key: key, Pos: w.Pos(ifi.Pos()), Status: Violated, Detail: "a branch that refuses the shift reads the vertical index / shift through " + bad + ": float64 holds 53 bits, shifts that stay within 64 bits are refused near the ends of the range", Canary: w.IsCanary(g)})
			} else {
				r.Add(Obligation{Rule: "FLOATGUARD", Key: key, Pos: w.Pos(ifi.Pos()), Status: Discharged, Detail: "the refusing branch does not look at the vertical index through floating point", Canary: w.IsCanary(g)})
			}
		}
	}
	if n == 0 {
		r.add("FLOATGUARD", entry, w.Pos(f.Pos()), Info, "no refusing branch found")
	}
}

func isEmptyString(v ssa.Value) bool {
	s, ok := constString(v)
	return ok && s == ""
}
