package main

// EXTREMUM: Max / Min select by comparing the candidate with the current best
// directly.  A comparison made through arithmetic on the operands
// ((x - best)*dir > 0, sign*best < sign*x) is wrong for integers: the
// subtraction or the negation wraps (MinInt64 has no negation, values far
// apart have no difference) and the "extremum" no longer bounds the others.

import (
	"fmt"
	"go/token"

	"golang.org/x/tools/go/ssa"
)

func ruleExtremum(w *World, r *Report, roots ...*ssa.Function) {
	r.Rule("EXTREMUM", "in Max / Min (and the helpers they delegate to) the running best is replaced by an element under a comparison of exactly those two values (best < x, best > x, cmp.Compare, the min/max builtins, slices.Max/Min): not under a comparison of arithmetic on them ((x-best)*dir > 0, sign*best < sign*x), which wraps for integers")
	var fs []*ssa.Function
	for _, f := range roots {
		if f != nil {
			fs = append(fs, f)
		}
	}
	cl := closureOf(w, fs)
	for _, cf := range canaryFuncs(w) {
		if containsAny(cf.Name(), "canaryBadExtremum", "canaryGoodExtremum") {
			cl[cf] = true
		}
	}
	n := 0
	for _, g := range sortedFuncSet(w, cl) {
		if g.Blocks == nil || !w.InModule(g) {
			continue
		}
		can := w.IsCanary(g)
		name := w.FuncName(g)
		ord := 0
		for _, sr := range findSliceRanges(g) {
			for _, in := range sr.Header.Instrs {
				best, ok := in.(*ssa.Phi)
				if !ok {
					break
				}
				if isSlice(best.Type()) || isMap(best.Type()) {
					continue
				}
				// the ways the element replaces the best value: directly on a back edge of the
				// header phi, or through a merge phi {best, element} in the body
				type repl struct {
					elem ssa.Value
					from *ssa.BasicBlock
				}
				var repls []repl
				for i, e := range best.Edges {
					pred := sr.Header.Preds[i]
					if !sr.blocks()[pred] {
						continue
					}
					ev := resolve(e)
					if sr.isElem(ev) {
						repls = append(repls, repl{ev, pred})
						continue
					}
					if q, ok := ev.(*ssa.Phi); ok && q != best {
						keeps := false
						for _, qe := range q.Edges {
							if resolve(qe) == ssa.Value(best) {
								keeps = true
							}
						}
						for j, qe := range q.Edges {
							if keeps && sr.isElem(resolve(qe)) {
								repls = append(repls, repl{resolve(qe), q.Block().Preds[j]})
							}
						}
					}
				}
				for _, rp := range repls {
					elem := rp.elem
					// the test that decides this replacement
					var ifi *ssa.If
					x := rp.from
					for hops := 0; hops < 4 && x != nil && ifi == nil; hops++ {
						if _, _, i2 := ifSuccs(x); i2 != nil && x != rp.from {
							ifi = i2
							break
						}
						if _, _, i2 := ifSuccs(x); i2 != nil && x == rp.from && len(x.Succs) == 2 && (x.Succs[0] == sr.Header || x.Succs[1] == sr.Header) {
							ifi = i2
							break
						}
						if len(x.Preds) == 1 {
							x = x.Preds[0]
						} else {
							x = x.Idom()
						}
					}
					if ifi == nil {
						continue
					}
					ord++
					if !can {
						n++
					}
					key := fmt.Sprintf("EXTREMUM / %s / selection#%d", name, ord)
					cond := ifi.Cond
					if u, ok := cond.(*ssa.UnOp); ok && u.Op == token.NOT {
						cond = u.X
					}
					isOperand := func(v ssa.Value) bool {
						v = stripConv(v)
						return v == ssa.Value(best) || v == elem || resolve(v) == elem
					}
					var arith func(v ssa.Value, d int) bool
					arith = func(v ssa.Value, d int) bool {
						v = stripConv(v)
						if d > 3 {
							return false
						}
						switch y := v.(type) {
						case *ssa.BinOp:
							switch y.Op {
							case token.SUB, token.MUL, token.ADD, token.QUO:
								if isOperand(y.X) || isOperand(y.Y) || arith(y.X, d+1) || arith(y.Y, d+1) {
									return true
								}
							}
						case *ssa.UnOp:
							if y.Op == token.SUB && (isOperand(y.X) || arith(y.X, d+1)) {
								return true
							}
						}
						return false
					}
					b, isCmp := cond.(*ssa.BinOp)
					switch {
					case isCmp && isOperand(b.X) && isOperand(b.Y):
						r.Add(Obligation{Rule: "EXTREMUM", Key: key, Pos: w.Pos(b.Pos()), Status: Discharged, Canary: can, Detail: "the best value is replaced under a direct comparison with the element (" + shortInstr(b) + ")"})
					case isCmp && (arith(b.X, 0) || arith(b.Y, 0)):
						r.Add(Obligation{Rule: "EXTREMUM", Key: key, Pos: w.Pos(b.Pos()), Status: Violated, Canary: can, Detail: "the best value is replaced under a comparison of arithmetic on the operands (" + shortInstr(b) + "): for integers the difference / negation wraps (MinInt64, values more than MaxInt64 apart) and the result does not bound the other elements"})
					default:
						r.Add(Obligation{Rule: "EXTREMUM", Key: key, Pos: w.Pos(ifi.Pos()), Status: Undecided, Canary: can, Detail: "the test that replaces the best value was not read (" + describeValue(ifi.Cond) + ")"})
					}
				}
			}
		}
	}
	if n == 0 {
		r.add("EXTREMUM", "common.Max / common.Min", "-", Undecided, "no selection loop (best replaced by the element under a test) recognised in Max / Min or their helpers")
	}
}
