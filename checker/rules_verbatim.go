package main

import (
	"fmt"

	"golang.org/x/tools/go/ssa"
)

// VERBATIM: the list functions of the zoom change and merge return IDs printed from
// parsed integers.  An element of the caller's list that is appended to the result as
// it came in (a "nothing to do for this one" shortcut) keeps whatever spelling the
// caller used: strconv accepts "+5", "-0" and "007", so the same voxel then comes
// back under a spelling that no printed ID has, de-duplication by string misses it
// and the overlap check that compares the printed forms answers no.
func ruleVerbatim(w *World, r *Report, names ...string) {
	r.Rule("VERBATIM", "a function that returns IDs printed from parsed integers never appends an element of the caller's list to its result as it came in: the result is canonical (what ExtendedSpatialID.ID prints) whatever spelling strconv accepted on the way in")
	var fns []*ssa.Function
	for _, n := range names {
		if f := lookupByName(w, n); f != nil {
			fns = append(fns, f)
		} else {
			r.add("VERBATIM", n, "?", Unresolved, "function not found")
		}
	}
	for _, f := range w.ModFuncs {
		if w.IsCanary(f) && f.Blocks != nil && containsAny(f.Name(), "canaryBadVerbatim", "canaryGoodVerbatim") {
			fns = append(fns, f)
		}
	}
	for _, f := range fns {
		if f.Blocks == nil {
			continue
		}
		can := w.IsCanary(f)
		name := w.FuncName(f)
		// the caller's lists
		var lists []*ssa.Parameter
		for _, p := range f.Params {
			if isStringSlice(p.Type()) {
				lists = append(lists, p)
			}
		}
		if len(lists) == 0 {
			continue
		}
		isInputElem := func(v ssa.Value) bool {
			v = resolve(v)
			for _, sr := range findSliceRanges(f) {
				if pi := paramIndex(f, resolve(sr.X)); pi >= 0 && sr.isElem(v) {
					return true
				}
			}
			if ld, ok := loadOf(v); ok {
				if ia, ok := ld.(*ssa.IndexAddr); ok && paramIndex(f, resolve(ia.X)) >= 0 && isStringSlice(ia.X.Type()) {
					return true
				}
			}
			return false
		}
		ord, bad := 0, 0
		instrs(f, func(in ssa.Instruction) {
			c, ok := in.(*ssa.Call)
			if !ok || builtinName(c) != "append" || !isStringSlice(c.Type()) {
				return
			}
			elems, spread := appendedElems(c)
			for _, el := range elems {
				if isInputElem(el) {
					ord++
					bad++
					r.Add(Obligation{Rule: "VERBATIM", Key: fmt.Sprintf("VERBATIM / %s / verbatim element#%d", name, ord), Pos: w.Pos(c.Pos()), Status: Violated, Canary: can,
						Detail: "an element of the caller's list is appended to the result unparsed (" + shortInstr(c) + "): \"+5\", \"-0\" and \"007\" are accepted by strconv, so the voxel comes back under a spelling no printed ID has and string comparison of results (de-duplication, overlap) misses it"})
				}
			}
			if spread != nil && paramIndex(f, resolve(spread)) >= 0 {
				ord++
				bad++
				r.Add(Obligation{Rule: "VERBATIM", Key: fmt.Sprintf("VERBATIM / %s / verbatim element#%d", name, ord), Pos: w.Pos(c.Pos()), Status: Violated, Canary: can,
					Detail: "the caller's list is appended to the result unparsed (" + shortInstr(c) + ")"})
			}
		})
		if bad == 0 && !can {
			r.add("VERBATIM", name, w.Pos(f.Pos()), Discharged, "no element of the caller's list reaches the result unparsed")
		}
	}
}
