package main

import (
	"golang.org/x/tools/go/ssa"
)

func init() {
	register(&propSpec{ID: "C10", Level: "other", Run: runC10,
		Canary:  []CanaryExpect{{Rule: "MAPORDER", Bad: "canaryBadSkipAppend", Good: "canaryGoodMapLoop"}, {Rule: "KIND-STORE", Bad: "canaryBadStoreSwap", Good: "canaryGoodStore"}, {Rule: "CHUNK", Bad: "canaryBadChunks", Good: "canaryGoodChunks"}, {Rule: "INPLACE-GROW", Bad: "canaryBadSplitInPlace", Good: "canaryGoodFilterInPlace"}},
		Explain: otherNote + "C10: decided = parser, printer and FieldParams of ExtendedSpatialID agree position by position; the two notation conversions are the canonical permutations (layout inference), one output per input in order; the expansion targets max(h,v), raises only the coarser axis with C03's functions and copies the other axis; arity guards. Region equality / counts of the expansion are NOT decided."})
	register(&propSpec{ID: "C11", Level: "other", Run: runC11,
		Canary: []CanaryExpect{{Rule: "ELEMENTWISE", Bad: "canaryBadPrevCache", Good: "canaryGoodNoState"}, {Rule: "ELEMENTWISE", Bad: "canaryBadCarriedTile", Good: "canaryGoodNoState"}, {Rule: "CACHE-KEY", Bad: "canaryBadMemoKey", Good: "canaryGoodMemoKey"},
			{Rule: "KIND-STORE", Bad: "canaryBadNarrowIndex", Good: "canaryGoodWideIndex"}, {Rule: "KIND-LAYOUT", Bad: "canaryBadTrimCutset", Good: "canaryGoodTrimPrefix"},
			{Rule: "KIND-STORE", Bad: "canaryBadQuadkeyFloat", Good: "canaryGoodQuadkeyInt"}, {Rule: "UNTRIMMED", Bad: "canaryBadUntrimmed", Good: "canaryGoodTrimmed"}, {Rule: "UNTRIMMED", Bad: "canaryBadUntrimmed", Good: "canaryGoodFullFill"}, {Rule: "ECHO", Bad: "canaryBadEcho", Good: "canaryGoodEcho"}},
		Explain: otherNote + "C11: decided = groups report the request's zooms/height/base parameters unchanged (argument kinds at the constructors); a pair is appended only behind a miss on the cross-ID map; per-ID scratch lists are fresh; per-axis zoom change is integrate.HorizontalZoom/VerticalZoom with correctly wired roles; encoder/decoder are integer-only; zoom domain and malformed-ID guards. Bit-interleaving bijectivity is NOT decided."})
	register(&propSpec{ID: "C12", Level: "other", Run: runC12,
		Explain: otherNote + "C12: decided = every resolution change of a vertical index/key is a signed shift (floor); all callers consume both bounds (known finding for the detector under C05); index-existence tests accept exactly [-2^z,2^z-1] / [0,2^z-1]; both returned bounds are range-checked; the scale(index+1)-1 form is guarded or clamped; failure returns carry (0,0). The interval-cover arithmetic itself is NOT decided.",
		Canary: []CanaryExpect{{Rule: "RANGEUSE", Bad: "canaryBadDropMax", Good: "canaryGoodBothBounds"},
			{Rule: "ROUND", Bad: "canaryBadBitFill", Good: "canaryGoodBitFill"}}})
	register(&propSpec{ID: "C13", Level: "other", Run: runC13,
		Canary:  []CanaryExpect{{Rule: "KIND-STORE", Bad: "canaryBadStoreSwap", Good: "canaryGoodStore"}, {Rule: "CHUNK", Bad: "canaryBadChunks", Good: "canaryGoodChunks"}},
		Explain: otherNote + "C13: decided = hZoom/x/y copied field for field and vZoom is the request's (kinds at the setters); the emitted vertical range is exactly the range returned for that tile; error returns carry nil; results are the key set of one map; the spatial variant is the expansion composed with the extended variant; tile zooms validated on both sides."})
}

func runC10(w *World, r *Report, tier string) {
	kindRuleTexts(r)
	unresolvedSeeds(w, r)
	ruleLenCap(w, r)
	ruleSignedField(w, r)
	entries := entryFuncs(w, r, "shape.ConvertSpatialIdsToExtendedSpatialIds", "shape.ConvertExtendedSpatialIdsToSpatialIds",
		"common/object.NewExtendedSpatialID", "common/object.(*ExtendedSpatialID).ResetExtendedSpatialID",
		"common/object.(ExtendedSpatialID).ID", "common/object.(*ExtendedSpatialID).FieldParams",
		"transform.ConvertExtendedSpatialIDToSpatialIDs", "transform.GetVoxelIDfromSpatialID",
		"transform.ConvertQuadkeysAndVerticalIDsToSpatialIDs", "transform.ConvertSpatialIDsToQuadkeysAndVerticalIDs")
	ruleChunks(w, r, closureOf(w, entries))
	own := map[*ssa.Function]bool{}
	for _, f := range entries {
		own[f] = true
	}
	// setters/getters of ExtendedSpatialID
	for _, f := range w.ModFuncs {
		if f.Signature.Recv() != nil && isNamed(f.Signature.Recv().Type(), "common/object", "ExtendedSpatialID") && f.Synthetic == "" {
			own[f] = true
		}
	}
	r.Analysed["closure_functions"] = len(own)
	kr := kindRulesFor(w)
	kr.emit(w, r, []string{"KIND-CALL", "KIND-LAYOUT", "KIND-STORE", "ROUND"}, own)
	if f := lookupByName(w, "shape.ConvertSpatialIdsToExtendedSpatialIds"); f != nil {
		ruleMapOrder(w, r, f, 0)
	}
	if f := lookupByName(w, "shape.ConvertExtendedSpatialIdsToSpatialIds"); f != nil {
		ruleMapOrder(w, r, f, 0)
	}
	for _, f := range canaryFuncs(w) {
		if containsAny(f.Name(), "canaryBadSkipAppend", "canaryGoodMapLoop") {
			ruleMapOrder(w, r, f, 0)
		}
	}
	ruleExpansion(w, r)
	ruleNoClamp(w, r, "integrate.VerticalZoom")
	ruleNoClamp(w, r, "integrate.HorizontalZoomMinMax")
	ruleElementwise(w, r, "shape.ConvertSpatialIdsToExtendedSpatialIds", 0)
	ruleElementwise(w, r, "shape.ConvertExtendedSpatialIdsToSpatialIds", 0)
	ruleNegF(w, r, nil)
	guardRows(w, r, "C10")
}

func runC11(w *World, r *Report, tier string) {
	kindRuleTexts(r)
	unresolvedSeeds(w, r)
	names := []string{"transform.ConvertQuadkeysAndVerticalIDsToExtendedSpatialIDs", "transform.ConvertQuadkeysAndVerticalIDsToSpatialIDs",
		"transform.ConvertExtendedSpatialIDsToQuadkeysAndVerticalIDs", "transform.ConvertSpatialIDsToQuadkeysAndVerticalIDs",
		"transform.ConvertExtendedSpatialIDsToQuadkeysAndAltitudekeys"}
	entries := entryFuncs(w, r, names...)
	ruleChunks(w, r, closureOf(w, entries))
	cl := closureOf(w, entries)
	r.Analysed["closure_functions"] = len(cl)
	own := map[*ssa.Function]bool{}
	for f := range cl {
		if p := pkgOf(f); p != nil && (p.Path() == modPath+"/transform" || p.Path() == modPath+"/common/object") {
			own[f] = true
		}
	}
	kr := kindRulesFor(w)
	kr.emit(w, r, []string{"KIND-CALL", "KIND-LAYOUT", "KIND-STORE"}, own)
	// the vertical component goes through the zoom change of integrate (or a sibling of
	// it): its rounding sites are part of this conversion
	kr.emit(w, r, []string{"ROUND"}, cl)
	rulePairDedup(w, r, "transform.ConvertExtendedSpatialIDsToQuadkeysAndVerticalIDs")
	rulePairDedup(w, r, "transform.ConvertExtendedSpatialIDsToQuadkeysAndAltitudekeys")
	ruleNoFloat(w, r, cl)
	for _, n := range names {
		ruleElementwise(w, r, n, 0)
	}
	for _, n := range []string{"transform.canaryBadPrevCache", "transform.canaryGoodNoState", "transform.canaryBadCarriedTile"} {
		if lookupByName(w, n) != nil {
			ruleElementwise(w, r, n, 0)
		}
	}
	ruleCacheKey(w, r, own)
	ruleUntrimmed(w, r, own)
	ruleNoSkip(w, r, "transform.ConvertQuadkeysAndVerticalIDsToExtendedSpatialIDs")
	ruleNoSkip(w, r, "transform.ConvertQuadkeysAndVerticalIDsToSpatialIDs")
	// REUSE: the per-axis zoom change is integrate's
	r.Rule("REUSE", "the horizontal and vertical components of both conversion directions are produced by integrate.HorizontalZoom / integrate.VerticalZoom (resolved callees), so different output zooms behave exactly like the zoom change of C03 on each axis")
	for _, n := range names {
		f := lookupByName(w, n)
		if f == nil {
			continue
		}
		fcl := closureOf(w, []*ssa.Function{f})
		h, v := false, false
		for g := range fcl {
			if funcIs(g, modPath+"/integrate", "HorizontalZoom") {
				h = true
			}
			if funcIs(g, modPath+"/integrate", "VerticalZoom") {
				v = true
			}
		}
		needV := n != "transform.ConvertExtendedSpatialIDsToQuadkeysAndAltitudekeys"
		if h && (v || !needV) {
			r.add("REUSE", n, w.Pos(f.Pos()), Discharged, "uses integrate.HorizontalZoom"+map[bool]string{true: " and integrate.VerticalZoom", false: ""}[needV])
		} else {
			r.add("REUSE", n, w.Pos(f.Pos()), Undecided, "the conversion no longer goes through integrate.HorizontalZoom / VerticalZoom: equality with the zoom change of C03 cannot be read off the call graph")
		}
	}
	ruleEcho(w, r, lookupByName(w, names[2]), lookupByName(w, names[3]), lookupByName(w, names[4]), lookupByName(w, "transform.canaryBadEcho"), lookupByName(w, "transform.canaryGoodEcho"))
	ruleDelegateOnce(w, r, "transform.ConvertSpatialIDsToQuadkeysAndVerticalIDs", "transform.ConvertExtendedSpatialIDsToQuadkeysAndVerticalIDs")
	ruleErrUsed(w, r, map[*ssa.Function]bool{lookupByName(w, names[2]): true, lookupByName(w, names[3]): true, lookupByName(w, names[4]): true})
	guardRows(w, r, "C11")
}

func runC12(w *World, r *Report, tier string) {
	kindRuleTexts(r)
	unresolvedSeeds(w, r)
	entries := entryFuncs(w, r, "transform.ConvertZToMinMaxAltitudekey", "transform.ConvertAltitudekeyToMinMaxZ", "common.CalculateArithmeticShift")
	cl := closureOf(w, entries)
	r.Analysed["closure_functions"] = len(cl)
	kr := kindRulesFor(w)
	kr.emit(w, r, []string{"ROUND", "KIND-CALL", "KIND-LAYOUT"}, cl)
	ashiftRule(w, r)
	// RANGEUSE for callers inside transform (the detector's two sites are reported under C05)
	tr := map[*ssa.Function]bool{}
	for _, f := range w.ModFuncs {
		if p := pkgOf(f); p != nil && p.Path() == modPath+"/transform" {
			tr[f] = true
		}
	}
	ruleRangeUse(w, r, tr)
	ruleIndexInterval(w, r, cl)
	ruleOutRange(w, r, "transform.ConvertZToMinMaxAltitudekey")
	ruleOutRange(w, r, "transform.ConvertAltitudekeyToMinMaxZ")
	ruleUpperBoundForm(w, r, cl)
	ruleNoPartial(w, r, "transform.ConvertZToMinMaxAltitudekey")
	ruleNoPartial(w, r, "transform.ConvertAltitudekeyToMinMaxZ")
	guardRows(w, r, "C12")
}

func runC13(w *World, r *Report, tier string) {
	kindRuleTexts(r)
	unresolvedSeeds(w, r)
	ruleDelegateOnce(w, r, "transform.ConvertTileXYZsToSpatialIDs", "transform.ConvertTileXYZsToExtendedSpatialIDs")
	entries := entryFuncs(w, r, "transform.ConvertTileXYZsToExtendedSpatialIDs", "transform.ConvertTileXYZsToSpatialIDs",
		"common/object.NewTileXYZ", "common/object.(*TileXYZ).SetHZoom", "common/object.(*TileXYZ).SetVZoom")
	ruleChunks(w, r, closureOf(w, entries))
	cl := closureOf(w, entries)
	own := map[*ssa.Function]bool{}
	for f := range cl {
		if p := pkgOf(f); p != nil && (p.Path() == modPath+"/transform" || p.Path() == modPath+"/common/object") {
			own[f] = true
		}
	}
	for _, f := range w.ModFuncs {
		if f.Signature.Recv() != nil && isNamed(f.Signature.Recv().Type(), "common/object", "TileXYZ") && f.Synthetic == "" {
			own[f] = true
		}
	}
	r.Analysed["closure_functions"] = len(own)
	kr := kindRulesFor(w)
	kr.emit(w, r, []string{"ROUND", "KIND-CALL", "KIND-LAYOUT", "KIND-STORE"}, own)
	ruleTileLoop(w, r)
	ruleTileCompose(w, r)
	ruleCacheKey(w, r, own)
	ruleNoSkip(w, r, "transform.ConvertTileXYZsToExtendedSpatialIDs")
	ruleElementwise(w, r, "transform.ConvertTileXYZsToExtendedSpatialIDs", 0)
	ruleElementwise(w, r, "transform.ConvertTileXYZsToSpatialIDs", 0)
	if f := lookupByName(w, "transform.ConvertTileXYZsToExtendedSpatialIDs"); f != nil {
		ruleDistinct(w, r, f)
	}
	ruleNoPartial(w, r, "transform.ConvertTileXYZsToExtendedSpatialIDs")
	ruleNoPartial(w, r, "transform.ConvertTileXYZsToSpatialIDs")
	ruleOutRange(w, r, "transform.ConvertAltitudekeyToMinMaxZ")
	ruleExpansion(w, r)
	guardRows(w, r, "C13")
}
