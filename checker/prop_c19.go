package main

import (
	"fmt"
	"go/types"
	"sort"
	"strings"

	"golang.org/x/tools/go/ssa"
)

// setters: exported methods that are documented to write their receiver
// (parameter 0).  Everything else must leave all arguments untouched.
func isSetter(w *World, f *ssa.Function) bool {
	if f.Signature.Recv() == nil {
		return false
	}
	if _, ok := f.Signature.Recv().Type().Underlying().(*types.Pointer); !ok {
		return false
	}
	n := f.Name()
	if strings.HasPrefix(n, "Set") || strings.HasPrefix(n, "Reset") {
		return true
	}
	// integrate.(*HighSpatialID).Merge accumulates into its receiver by contract
	return w.FuncName(f) == "integrate.(*HighSpatialID).Merge"
}

// appendsByContract: exported helpers documented to append to an argument
// (value = parameter index + 1).  One named function per line, with reason.
var appendsByContract = map[string]int{
	// "UniqueAppend adds the points of the second list that are not yet in the first list to the first list"
	"common/spatial.UniqueAppend": 1,
}

var effectsCache *Effects

func effectsFor(w *World) *Effects {
	if effectsCache == nil {
		effectsCache = NewEffects(w, append(w.ExportedRoots(), canaryFuncs(w)...))
	}
	return effectsCache
}

func canaryFuncs(w *World) []*ssa.Function {
	var out []*ssa.Function
	for _, f := range w.ModFuncs {
		if w.IsCanary(f) && f.Parent() == nil {
			out = append(out, f)
		}
	}
	return out
}

func init() {
	register(&propSpec{
		ID:    "C19",
		Level: "proof",
		Run:   runC19,
		Explain: "Effect analysis over the whole program reachable from every exported function and method of the module (third-party dependencies analysed from their SSA bodies, standard library trusted): " +
			"no reachable instruction writes memory reachable from a package-level variable or from a parameter (setter receivers excepted), no goroutine is started, no sync/atomic/unsafe/cgo is used. " +
			"Two concurrent calls on shared read-only arguments therefore share only memory nobody writes: data-race freedom by the Go memory model, and each call computes what it computes alone.",
		Trusted: []string{"Go standard library (documented concurrency guarantees; summarised by the table in effects.go: only sort.*/slices.*/maps.* mutators and pointer-receiver methods write their argument 0)",
			"VTA over-approximates dynamic calls; function values received as parameters are caller-supplied code"},
		Canary: []CanaryExpect{
			{Rule: "EFFECT-GLOBAL", Bad: "canaryBadGlobalCache", Good: "canaryGoodLocalCache"},
			{Rule: "EFFECT-PARAM", Bad: "canaryBadSortInput", Good: "canaryGoodSortCopy"},
			{Rule: "NOCONCURRENCY", Bad: "canaryBadGo", Good: ""},
			{Rule: "GLOBALS", Bad: "canaryFirstShift", Good: "canaryPow2Table"},
			{Rule: "GOSHARED", Bad: "canaryBadSharedParser", Good: "canaryGoodWorkers"},
		},
	})
}

func runC19(w *World, r *Report, tier string) {
	r.Rule("GLOBALS", "every package-level variable of the module is written only by its package initialiser")
	ruleGoShared(w, r)
	rulePoolReset(w, r)
	rulePoolUseAfterPut(w, r)
	ruleHashKey(w, r)
	r.Rule("EFFECT-GLOBAL", "no function reachable from an exported function or method (dependencies included) writes memory reachable from a package-level variable of a non-standard-library package")
	r.Rule("EFFECT-PARAM", "no exported function or method writes memory reachable from its parameters; methods named Set*/Reset* and HighSpatialID.Merge may write their receiver only")
	r.Rule("EFFECT-UNKNOWN", "no reachable write goes through an address whose origin the analysis cannot trace")
	r.Rule("NOCONCURRENCY", "no go statement is reachable and the module imports no sync, sync/atomic, unsafe or runtime/cgo package")
	r.Assume = append(r.Assume,
		"the Go standard library keeps its documented guarantees (functions without documented mutation do not write their arguments; package-level state of math, strconv, strings, fmt, sort is concurrency-safe)",
		"function values passed in by the caller (common.Combinations' callback) are the caller's code",
		"arguments shared between concurrent calls are not written by the caller during the calls")

	e := effectsFor(w)
	roots := w.ExportedRoots()
	nonStd := 0
	deps := map[string]int{}
	for _, f := range e.Reach {
		nonStd++
		if !w.InModule(f) {
			p := pkgOf(f)
			if p != nil {
				deps[p.Path()]++
			}
		}
	}
	r.Analysed["exported_roots"] = len(roots)
	r.Analysed["reachable_nonstd_functions"] = nonStd
	r.Analysed["reachable_dependency_functions"] = nonStd - countModule(w, e.Reach)
	r.Analysed["stores"] = e.Stores
	r.Analysed["map_updates"] = e.MapUpdates
	r.Analysed["call_sites"] = e.Calls
	r.Analysed["dynamic_call_sites"] = e.DynCalls
	r.Analysed["callback_call_sites"] = e.Callbacks
	var depList []string
	for k, v := range deps {
		depList = append(depList, fmt.Sprintf("%s=%d", k, v))
	}
	sort.Strings(depList)
	r.Notes = append(r.Notes, "dependency functions analysed from SSA bodies: "+strings.Join(depList, ", "))

	// 1. globals of the module
	onceInit := onceInitClosures(w)
	for _, rel := range sortedKeys(w.SSAPkg) {
		sp := w.SSAPkg[rel]
		for _, name := range sortedKeys(sp.Members) {
			g, ok := sp.Members[name].(*ssa.Global)
			if !ok || strings.HasPrefix(name, "init$") {
				continue
			}
			key := rel + "." + name
			bad := ""
			pos := w.Pos(g.Pos())
			for _, f := range w.ModFuncs {
				if w.IsCanary(f) && !strings.HasPrefix(name, "canary") {
					continue
				}
				isInit := f.Name() == "init" || strings.HasPrefix(f.Name(), "init#")
				// the function literal handed to Do of a package-level sync.Once runs at most once,
				// before any reader that went through the same Do: a lazily built read-only table
				if onceInit[f] {
					isInit = true
				}
				instrs(f, func(in ssa.Instruction) {
					if isInit && (f.Pkg == sp || onceInit[f]) {
						return
					}
					switch x := in.(type) {
					case *ssa.Store:
						if rootGlobal(x.Addr) == g {
							bad = fmt.Sprintf("written outside the package initialiser: %s in %s (%s)", shortInstr(x), w.FuncName(f), w.Pos(x.Pos()))
						}
					case *ssa.MapUpdate:
						if rootGlobal(x.Map) == g {
							bad = fmt.Sprintf("map element written outside the package initialiser in %s (%s)", w.FuncName(f), w.Pos(x.Pos()))
						}
					}
				})
			}
			isCanaryG := strings.HasPrefix(name, "canary")
			if bad != "" {
				r.Add(Obligation{Rule: "GLOBALS", Key: "GLOBALS / " + key, Pos: pos, Status: Violated, Detail: bad, Canary: isCanaryG})
			} else {
				r.Add(Obligation{Rule: "GLOBALS", Key: "GLOBALS / " + key, Pos: pos, Status: Discharged, Detail: "package-level variable " + key + " of type " + g.Type().(*types.Pointer).Elem().String() + " is stored to only by its package initialiser", Canary: isCanaryG})
			}
		}
	}

	// 2./3. per exported root
	all := append(append([]*ssa.Function{}, roots...), canaryFuncs(w)...)
	for _, f := range all {
		s := e.Summary(f)
		name := w.FuncName(f)
		can := w.IsCanary(f)
		pos := w.Pos(f.Pos())
		// globals
		if len(s.WritesGlobal) > 0 {
			var ws []string
			for g, wit := range s.WritesGlobal {
				ws = append(ws, g.String()+": "+wit.String())
			}
			sort.Strings(ws)
			// a package-level sync.Pool: Get/Put mutate the pool, but what a call computes depends
			// on it only if a scratch buffer is used without being reset -- not followed here
			onlyPool := true
			for _, wit := range s.WritesGlobal {
				if !strings.Contains(wit.String(), "(*sync.Pool).") {
					onlyPool = false
				}
			}
			st := Violated
			detail := "writes package-level state: " + strings.Join(ws, "; ")
			if onlyPool {
				st = Undecided
				detail = "takes scratch buffers from a package-level sync.Pool (results are independent of earlier calls only if every buffer is reset before use, which is not followed): " + strings.Join(ws, "; ")
			}
			r.Add(Obligation{Rule: "EFFECT-GLOBAL", Key: "EFFECT-GLOBAL / " + name, Pos: pos, Status: st, Detail: detail, Canary: can})
		} else {
			r.Add(Obligation{Rule: "EFFECT-GLOBAL", Key: "EFFECT-GLOBAL / " + name, Pos: pos, Status: Discharged, Detail: "no write to package-level state in the call-graph closure", Canary: can})
		}
		// params
		var bad []string
		for _, m := range []map[int]*Witness{s.WritesParam, s.WritesParamDeep} {
			for i, wit := range m {
				if i == 0 && isSetter(w, f) {
					continue
				}
				if appendsByContract[name] == i+1 {
					continue
				}
				pn := fmt.Sprintf("param#%d", i)
				if i < len(f.Params) {
					pn = f.Params[i].Name()
				}
				bad = append(bad, pn+": "+wit.String())
			}
		}
		sort.Strings(bad)
		if len(bad) > 0 {
			r.Add(Obligation{Rule: "EFFECT-PARAM", Key: "EFFECT-PARAM / " + name, Pos: pos, Status: Violated, Detail: "may write memory reachable from its arguments: " + strings.Join(bad, "; "), Canary: can})
		} else {
			d := "no write to argument-reachable memory"
			if isSetter(w, f) {
				d = "setter: writes its receiver only"
			}
			r.Add(Obligation{Rule: "EFFECT-PARAM", Key: "EFFECT-PARAM / " + name, Pos: pos, Status: Discharged, Detail: d, Canary: can})
		}
		if s.WritesUnknown != nil {
			r.Add(Obligation{Rule: "EFFECT-UNKNOWN", Key: "EFFECT-UNKNOWN / " + name, Pos: pos, Status: Undecided, Detail: "write through untraceable address: " + s.WritesUnknown.String(), Canary: can})
		} else {
			r.Add(Obligation{Rule: "EFFECT-UNKNOWN", Key: "EFFECT-UNKNOWN / " + name, Pos: pos, Status: Discharged, Detail: "every write in the closure has a traced origin", Canary: can})
		}
		if s.Spawns != nil {
			r.Add(Obligation{Rule: "NOCONCURRENCY", Key: "NOCONCURRENCY / " + name, Pos: pos, Status: Undecided, Detail: "starts a goroutine (shared state the effect argument does not cover): " + s.Spawns.String(), Canary: can})
		}
	}
	// 4. imports
	for _, p := range w.Pkgs {
		rel := relPkg(p.Types)
		var badImp []string
		// imports of the package's own files (the canary overlay file is not part of the tree)
		seenImp := map[string]bool{}
		for i, file := range p.Syntax {
			if i < len(p.CompiledGoFiles) && strings.HasSuffix(p.CompiledGoFiles[i], "zz_verif_canary.go") {
				continue
			}
			for _, im := range file.Imports {
				ip := strings.Trim(im.Path.Value, "\"")
				switch ip {
				case "sync", "sync/atomic", "unsafe", "runtime/cgo", "C", "reflect":
					if !seenImp[ip] {
						seenImp[ip] = true
						badImp = append(badImp, ip)
					}
				}
			}
		}
		sort.Strings(badImp)
		// canary overlay files may import nothing of these
		if len(badImp) > 0 {
			r.add("NOCONCURRENCY", "imports of "+rel, rel, Undecided, "imports "+strings.Join(badImp, ", ")+": locks, atomics, unsafe or reflection are shared-state mechanisms the effect argument does not model")
		} else {
			r.add("NOCONCURRENCY", "imports of "+rel, rel, Discharged, "no sync, sync/atomic, unsafe, reflect or cgo import")
		}
	}
}

func countModule(w *World, fs []*ssa.Function) int {
	n := 0
	for _, f := range fs {
		if w.InModule(f) {
			n++
		}
	}
	return n
}

// rootGlobal follows FieldAddr/IndexAddr/loads to a global, if any.
func rootGlobal(v ssa.Value) *ssa.Global {
	for i := 0; i < 20; i++ {
		switch x := v.(type) {
		case *ssa.Global:
			return x
		case *ssa.FieldAddr:
			v = x.X
		case *ssa.IndexAddr:
			v = x.X
		case *ssa.UnOp:
			v = x.X
		case *ssa.Slice:
			v = x.X
		default:
			return nil
		}
	}
	return nil
}

// onceInitClosures: function literals (and their own literals) passed to
// (*sync.Once).Do whose receiver is a package-level sync.Once of the module.
func onceInitClosures(w *World) map[*ssa.Function]bool {
	out := map[*ssa.Function]bool{}
	var mark func(f *ssa.Function)
	mark = func(f *ssa.Function) {
		if f == nil || out[f] {
			return
		}
		out[f] = true
		for _, a := range f.AnonFuncs {
			mark(a)
		}
	}
	for _, f := range w.ModFuncs {
		if f.Blocks == nil {
			continue
		}
		instrs(f, func(in ssa.Instruction) {
			c, ok := in.(*ssa.Call)
			if !ok {
				return
			}
			cal := c.Call.StaticCallee()
			if cal == nil || cal.Name() != "Do" || pkgOf(cal) == nil || pkgOf(cal).Path() != "sync" || len(c.Call.Args) != 2 {
				return
			}
			if rootGlobal(c.Call.Args[0]) == nil {
				return
			}
			switch x := c.Call.Args[1].(type) {
			case *ssa.MakeClosure:
				// a literal that captured something of the calling activation builds a table that
				// depends on the first caller: not a read-only constant table
				if fn, ok := x.Fn.(*ssa.Function); ok && len(fn.FreeVars) == 0 {
					mark(fn)
				}
			case *ssa.Function:
				mark(x)
			}
		})
	}
	return out
}
