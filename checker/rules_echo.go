package main

// ECHO: the groups returned by a conversion report the scalar parameters of the
// request (output zooms, height range, altitude-base parameters) unchanged.
// Structural form: every scalar argument of a constructor (or one-argument
// setter) of the group type, at a call made on behalf of the API function, is
// one of the API function's own parameters -- the same SSA value, not a
// constant, not arithmetic on it, not a phi that mixes it with something else.

import (
	"fmt"
	"go/types"

	"golang.org/x/tools/go/ssa"
)

// echoStatus classifies value v (inside function g) against "is a parameter of
// g, unchanged".  Returned parameter is the one found (nil unless discharged).
func echoStatus(v ssa.Value, depth int) (Status, *ssa.Parameter, string) {
	v = resolve(v)
	switch x := v.(type) {
	case *ssa.Parameter:
		return Discharged, x, ""
	case *ssa.FreeVar:
		// bound variable of a closure: follow the binding when it is a plain value
		if depth > 3 {
			return Undecided, nil, "deep closure binding"
		}
		fn := x.Parent()
		idx := -1
		for i, fv := range fn.FreeVars {
			if fv == x {
				idx = i
			}
		}
		par := fn.Parent()
		if par == nil || idx < 0 {
			return Undecided, nil, "free variable"
		}
		var st Status = Undecided
		var pp *ssa.Parameter
		var why string
		n := 0
		instrs(par, func(in ssa.Instruction) {
			mc, ok := in.(*ssa.MakeClosure)
			if !ok || mc.Fn != ssa.Value(fn) || idx >= len(mc.Bindings) {
				return
			}
			n++
			st, pp, why = echoStatus(mc.Bindings[idx], depth+1)
		})
		if n == 1 {
			return st, pp, why
		}
		return Undecided, nil, "free variable"
	case *ssa.Const:
		return Violated, nil, "a constant (" + x.String() + ")"
	case *ssa.Phi:
		var params []*ssa.Parameter
		other := ""
		seen := map[*ssa.Phi]bool{}
		var walk func(p *ssa.Phi)
		walk = func(p *ssa.Phi) {
			if seen[p] {
				return
			}
			seen[p] = true
			for _, e := range p.Edges {
				ev := resolve(e)
				switch y := ev.(type) {
				case *ssa.Phi:
					walk(y)
				case *ssa.Parameter:
					params = append(params, y)
				case *ssa.Const:
					other = "the constant " + y.String()
				default:
					if other == "" {
						other = describeValue(ev)
					}
				}
			}
		}
		walk(x)
		if len(params) > 0 && other != "" {
			return Violated, nil, "the parameter " + params[0].Name() + " on some paths and " + other + " on others"
		}
		if len(params) > 1 {
			for _, p := range params[1:] {
				if p != params[0] {
					return Violated, nil, "the parameter " + params[0].Name() + " on some paths and " + p.Name() + " on others"
				}
			}
			return Discharged, params[0], ""
		}
		return Undecided, nil, "a merged value"
	case *ssa.BinOp:
		for _, o := range []ssa.Value{x.X, x.Y} {
			if p, ok := resolve(o).(*ssa.Parameter); ok {
				return Violated, nil, "arithmetic on the parameter " + p.Name() + " (" + shortValue(x) + ")"
			}
		}
	case *ssa.UnOp:
		if fv, ok := x.X.(*ssa.FreeVar); ok && x.Op.String() == "*" && depth <= 3 {
			// a captured variable: the cell it is bound to, when it is written exactly once
			root := fv.Parent()
			for root.Parent() != nil {
				root = root.Parent()
			}
			cells := cellsOf(root)
			if al, ok := cells[fv].(*ssa.Alloc); ok {
				if sv := onlyStore(al, cells); sv != nil {
					return echoStatus(sv, depth+1)
				}
				return Undecided, nil, "a captured variable that is assigned more than once"
			}
			return Undecided, nil, "a captured variable"
		}
		if x.Op.String() == "-" {
			if p, ok := resolve(x.X).(*ssa.Parameter); ok {
				return Violated, nil, "the negated parameter " + p.Name()
			}
		}
	}
	return Undecided, nil, describeValue(v)
}

// cellsOf: free variable -> the cell of f it is bound to, over all closures made in f.
func cellsOf(f *ssa.Function) map[ssa.Value]ssa.Value {
	out := map[ssa.Value]ssa.Value{}
	var walk func(g *ssa.Function)
	walk = func(g *ssa.Function) {
		instrs(g, func(in ssa.Instruction) {
			mc, ok := in.(*ssa.MakeClosure)
			if !ok {
				return
			}
			cf, ok := mc.Fn.(*ssa.Function)
			if !ok {
				return
			}
			for i, b := range mc.Bindings {
				if i < len(cf.FreeVars) {
					if c, ok := out[b]; ok {
						out[cf.FreeVars[i]] = c
					} else {
						out[cf.FreeVars[i]] = b
					}
				}
			}
			walk(cf)
		})
	}
	walk(f)
	return out
}

func shortValue(v ssa.Value) string {
	s := v.String()
	if len(s) > 60 {
		s = s[:60] + "..."
	}
	return s
}

func isScalar(t types.Type) bool {
	b, ok := t.Underlying().(*types.Basic)
	return ok && b.Info()&(types.IsInteger|types.IsFloat) != 0
}

// groupElem: the struct type T when f returns []*T (first result) with T a
// named struct of the module.
func groupElem(f *ssa.Function) *types.Named {
	res := f.Signature.Results()
	if res.Len() == 0 {
		return nil
	}
	sl, ok := res.At(0).Type().Underlying().(*types.Slice)
	if !ok {
		return nil
	}
	pt, ok := sl.Elem().(*types.Pointer)
	if !ok {
		return nil
	}
	n, ok := pt.Elem().(*types.Named)
	if !ok {
		return nil
	}
	if _, ok := n.Underlying().(*types.Struct); !ok {
		return nil
	}
	return n
}

func ruleEcho(w *World, r *Report, fns ...*ssa.Function) {
	r.Rule("ECHO", "every scalar argument handed to the constructor (or a setter) of the returned group type is a parameter of the conversion function itself, unchanged on every path: not a constant, not arithmetic on the parameter, not a value that is the parameter on some paths only")
	for _, f := range fns {
		if f == nil || f.Blocks == nil {
			continue
		}
		T := groupElem(f)
		if T == nil {
			continue
		}
		fname := w.FuncName(f)
		can := w.IsCanary(f)
		add := func(key, pos string, st Status, detail string) {
			r.Add(Obligation{Rule: "ECHO", Key: "ECHO / " + key, Pos: pos, Status: st, Detail: detail, Canary: can})
		}
		// functions working on behalf of f: f, its closures, and same-package helpers
		// called from f with f's parameters
		type site struct {
			call   *ssa.Call
			callee *ssa.Function
			in     *ssa.Function
		}
		var sites []site
		scan := func(g *ssa.Function) {
			instrs(g, func(in ssa.Instruction) {
				c, ok := in.(*ssa.Call)
				if !ok {
					return
				}
				cal := c.Call.StaticCallee()
				if cal == nil || !w.InModule(cal) {
					return
				}
				res := cal.Signature.Results()
				if cal.Signature.Recv() == nil && res.Len() == 1 {
					if pt, ok := res.At(0).Type().(*types.Pointer); ok && types.Identical(pt.Elem(), T) {
						sites = append(sites, site{c, cal, g})
					}
					return
				}
				if rc := cal.Signature.Recv(); rc != nil && res.Len() == 0 && cal.Signature.Params().Len() == 1 {
					if pt, ok := rc.Type().(*types.Pointer); ok && types.Identical(pt.Elem(), T) && isScalar(cal.Signature.Params().At(0).Type()) {
						sites = append(sites, site{c, cal, g})
					}
				}
			})
		}
		var fam []*ssa.Function
		var addFam func(g *ssa.Function)
		addFam = func(g *ssa.Function) {
			fam = append(fam, g)
			for _, a := range g.AnonFuncs {
				addFam(a)
			}
		}
		addFam(f)
		helperSites := map[*ssa.Function][]*ssa.Call{}
		for _, g := range append([]*ssa.Function{}, fam...) {
			instrs(g, func(in ssa.Instruction) {
				c, ok := in.(*ssa.Call)
				if !ok {
					return
				}
				cal := c.Call.StaticCallee()
				if cal == nil || !w.InModule(cal) || cal.Blocks == nil || pkgOf(cal) != pkgOf(f) || cal == f {
					return
				}
				if _, ok := helperSites[cal]; !ok && !isAnonOf(cal, f) {
					fam = append(fam, cal)
				}
				helperSites[cal] = append(helperSites[cal], c)
			})
		}
		for _, g := range fam {
			scan(g)
		}
		if len(sites) == 0 {
			add(fname, w.Pos(f.Pos()), Undecided, "no constructor or setter call of "+T.Obj().Name()+" found on behalf of this function")
			continue
		}
		// the constructor / setter itself keeps the value: every scalar parameter is stored
		// into a field as it is (a setter that clamps or normalises changes what is reported)
		checked := map[*ssa.Function]bool{}
		var keeps func(g *ssa.Function, depth int)
		keeps = func(g *ssa.Function, depth int) {
			if g == nil || g.Blocks == nil || checked[g] || depth > 2 {
				return
			}
			checked[g] = true
			gname := w.FuncName(g)
			for pi, prm := range g.Params {
				if !isScalar(prm.Type()) || prm.Referrers() == nil {
					continue
				}
				// where does the parameter go: a field store, or a callee that stores it
				stored, changed := false, ""
				instrs(g, func(in ssa.Instruction) {
					switch x := in.(type) {
					case *ssa.Store:
						if _, _, isField := fieldOf(x.Addr); !isField {
							return
						}
						v := resolve(x.Val)
						if v == ssa.Value(prm) {
							stored = true
							return
						}
						if ph, ok := v.(*ssa.Phi); ok {
							hasP, other := false, ""
							for _, e := range ph.Edges {
								if resolve(e) == ssa.Value(prm) {
									hasP = true
								} else if other == "" {
									other = describeValue(e)
								}
							}
							if hasP && other != "" {
								changed = "stores " + prm.Name() + " on some paths and " + other + " on others (" + w.Pos(x.Pos()) + ")"
							}
						}
						if bo, ok := v.(*ssa.BinOp); ok && (resolve(bo.X) == ssa.Value(prm) || resolve(bo.Y) == ssa.Value(prm)) {
							changed = "stores arithmetic on " + prm.Name() + " (" + w.Pos(x.Pos()) + ")"
						}
						if mc, ok := v.(*ssa.Call); ok && (builtinName(mc) == "min" || builtinName(mc) == "max") {
							for _, a := range mc.Call.Args {
								if resolve(a) == ssa.Value(prm) {
									changed = "stores " + builtinName(mc) + "(" + prm.Name() + ", ...) (" + w.Pos(x.Pos()) + ")"
								}
							}
						}
					case *ssa.Call:
						cal := x.Call.StaticCallee()
						if cal == nil || !w.InModule(cal) {
							return
						}
						for ai, a := range x.Call.Args {
							if resolve(a) == ssa.Value(prm) && ai < len(cal.Params) {
								keeps(cal, depth+1)
							}
						}
					}
				})
				_ = stored
				if changed != "" {
					add(fmt.Sprintf("%s / %s keeps %s", fname, gname, prm.Name()), w.Pos(g.Pos()), Violated, "the group does not report the request's value unchanged: "+gname+" "+changed)
				} else if stored {
					add(fmt.Sprintf("%s / %s keeps %s", fname, gname, prm.Name()), w.Pos(g.Pos()), Discharged, "parameter #"+fmt.Sprint(pi)+" is stored into a field unchanged")
				}
			}
		}
		for _, s := range sites {
			keeps(s.callee, 0)
		}
		cnt := map[string]int{}
		for _, s := range sites {
			params := s.callee.Signature.Params()
			off := 0
			if s.callee.Signature.Recv() != nil {
				off = 1
			}
			for i := 0; i < params.Len(); i++ {
				if !isScalar(params.At(i).Type()) || i+off >= len(s.call.Call.Args) {
					continue
				}
				st, p, why := echoStatus(s.call.Call.Args[i+off], 0)
				if st == Discharged && p.Parent() != f {
					// a helper's parameter: judge what f hands to the helper
					h := p.Parent()
					pi := paramIndex(h, p)
					calls := helperSites[h]
					if pi < 0 || len(calls) == 0 {
						st, why = Undecided, "a parameter of "+w.FuncName(h)+", which is not called directly by the conversion"
					} else {
						for _, hc := range calls {
							if pi >= len(hc.Call.Args) {
								st, why = Undecided, "helper arity"
								break
							}
							st2, p2, why2 := echoStatus(hc.Call.Args[pi], 0)
							if st2 == Discharged && p2.Parent() != f && !isAnonOf(p2.Parent(), f) {
								st2, why2 = Undecided, "passed through two helpers"
							}
							if st2 != Discharged {
								st, why = st2, why2+" (handed to "+w.FuncName(h)+")"
								if st2 == Violated {
									break
								}
							}
						}
					}
				}
				name := params.At(i).Name()
				key := fmt.Sprintf("%s / %s(%s)", fname, s.callee.Name(), name)
				cnt[key]++
				if cnt[key] > 1 {
					key = fmt.Sprintf("%s #%d", key, cnt[key])
				}
				switch st {
				case Discharged:
					add(key, w.Pos(s.call.Pos()), Discharged, "receives a parameter of the conversion unchanged")
				case Violated:
					add(key, w.Pos(s.call.Pos()), Violated, "the group does not report the request's value unchanged: "+s.callee.Name()+" receives "+why)
				default:
					add(key, w.Pos(s.call.Pos()), Undecided, "argument is not recognised as a parameter of the conversion ("+why+")")
				}
			}
		}
	}
}

func isAnonOf(g, f *ssa.Function) bool {
	for g != nil {
		if g == f {
			return true
		}
		g = g.Parent()
	}
	return false
}

// DELEGATE-ONCE: a function whose callee de-duplicates ACROSS the list it is
// given (a seen-set that lives for one call) hands it the whole list in one
// call.  Calling it once per element and concatenating the results makes the
// de-duplication per element: what two inputs share is reported twice.
func ruleDelegateOnce(w *World, r *Report, wrapper, callee string) {
	r.Rule("DELEGATE-ONCE", "a wrapper of a list conversion that de-duplicates across its input hands the whole list over in one call: the callee is not called once per element with the results concatenated (its seen-set lives for one call only)")
	f, g := lookupByName(w, wrapper), lookupByName(w, callee)
	if f == nil || g == nil {
		r.add("DELEGATE-ONCE", wrapper, "?", Unresolved, "function not found")
		return
	}
	calls := callsTo(f, func(x *ssa.Function) bool { return x == g })
	for _, a := range f.AnonFuncs {
		calls = append(calls, callsTo(a, func(x *ssa.Function) bool { return x == g })...)
	}
	if len(calls) == 0 {
		r.add("DELEGATE-ONCE", wrapper, w.Pos(f.Pos()), Undecided, "no call of "+callee+" found")
		return
	}
	for i, c := range calls {
		key := fmt.Sprintf("%s / call#%d", wrapper, i+1)
		loops := naturalLoops(c.Parent())
		il := innermostLoop(loops, c.Block())
		if il == nil {
			r.add("DELEGATE-ONCE", key, w.Pos(c.Pos()), Discharged, "one call outside every loop")
			continue
		}
		// inside a loop: are its results accumulated by a spread append?
		spread := false
		res := extractOf(c, 0)
		if res != nil && res.Referrers() != nil {
			for _, ref := range *res.Referrers() {
				if ap, ok := ref.(*ssa.Call); ok && builtinName(ap) == "append" {
					if _, sp := appendedElems(ap); sp != nil && resolve(sp) == ssa.Value(res) {
						spread = true
					}
				}
			}
		}
		// a de-duplication of the concatenation afterwards (a set helper, a map) restores it
		dedup := false
		instrs(c.Parent(), func(in ssa.Instruction) {
			switch x := in.(type) {
			case *ssa.MakeMap:
				dedup = true
			case *ssa.Call:
				if h := calleeOf(x); h != nil && h != g && w.InModule(h) && distinctFor(w).fnReturnsDistinct(h) {
					dedup = true
				}
				if calleeIs(x, "slices", "Compact") || calleeIs(x, "slices", "CompactFunc") {
					dedup = true
				}
			}
		})
		if spread && dedup {
			r.add("DELEGATE-ONCE", key, w.Pos(c.Pos()), Undecided, "the callee is called per element and the wrapper de-duplicates by other means; not followed")
			continue
		}
		if spread {
			r.add("DELEGATE-ONCE", key, w.Pos(c.Pos()), Violated, callee+" is called inside a loop and its results are concatenated: the de-duplication it performs across its input list now covers one call (one element) only, so what two inputs share is reported twice")
		} else {
			r.add("DELEGATE-ONCE", key, w.Pos(c.Pos()), Undecided, "the call sits inside a loop; how its results are combined was not read")
		}
	}
}
