package main

// Loop-shaped rules: must-pass-through per iteration, EXISTS-LOOP, TYPESTATE,
// RANGEUSE, INCLUDES (accumulator), EARLY-SINGLE, STENCIL.

import (
	"fmt"
	"go/token"
	"go/types"
	"sort"
	"strings"

	"golang.org/x/tools/go/ssa"
)

func loopOverParam(f *ssa.Function, p int) *sliceRange {
	for _, sr := range findSliceRanges(f) {
		if resolve(sr.X) == ssa.Value(f.Params[p]) {
			return sr
		}
	}
	return nil
}

// everyIterationPasses: every path from the loop body entry back to the loop
// header passes through a block containing a call satisfying pred (paths that
// leave the function are not constrained).  oracle may fix branch outcomes.
func everyIterationPasses(sr *sliceRange, pred func(*ssa.Call) bool, oracle func(ssa.Value) (bool, bool)) (bool, int) {
	stop := map[*ssa.BasicBlock]bool{}
	n := 0
	for b := range sr.blocks() {
		for _, in := range b.Instrs {
			if c, ok := in.(*ssa.Call); ok && pred(c) {
				stop[b] = true
				n++
			}
		}
	}
	if n == 0 {
		return false, 0
	}
	if oracle == nil {
		oracle = func(ssa.Value) (bool, bool) { return false, false }
	}
	reach := simulate(sr.Body, stop, oracle)
	return !reach[sr.Header], n
}

func isRadixMethod(name string) func(*ssa.Call) bool {
	return func(c *ssa.Call) bool {
		if c.Common().IsInvoke() {
			m := c.Common().Method
			return m != nil && m.Name() == name && m.Pkg() != nil && strings.Contains(m.Pkg().Path(), "multidimensional-radix-tree")
		}
		g := calleeOf(c)
		if g == nil {
			return false
		}
		p := pkgOf(g)
		return p != nil && strings.Contains(p.Path(), "multidimensional-radix-tree") && g.Name() == name
	}
}

// lenOracle: decides comparisons of len(param p) with 0 given emptiness.
func lenIsZeroOracle(f *ssa.Function, p int, empty bool) func(ssa.Value) (bool, bool) {
	isLen := func(v ssa.Value) bool {
		c, ok := resolve(v).(*ssa.Call)
		return ok && builtinName(c) == "len" && resolve(c.Call.Args[0]) == ssa.Value(f.Params[p])
	}
	return func(cond ssa.Value) (bool, bool) {
		b, ok := resolve(cond).(*ssa.BinOp)
		if !ok {
			return false, false
		}
		if isLen(b.X) {
			if k, ok := constInt(b.Y); ok && k == 0 {
				r := relGT
				if empty {
					r = relEQ
				}
				return cmpOutcome(b.Op, r)
			}
		}
		if isLen(b.Y) {
			// rangeindex test: idx < len(p)
			if empty && b.Op == token.LSS {
				return false, true
			}
			if k, ok := constInt(b.X); ok && k == 0 {
				r := relLT
				if empty {
					r = relEQ
				}
				return cmpOutcome(b.Op, r)
			}
		}
		return false, false
	}
}

// ruleTreeOverlap: C05 rules on the radix-tree implementation.
func ruleTreeOverlap(w *World, r *Report) {
	r.Rule("EVERY-ELEMENT", "every element of the first list is inserted into the radix tree (no iteration reaches the next element without tree.Append) and every element of the second list is queried with IsOverlap unless the first list is empty")
	r.Rule("TYPESTATE", "tree.IsOverlap is unreachable when the first list is empty (nothing appended): the dependency indexes an empty node table otherwise")
	fn := "detector.CheckSpatialIdsArrayOverlap"
	f := lookupByName(w, fn)
	if f == nil {
		r.add("EVERY-ELEMENT", fn, "?", Unresolved, "function not found")
		return
	}
	pos := w.Pos(f.Pos())
	l1, l2 := loopOverParam(f, 0), loopOverParam(f, 1)
	if l1 == nil || l2 == nil {
		r.add("EVERY-ELEMENT", fn+" / loops", pos, Undecided, "expected one range loop over each ID list")
		return
	}
	ok, n := everyIterationPasses(l1, isRadixMethod("Append"), nil)
	switch {
	case n == 0:
		r.add("EVERY-ELEMENT", fn+" / first list", pos, Undecided, "no tree.Append call in the loop over the first list")
	case ok:
		r.add("EVERY-ELEMENT", fn+" / first list", pos, Discharged, "every non-failing iteration passes through tree.Append")
	default:
		r.add("EVERY-ELEMENT", fn+" / first list", pos, Violated, "an iteration over the first list can reach the next element without inserting the ID into the tree (the ID is silently ignored)")
	}
	ok, n = everyIterationPasses(l2, isRadixMethod("IsOverlap"), lenIsZeroOracle(f, 0, false))
	switch {
	case n == 0:
		r.add("EVERY-ELEMENT", fn+" / second list", pos, Undecided, "no tree.IsOverlap call in the loop over the second list")
	case ok:
		r.add("EVERY-ELEMENT", fn+" / second list", pos, Discharged, "with a non-empty first list every non-failing iteration queries tree.IsOverlap")
	default:
		r.add("EVERY-ELEMENT", fn+" / second list", pos, Violated, "an iteration over the second list can skip the overlap query although the first list is non-empty")
	}
	// typestate: empty first list
	reach := simulate(f.Blocks[0], nil, lenIsZeroOracle(f, 0, true))
	bad := ""
	for b := range reach {
		for _, in := range b.Instrs {
			if c, ok := in.(*ssa.Call); ok && isRadixMethod("IsOverlap")(c) {
				bad = w.Pos(c.Pos())
			}
		}
	}
	if bad != "" {
		r.add("TYPESTATE", fn+" / IsOverlap on empty tree", bad, Violated, "tree.IsOverlap is reachable with an empty first list (panics inside the radix tree: index out of range)")
	} else {
		r.add("TYPESTATE", fn+" / IsOverlap on empty tree", pos, Discharged, "with an empty first list no path reaches tree.IsOverlap")
	}
	// answer shape: true only from IsOverlap, false after the loops
	nT, nF, badRet, unknownRet := 0, 0, "", ""
	for _, ret := range returnsOf(f) {
		if classifyReturn(f, ret) != retSuccess {
			continue
		}
		v := resolve(ret.Results[0])
		if c, ok := v.(*ssa.Const); ok && c.Value != nil && c.Value.String() == "false" {
			if l1.blocks()[ret.Block()] || l2.blocks()[ret.Block()] {
				badRet = "a success return inside the loops answers false before all elements were examined (" + w.Pos(ret.Pos()) + ")"
			}
			nF++
			continue
		}
		if c, ok := v.(*ssa.Call); ok && isRadixMethod("IsOverlap")(c) && l2.blocks()[ret.Block()] {
			nT++
			continue
		}
		// literal true on a path entered only through the true edge of an IsOverlap test
		if c, ok := v.(*ssa.Const); ok && c.Value != nil && c.Value.String() == "true" && l2.blocks()[ret.Block()] {
			hit := false
			for b := range l2.blocks() {
				for _, in := range b.Instrs {
					if q, ok := in.(*ssa.Call); ok && isRadixMethod("IsOverlap")(q) && dominatedByTrueOf(f, q, ret.Block()) {
						hit = true
					}
				}
			}
			if hit {
				nT++
				continue
			}
		}
		if _, isConst := v.(*ssa.Const); isConst {
			badRet = "a constant answer is returned that is not guarded by the IsOverlap result (" + describeValue(ret.Results[0]) + " at " + w.Pos(ret.Pos()) + ")"
		} else {
			unknownRet = "success return value is neither the IsOverlap result nor a constant (" + describeValue(ret.Results[0]) + " at " + w.Pos(ret.Pos()) + ")"
		}
	}
	if badRet != "" {
		r.add("EXISTS-LOOP", fn+" / answer", pos, Violated, badRet)
	} else if unknownRet != "" || nT == 0 || nF == 0 {
		if unknownRet == "" {
			unknownRet = fmt.Sprintf("expected a true-return from IsOverlap inside the second loop and a false-return after it, found %d and %d", nT, nF)
		}
		r.add("EXISTS-LOOP", fn+" / answer", pos, Undecided, unknownRet)
	} else {
		r.add("EXISTS-LOOP", fn+" / answer", pos, Discharged, "true is returned only from an IsOverlap hit, false only after all elements were examined")
	}
}

// ruleExistsLoop: array form = disjunction of the pair form over the two lists.
func ruleExistsLoop(w *World, r *Report) {
	r.Rule("EXISTS-LOOP", "the array form of the overlap check is a nest of two range loops over its two arguments whose body calls the pair form on the two loop elements in every iteration, returns true exactly on a true result, propagates errors, and returns false after the nest (so empty lists give false)")
	fn := "detector.CheckExtendedSpatialIdsArrayOverlap"
	f := lookupByName(w, fn)
	pair := lookupByName(w, "detector.CheckExtendedSpatialIdsOverlap")
	if f == nil || pair == nil {
		r.add("EXISTS-LOOP", fn, "?", Unresolved, "function not found")
		return
	}
	pos := w.Pos(f.Pos())
	l1, l2 := loopOverParam(f, 0), loopOverParam(f, 1)
	if l1 == nil || l2 == nil || !l1.blocks()[l2.Header] {
		r.add("EXISTS-LOOP", fn+" / nest", pos, Undecided, "expected a loop over the second list nested in a loop over the first list")
		return
	}
	calls := callsTo(f, func(g *ssa.Function) bool { return g == pair })
	if len(calls) != 1 || !l2.blocks()[calls[0].Block()] {
		r.add("EXISTS-LOOP", fn+" / pair call", pos, Undecided, fmt.Sprintf("expected exactly one call of the pair form inside the inner loop, found %d", len(calls)))
		return
	}
	c := calls[0]
	a0, a1 := resolve(c.Call.Args[0]), resolve(c.Call.Args[1])
	if (l1.isElem(a0) && l1.isElem(a1)) || (l2.isElem(a0) && l2.isElem(a1)) {
		r.add("EXISTS-LOOP", fn+" / pair call", w.Pos(c.Pos()), Violated, "the pair form is applied to two elements of the same list")
	} else if l2.isElem(a0) && l1.isElem(a1) {
		r.add("EXISTS-LOOP", fn+" / pair call", w.Pos(c.Pos()), Discharged, "pair form applied to the two loop elements (in the other order; the relation is symmetric)")
	} else if !l1.isElem(a0) || !l2.isElem(a1) {
		r.add("EXISTS-LOOP", fn+" / pair call", w.Pos(c.Pos()), Undecided, "the arguments of the pair form are not recognisably the two loop elements ("+shortInstr(c)+")")
	} else {
		r.add("EXISTS-LOOP", fn+" / pair call", w.Pos(c.Pos()), Discharged, "pair form applied to the two loop elements")
	}
	if ok, _ := everyIterationPasses(l2, func(x *ssa.Call) bool { return x == c }, nil); !ok {
		r.add("EXISTS-LOOP", fn+" / every pair", w.Pos(c.Pos()), Violated, "an inner iteration can continue without calling the pair form (a pair is skipped)")
	} else {
		r.add("EXISTS-LOOP", fn+" / every pair", w.Pos(c.Pos()), Discharged, "every inner iteration calls the pair form")
	}
	res := extractOf(c, 0)
	nT, nF := 0, 0
	bad, unknown := "", ""
	for _, ret := range returnsOf(f) {
		if classifyReturn(f, ret) != retSuccess {
			continue
		}
		v := resolve(ret.Results[0])
		inLoop := l1.blocks()[ret.Block()]
		if k, ok := v.(*ssa.Const); ok && k.Value != nil {
			if k.Value.String() == "false" && !inLoop {
				nF++
				continue
			}
			if k.Value.String() == "true" && inLoop && res != nil && dominatedByTrueOf(f, res, ret.Block()) {
				nT++
				continue
			}
		}
		if res != nil && v == ssa.Value(res) && inLoop && dominatedByTrueOf(f, res, ret.Block()) {
			nT++
			continue
		}
		if _, isConst := v.(*ssa.Const); isConst {
			bad = "a constant answer is returned that is not guarded by the pair result (" + describeValue(ret.Results[0]) + " at " + w.Pos(ret.Pos()) + ")"
		} else {
			unknown = "success return " + describeValue(ret.Results[0]) + " at " + w.Pos(ret.Pos()) + " is neither the pair result nor a constant"
		}
	}
	if bad != "" {
		r.add("EXISTS-LOOP", fn+" / answer", pos, Violated, bad)
	} else if unknown != "" || nT == 0 || nF == 0 {
		if unknown == "" {
			unknown = fmt.Sprintf("expected a true-return guarded by the pair result and a false-return after the loops, found %d and %d", nT, nF)
		}
		r.add("EXISTS-LOOP", fn+" / answer", pos, Undecided, unknown)
	} else {
		r.add("EXISTS-LOOP", fn+" / answer", pos, Discharged, "true iff some pair overlaps; false after the nest")
	}
}

// dominatedByTrueOf: block b is only reachable through the true edge of `if cond`.
func dominatedByTrueOf(f *ssa.Function, cond ssa.Value, b *ssa.BasicBlock) bool {
	for _, blk := range f.Blocks {
		t, _, i := ifSuccs(blk)
		if i == nil || resolve(i.Cond) != cond {
			continue
		}
		if t == b || blockDominatedByEdge(f, blk, t, b) {
			return true
		}
	}
	return false
}

// ---------------------------------------------------------------- RANGEUSE

func ruleRangeUse(w *World, r *Report, in map[*ssa.Function]bool) {
	r.Rule("RANGEUSE", "every caller of transform.ConvertZToMinMaxAltitudekey / ConvertAltitudekeyToMinMaxZ consumes both the minimum and the maximum of the returned range (binding one of them to _ silently drops part of the altitude range); sites are keyed by package and call order so that moving a call into a helper keeps its identity")
	ord := map[string]int{}
	for _, f := range w.ModFuncs {
		if f.Synthetic != "" {
			continue
		}
		can := w.IsCanary(f)
		if !can && in != nil && !in[f] {
			continue
		}
		pk := relPkg(pkgOf(f))
		instrs(f, func(ins ssa.Instruction) {
			c, ok := ins.(*ssa.Call)
			if !ok {
				return
			}
			if !(calleeIs(c, modPath+"/transform", "ConvertZToMinMaxAltitudekey") || calleeIs(c, modPath+"/transform", "ConvertAltitudekeyToMinMaxZ")) {
				return
			}
			scope := "package " + pk
			if can {
				scope = w.FuncName(f)
			}
			ord[scope]++
			key := fmt.Sprintf("RANGEUSE / %s / range call#%d", scope, ord[scope])
			e0, e1 := extractOf(c, 0), extractOf(c, 1)
			u0 := e0 != nil && hasRealReferrer(e0)
			u1 := e1 != nil && hasRealReferrer(e1)
			if u0 && u1 {
				r.Add(Obligation{Rule: "RANGEUSE", Key: key, Pos: w.Pos(c.Pos()), Status: Discharged, Detail: "both bounds are used (in " + w.FuncName(f) + ")", Canary: can})
			} else {
				which := "maximum"
				if !u0 {
					which = "minimum"
				}
				r.Add(Obligation{Rule: "RANGEUSE", Key: key, Pos: w.Pos(c.Pos()), Status: Violated, Detail: "the " + which + " of the returned key range is discarded in " + w.FuncName(f) + " (" + shortInstr(c) + ")", Canary: can})
			}
		})
	}
}

// ---------------------------------------------------------------- INCLUDES / EARLY-SINGLE (line)

func ruleLineIncludes(w *World, r *Report) {
	r.Rule("INCLUDES", "the IDs of both end points (the de-duplicated result of the point lookup on {start, end}) are contained in every success return: the accumulator starts from them, is only ever appended to, and the returned value is the accumulator or its de-duplication")
	r.Rule("EARLY-SINGLE", "when the de-duplicated end-point list has length 1 the function returns exactly that list")
	r.Rule("PASSTHRU", "the zoom parameters reach every point lookup of the line voxeliser unchanged (same SSA value through all recursive calls), and every activation of the recursion reports its midpoint voxel before it returns")
	fn := "shape.GetExtendedSpatialIdsOnLine"
	f := lookupByName(w, fn)
	if f == nil {
		r.add("INCLUDES", fn, "?", Unresolved, "function not found")
		return
	}
	pos := w.Pos(f.Pos())
	onPoints := lookupByName(w, "shape.GetExtendedSpatialIdsOnPoints")
	calls := callsTo(f, func(g *ssa.Function) bool { return g == onPoints })
	if len(calls) != 1 {
		r.add("INCLUDES", fn+" / end points", pos, Undecided, "expected one point lookup of the end points")
		return
	}
	pc := calls[0]
	// arguments: {start, end}, hZoom, vZoom
	okArgs := resolve(pc.Call.Args[1]) == ssa.Value(f.Params[2]) && resolve(pc.Call.Args[2]) == ssa.Value(f.Params[3])
	if vals, ok := sliceLiteral(pc.Call.Args[0]); !ok || len(vals) != 2 || resolve(vals[0]) != ssa.Value(f.Params[0]) || resolve(vals[1]) != ssa.Value(f.Params[1]) {
		okArgs = false
	}
	if okArgs {
		r.add("PASSTHRU", fn+" / end-point lookup", w.Pos(pc.Pos()), Discharged, "point lookup on {start, end} at (hZoom, vZoom)")
	} else {
		st := worst(argStatus(pc.Call.Args[1], f.Params[2]), argStatus(pc.Call.Args[2], f.Params[3]))
		if vals, ok := sliceLiteral(pc.Call.Args[0]); ok && len(vals) == 2 {
			st = worst(st, argStatus(vals[0], f.Params[0]), argStatus(vals[1], f.Params[1]))
		} else {
			st = worst(st, Undecided)
		}
		r.add("PASSTHRU", fn+" / end-point lookup", w.Pos(pc.Pos()), st, "the end-point lookup does not receive {start, end}, hZoom, vZoom unchanged ("+shortInstr(pc)+")")
	}
	ends := extractOf(pc, 0)
	// U = Unique(ends) stored into the accumulator variable (an Alloc, because a closure appends to it)
	var acc *ssa.Alloc
	var uniq ssa.Value
	var uniqStore *ssa.Store
	instrs(f, func(in ssa.Instruction) {
		st, ok := in.(*ssa.Store)
		if !ok {
			return
		}
		al, ok := st.Addr.(*ssa.Alloc)
		if !ok {
			return
		}
		if c, ok := resolveNoAlloc(st.Val).(*ssa.Call); ok && distinctFor(w).fnReturnsDistinct(calleeOf(c)) && len(c.Call.Args) == 1 && derivesFromAlloc(c.Call.Args[0], al, ends) {
			acc, uniq, uniqStore = al, c, st
		}
	})
	if acc == nil {
		r.add("INCLUDES", fn+" / accumulator", pos, Undecided, "could not find the accumulator initialised with the de-duplicated end-point IDs")
		return
	}
	// every store into acc (here and in closures) is the init, the point-lookup result, uniq, or append(load acc, ...)
	bad, open := "", ""
	check := func(g *ssa.Function, addr ssa.Value) {
		instrs(g, func(in ssa.Instruction) {
			st, ok := in.(*ssa.Store)
			if !ok || st.Addr != addr {
				return
			}
			v := resolveNoAlloc(st.Val)
			if v == uniq || v == ssa.Value(ends) {
				return
			}
			if c, ok := v.(*ssa.Call); ok && builtinName(c) == "append" {
				if ld, ok := loadOf(c.Call.Args[0]); ok && ld == addr {
					return
				}
			}
			// a de-duplication of the accumulator itself keeps every member
			if c, ok := v.(*ssa.Call); ok && builtinName(c) == "" && len(c.Call.Args) >= 1 {
				if ld, ok := loadOf(stripConv(c.Call.Args[0])); ok && ld == addr {
					if distinctFor(w).fnReturnsDistinct(calleeOf(c)) {
						return
					}
					// some other function of the accumulator: not followed
					if open == "" {
						open = "the accumulator is replaced by " + shortInstr(c) + " at " + w.Pos(st.Pos())
					}
					return
				}
			}
			// a store that is always followed by the store of the de-duplicated end points (an
			// initial value, the raw lookup result) is overwritten before anything is accumulated
			if g == f && uniqStore != nil && st != uniqStore {
				if st.Block() == uniqStore.Block() {
					before := false
					for _, in2 := range st.Block().Instrs {
						if in2 == ssa.Instruction(st) {
							before = true
							break
						}
						if in2 == ssa.Instruction(uniqStore) {
							break
						}
					}
					if before {
						return
					}
				} else if !reachableFrom(uniqStore.Block(), nil)[st.Block()] {
					// every way from this store to a success return passes the store of the end points
					reach := reachableFrom(st.Block(), map[*ssa.BasicBlock]bool{uniqStore.Block(): true})
					all := true
					for _, ret := range returnsOf(f) {
						if reach[ret.Block()] && !scFor(w).isFailureReturn(f, ret) {
							all = false
						}
					}
					if all {
						return
					}
				}
			}
			// a store on a path that can only end in a failure return (return []string{}, err
			// with named results) does not touch any success result
			if g == f {
				reach := reachableFrom(st.Block(), nil)
				any, all := false, true
				for _, ret := range returnsOf(f) {
					if reach[ret.Block()] {
						any = true
						if !scFor(w).isFailureReturn(f, ret) {
							all = false
						}
					}
				}
				if any && all {
					return
				}
			}
			bad = "the accumulator is overwritten at " + w.Pos(st.Pos()) + " (" + shortInstr(st) + ")"
		})
	}
	check(f, acc)
	for _, ref := range *acc.Referrers() {
		if mc, ok := ref.(*ssa.MakeClosure); ok {
			cl := mc.Fn.(*ssa.Function)
			for i, b := range mc.Bindings {
				if b == ssa.Value(acc) {
					check(cl, cl.FreeVars[i])
				}
			}
		}
	}
	if bad != "" {
		r.add("INCLUDES", fn+" / accumulator", pos, Violated, bad)
	} else if open != "" {
		r.add("INCLUDES", fn+" / accumulator", pos, Undecided, open)
	} else {
		r.add("INCLUDES", fn+" / accumulator", pos, Discharged, "accumulator = de-duplicated end-point IDs, afterwards only appended to")
	}
	// success returns
	n := 0
	single := false
	for _, ret := range returnsOf(f) {
		if classifyReturn(f, ret) != retSuccess {
			continue
		}
		n++
		key := fmt.Sprintf("%s / success return#%d", fn, n)
		v := resolveNoAlloc(ret.Results[0])
		ok := false
		if ld, isLd := loadOf(v); isLd && ld == ssa.Value(acc) {
			ok = true
			// early single?
			if lenEqOneDominates(f, acc, ret.Block()) {
				single = true
			}
		}
		if c, isC := v.(*ssa.Call); isC && distinctFor(w).fnReturnsDistinct(calleeOf(c)) && len(c.Call.Args) == 1 {
			if ld, isLd := loadOf(resolveNoAlloc(c.Call.Args[0])); isLd && ld == ssa.Value(acc) {
				ok = true
			}
		}
		if ok {
			r.add("INCLUDES", key, w.Pos(ret.Pos()), Discharged, "returns the accumulator (or its de-duplication)")
		} else {
			r.add("INCLUDES", key, w.Pos(ret.Pos()), Undecided, "the returned list could not be traced to the accumulator that holds the end-point IDs ("+describeValue(ret.Results[0])+")")
		}
	}
	if single {
		r.add("EARLY-SINGLE", fn, pos, Discharged, "a success return of the de-duplicated end-point list is guarded by len == 1")
	} else {
		r.add("EARLY-SINGLE", fn, pos, Undecided, "no success return of the de-duplicated end-point list guarded by len(list) == 1: both end points in one voxel must yield that single ID")
	}
	// recursion: zoom pass-through and callback
	cl := closureOf(w, []*ssa.Function{f})
	for g := range cl {
		if g == f || g.Parent() != nil || pkgOf(g) != pkgOf(f) {
			continue
		}
		// recursive helper: calls itself
		self := callsTo(g, func(x *ssa.Function) bool { return x == g })
		if len(self) == 0 {
			continue
		}
		gname := w.FuncName(g)
		// which params of g receive f's hZoom/vZoom?
		var hz, vz = -1, -1
		for _, c := range callsTo(f, func(x *ssa.Function) bool { return x == g }) {
			for i, a := range c.Call.Args {
				if resolve(a) == ssa.Value(f.Params[2]) {
					hz = i
				}
				if resolve(a) == ssa.Value(f.Params[3]) {
					vz = i
				}
			}
		}
		if hz < 0 || vz < 0 {
			r.add("PASSTHRU", gname+" / zooms", w.Pos(g.Pos()), Undecided, "the recursion does not receive hZoom and vZoom as parameters")
			continue
		}
		zst := Discharged
		for _, c := range self {
			zst = worst(zst, argStatus(c.Call.Args[hz], g.Params[hz]), argStatus(c.Call.Args[vz], g.Params[vz]))
		}
		for _, c := range callsTo(g, func(x *ssa.Function) bool { return x == onPoints }) {
			zst = worst(zst, argStatus(c.Call.Args[1], g.Params[hz]), argStatus(c.Call.Args[2], g.Params[vz]))
		}
		if zst == Discharged {
			r.add("PASSTHRU", gname+" / zooms", w.Pos(g.Pos()), Discharged, fmt.Sprintf("%d recursive calls and the point lookups receive the zoom parameters unchanged", len(self)))
		} else {
			r.add("PASSTHRU", gname+" / zooms", w.Pos(g.Pos()), zst, "a recursive call or point lookup does not receive the zoom parameters unchanged")
		}
		// callback invoked on every path from entry to any return (directly, or by a helper
		// that receives it and invokes it on all of its own paths)
		status, ncb := Violated, 0
		for i, p := range g.Params {
			if _, isFn := p.Type().Underlying().(*types.Signature); !isFn {
				continue
			}
			st, n := invokesOnAllPaths(w, g, i, map[*ssa.Function]bool{})
			if st == Discharged {
				status, ncb = Discharged, ncb+n
			} else if st == Undecided && status != Discharged {
				status = Undecided
			}
		}
		switch {
		case ncb > 0 && status == Discharged:
			r.add("PASSTHRU", gname+" / midpoint reported", w.Pos(g.Pos()), Discharged, "every activation reports its midpoint voxel before returning")
		case status == Undecided:
			r.add("PASSTHRU", gname+" / midpoint reported", w.Pos(g.Pos()), Undecided, "the callback is handed to code whose invocation of it could not be followed")
		default:
			r.add("PASSTHRU", gname+" / midpoint reported", w.Pos(g.Pos()), Violated, "an activation of the recursion can return without reporting its midpoint voxel")
		}
	}
}

// invokesOnAllPaths: does g invoke its function-typed parameter pi on every path from entry to
// a return?  Calls of the parameter count, and so do calls of module functions (other than g
// itself) that receive the parameter and invoke it on all of their paths.  Returns the status
// (Discharged / Undecided: handed to something that cannot be followed / Violated: a return
// is reachable without an invocation) and the number of invoking sites.
func invokesOnAllPaths(w *World, g *ssa.Function, pi int, seen map[*ssa.Function]bool) (Status, int) {
	if seen[g] || g.Blocks == nil || pi >= len(g.Params) {
		return Undecided, 0
	}
	seen[g] = true
	defer delete(seen, g)
	param := ssa.Value(g.Params[pi])
	stop := map[*ssa.BasicBlock]bool{}
	n := 0
	unknown := false
	instrs(g, func(in ssa.Instruction) {
		c, ok := in.(*ssa.Call)
		if !ok {
			// the callback kept somewhere else (closure, store, go/defer): cannot be followed
			for _, op := range in.Operands(nil) {
				if *op == param {
					if _, isCall := in.(ssa.CallInstruction); !isCall {
						unknown = true
					}
				}
			}
			return
		}
		if c.Common().StaticCallee() == nil && builtinName(c) == "" && c.Common().Value == param {
			stop[c.Block()] = true
			n++
			return
		}
		h := calleeOf(c)
		for j, a := range c.Call.Args {
			if a != param {
				continue
			}
			if h == g {
				continue // the recursion itself
			}
			if h == nil || !w.InModule(h) || h.Blocks == nil {
				unknown = true
				continue
			}
			jj := j
			if c.Call.IsInvoke() {
				unknown = true
				continue
			}
			st, _ := invokesOnAllPaths(w, h, jj, seen)
			switch st {
			case Discharged:
				stop[c.Block()] = true
				n++
			case Undecided:
				unknown = true
			}
		}
	})
	reach := simulate(g.Blocks[0], stop, func(ssa.Value) (bool, bool) { return false, false })
	for _, ret := range returnsOf(g) {
		if reach[ret.Block()] {
			if unknown {
				return Undecided, n
			}
			return Violated, n
		}
	}
	if n == 0 {
		if unknown {
			return Undecided, 0
		}
		return Violated, 0
	}
	return Discharged, n
}

func resolveNoAlloc(v ssa.Value) ssa.Value { return stripConv(v) }

// derivesFromAlloc: v is `ends` or a load of al (which holds ends).
func derivesFromAlloc(v ssa.Value, al *ssa.Alloc, ends ssa.Value) bool {
	v = stripConv(v)
	if v == ends {
		return true
	}
	if ld, ok := loadOf(v); ok && ld == ssa.Value(al) {
		return true
	}
	return false
}

func lenEqOneDominates(f *ssa.Function, acc *ssa.Alloc, b *ssa.BasicBlock) bool {
	for _, blk := range f.Blocks {
		t, fl, i := ifSuccs(blk)
		if i == nil {
			continue
		}
		c, ok := i.Cond.(*ssa.BinOp)
		if !ok || (c.Op != token.EQL && c.Op != token.NEQ) {
			continue
		}
		lc, ok := c.X.(*ssa.Call)
		if !ok || builtinName(lc) != "len" {
			continue
		}
		if ld, ok := loadOf(stripConv(lc.Call.Args[0])); !ok || ld != ssa.Value(acc) {
			continue
		}
		if k, ok := constInt(c.Y); !ok || k != 1 {
			continue
		}
		succ := t
		if c.Op == token.NEQ {
			succ = fl
		}
		if succ == b || blockDominatedByEdge(f, blk, succ, b) {
			return true
		}
	}
	return false
}

// ---------------------------------------------------------------- STENCIL

type offset [3]int64

type stencilEngine struct {
	w     *World
	shift *ssa.Function
	memo  map[*ssa.Function][]offset
	why   map[*ssa.Function]string
}

// evalConstInt evaluates an integer SSA expression under bindings.
func evalConstInt(v ssa.Value, env map[ssa.Value]int64) (int64, bool) {
	v = stripConv(v)
	if x, ok := env[v]; ok {
		return x, true
	}
	if k, ok := constInt(v); ok {
		return k, true
	}
	switch x := v.(type) {
	case *ssa.BinOp:
		a, ok1 := evalConstInt(x.X, env)
		b, ok2 := evalConstInt(x.Y, env)
		if !ok1 || !ok2 {
			return 0, false
		}
		switch x.Op {
		case token.ADD:
			return a + b, true
		case token.SUB:
			return a - b, true
		case token.MUL:
			return a * b, true
		}
	case *ssa.UnOp:
		if x.Op == token.SUB {
			a, ok := evalConstInt(x.X, env)
			return -a, ok
		}
	}
	return 0, false
}

func evalConstCond(v ssa.Value, env map[ssa.Value]int64) (bool, bool) {
	b, ok := v.(*ssa.BinOp)
	if !ok {
		return false, false
	}
	x, ok1 := evalConstInt(b.X, env)
	y, ok2 := evalConstInt(b.Y, env)
	if !ok1 || !ok2 {
		return false, false
	}
	switch b.Op {
	case token.LSS:
		return x < y, true
	case token.LEQ:
		return x <= y, true
	case token.GTR:
		return x > y, true
	case token.GEQ:
		return x >= y, true
	case token.EQL:
		return x == y, true
	case token.NEQ:
		return x != y, true
	}
	return false, false
}

// stencilOf computes the multiset of offsets a neighbourhood function applies
// to its input ID, by partially evaluating its single constant-bounded loop.
func (se *stencilEngine) stencilOf(f *ssa.Function) ([]offset, string) {
	if o, ok := se.memo[f]; ok {
		return o, se.why[f]
	}
	se.memo[f] = nil
	out, why := se.compute(f)
	se.memo[f], se.why[f] = out, why
	return out, why
}

func (se *stencilEngine) compute(f *ssa.Function) ([]offset, string) {
	// The function is interpreted block by block from its entry over the analyser's
	// own constant lattice: integer phis take the value of the edge they are entered
	// by, every branch must be decided by constants and loop variables.  This covers
	// the classic header-tested loop and the rotated form go/ssa builds for
	// `for i := range 3` alike.
	if f.Blocks == nil {
		return nil, "no body"
	}
	env := map[ssa.Value]int64{}
	var outs []offset
	b := f.Blocks[0]
	var prev *ssa.BasicBlock
	for steps := 0; steps < 4000; steps++ {
		if prev != nil {
			idx := -1
			for i, p := range b.Preds {
				if p == prev {
					idx = i
				}
			}
			type upd struct {
				p  *ssa.Phi
				v  int64
				ok bool
			}
			var ups []upd
			for _, in := range b.Instrs {
				p, ok := in.(*ssa.Phi)
				if !ok {
					break
				}
				if !isIntType(p.Type()) || idx < 0 || idx >= len(p.Edges) {
					continue
				}
				v, ok := evalConstInt(p.Edges[idx], env)
				ups = append(ups, upd{p, v, ok})
			}
			for _, u := range ups {
				if u.ok {
					env[u.p] = u.v
				} else {
					delete(env, u.p)
				}
			}
		}
		for _, in := range b.Instrs {
			c, ok := in.(*ssa.Call)
			if !ok {
				continue
			}
			if builtinName(c) != "append" {
				// a private helper that extends a list handed to it by the neighbourhood of an
				// ID (appendRing(list, id) []string): its own stencil, moved to that ID
				h := calleeOf(c)
				if h == nil || h == se.shift || !se.w.InModule(h) || h.Blocks == nil || !isStringSlice(c.Type()) {
					continue
				}
				hasList := false
				for _, a := range c.Call.Args {
					if isStringSlice(a.Type()) {
						hasList = true
					}
				}
				if !hasList {
					continue // a neighbourhood function: counted where its result is appended
				}
				ip := stencilIDParam(h)
				if ip < 0 || ip >= len(c.Call.Args) {
					return nil, "a list-extending helper has no single ID parameter (" + describeValue(c) + ")"
				}
				inner, why := se.stencilOf(h)
				if inner == nil {
					return nil, "list-extending helper: " + why
				}
				base, ok := se.offsetOfID(f, c.Call.Args[ip], env)
				if !ok {
					return nil, "a list-extending helper is not applied to a shift of the input ID"
				}
				for _, io := range inner {
					outs = append(outs, offset{base[0] + io[0], base[1] + io[1], base[2] + io[2]})
				}
				if len(outs) > 200 {
					return nil, "more than 200 elements"
				}
				continue
			}
			elems, spread := appendedElems(c)
			for _, el := range elems {
				o, ok := se.offsetOfID(f, el, env)
				if !ok {
					return nil, "an appended element is not a shift of the input ID (" + describeValue(el) + ")"
				}
				outs = append(outs, o)
			}
			if spread != nil {
				sc, ok := resolve(spread).(*ssa.Call)
				if !ok || calleeOf(sc) == nil {
					return nil, "a spread append is not the result of a neighbourhood function"
				}
				inner, why := se.stencilOf(calleeOf(sc))
				if inner == nil {
					return nil, "inner neighbourhood: " + why
				}
				base, ok := se.offsetOfID(f, sc.Call.Args[0], env)
				if !ok {
					return nil, "inner neighbourhood is not applied to a shift of the input ID"
				}
				for _, io := range inner {
					outs = append(outs, offset{base[0] + io[0], base[1] + io[1], base[2] + io[2]})
				}
			}
			if len(outs) > 200 {
				return nil, "more than 200 elements"
			}
		}
		if len(b.Instrs) == 0 {
			return nil, "empty block"
		}
		switch last := b.Instrs[len(b.Instrs)-1].(type) {
		case *ssa.Return:
			return outs, ""
		case *ssa.If:
			var v, ok bool
			if k, isK := last.Cond.(*ssa.Const); isK && k.Value != nil {
				v, ok = k.Value.String() == "true", true
			} else {
				v, ok = evalConstCond(last.Cond, env)
			}
			if !ok {
				return nil, "a branch does not depend on constants and loop variables only (" + describeValue(last.Cond) + ")"
			}
			prev = b
			if v {
				b = b.Succs[0]
			} else {
				b = b.Succs[1]
			}
		case *ssa.Jump:
			prev, b = b, b.Succs[0]
		default:
			return nil, "unexpected control flow"
		}
	}
	return nil, "the interpretation does not reach a return within 4000 steps"
}

// offsetOfID: the ID value is the input parameter (0,0,0) or
// GetShiftingSpatialID(id', dx, dy, dv) with constant-evaluable offsets.
func (se *stencilEngine) offsetOfID(f *ssa.Function, v ssa.Value, env map[ssa.Value]int64) (offset, bool) {
	v = resolve(v)
	if ip := stencilIDParam(f); ip >= 0 && v == ssa.Value(f.Params[ip]) {
		return offset{}, true
	}
	c, ok := v.(*ssa.Call)
	if !ok || calleeOf(c) != se.shift {
		return offset{}, false
	}
	base, ok := se.offsetOfID(f, c.Call.Args[0], env)
	if !ok {
		return offset{}, false
	}
	var d offset
	for i := 0; i < 3; i++ {
		k, ok := evalConstInt(c.Call.Args[1+i], env)
		if !ok {
			return offset{}, false
		}
		d[i] = base[i] + k
	}
	return d, true
}

// stencilIDParam: the parameter that carries the input ID: the only string parameter, else the
// first parameter.
func stencilIDParam(f *ssa.Function) int {
	idx, n := -1, 0
	for i, p := range f.Params {
		if b, ok := p.Type().Underlying().(*types.Basic); ok && b.Kind() == types.String {
			idx = i
			n++
		}
	}
	if n == 1 {
		return idx
	}
	if len(f.Params) > 0 {
		return 0
	}
	return -1
}

func isStringSlice(t types.Type) bool {
	sl, ok := t.Underlying().(*types.Slice)
	if !ok {
		return false
	}
	b, ok := sl.Elem().Underlying().(*types.Basic)
	return ok && b.Kind() == types.String
}

func expectedStencil(kind string) []offset {
	var out []offset
	for dx := int64(-1); dx <= 1; dx++ {
		for dy := int64(-1); dy <= 1; dy++ {
			for dv := int64(-1); dv <= 1; dv++ {
				nz := 0
				if dx != 0 {
					nz++
				}
				if dy != 0 {
					nz++
				}
				if dv != 0 {
					nz++
				}
				switch kind {
				case "6":
					if nz == 1 {
						out = append(out, offset{dx, dy, dv})
					}
				case "8":
					if dv == 0 && nz >= 1 {
						out = append(out, offset{dx, dy, dv})
					}
				case "26":
					if nz >= 1 {
						out = append(out, offset{dx, dy, dv})
					}
				}
			}
		}
	}
	return out
}

func sortOffsets(o []offset) []offset {
	c := append([]offset{}, o...)
	sort.Slice(c, func(i, j int) bool {
		for k := 0; k < 3; k++ {
			if c[i][k] != c[j][k] {
				return c[i][k] < c[j][k]
			}
		}
		return false
	})
	return c
}

func ruleStencil(w *World, r *Report) {
	r.Rule("STENCIL", "partial evaluation of each neighbourhood function's constant-bounded loop over its SSA form (the analyser's own constant lattice; no repository code runs) yields exactly the documented offset set, each offset once: the 6 unit steps, the 8-ring, the 26-shell (0,0,0 excluded); every element is produced by operated.GetShiftingSpatialID applied to the input ID (VIASHIFT)")
	shift := lookupByName(w, "operated.GetShiftingSpatialID")
	if shift == nil {
		r.add("STENCIL", "operated.GetShiftingSpatialID", "?", Unresolved, "function not found")
		return
	}
	se := &stencilEngine{w: w, shift: shift, memo: map[*ssa.Function][]offset{}, why: map[*ssa.Function]string{}}
	for _, it := range [][2]string{{"operated.Get6spatialIdsAdjacentToFaces", "6"}, {"operated.Get8spatialIdsAroundHorizontal", "8"}, {"operated.Get26spatialIdsAroundVoxel", "26"}} {
		f := lookupByName(w, it[0])
		if f == nil {
			r.add("STENCIL", it[0], "?", Unresolved, "function not found")
			continue
		}
		pos := w.Pos(f.Pos())
		got, why := se.stencilOf(f)
		if got == nil {
			r.add("STENCIL", it[0]+" / offsets", pos, Undecided, "the offset set could not be computed: "+why)
			continue
		}
		// returned value must be the accumulated list
		want := sortOffsets(expectedStencil(it[1]))
		g := sortOffsets(got)
		if fmt.Sprint(g) == fmt.Sprint(want) {
			r.add("STENCIL", it[0]+" / offsets", pos, Discharged, fmt.Sprintf("%d offsets, each exactly once: %v", len(g), g))
		} else {
			r.add("STENCIL", it[0]+" / offsets", pos, Violated, fmt.Sprintf("offset multiset is %v, documented stencil is %v", g, want))
		}
		// the returned list is the append accumulator
		okRet := true
		for _, ret := range returnsOf(f) {
			ai := appendChain(ret.Results[0])
			for _, b := range ai.Bases {
				if !isEmptySliceBase(b) {
					okRet = false
					r.Notes = append(r.Notes, "stencil base: "+describeValue(b))
				}
			}
			if len(ai.Appends) == 0 {
				okRet = false
			}
		}
		if okRet {
			r.add("STENCIL", it[0]+" / result", pos, Discharged, "the returned list is built from an empty list by the loop's appends only")
		} else {
			r.add("STENCIL", it[0]+" / result", pos, Undecided, "the returned list could not be identified with the list accumulated by the loop")
		}
	}
	ruleNLayer(w, r, shift)
}

// ruleNLayer: symbolic box [-H,H]^2 x [-V,V] minus the origin, applied to every input ID.
func ruleNLayer(w *World, r *Report, shift *ssa.Function) {
	fn := "operated.GetNspatialIdsAroundVoxcels"
	f := lookupByName(w, fn)
	if f == nil {
		r.add("STENCIL", fn, "?", Unresolved, "function not found")
		return
	}
	pos := w.Pos(f.Pos())
	type lv struct {
		phi   *ssa.Phi
		layer int // param index of the layer count
		hdr   *ssa.BasicBlock
		body  *ssa.BasicBlock
		done  *ssa.BasicBlock
	}
	var loops []lv
	for _, b := range f.Blocks {
		for _, in := range b.Instrs {
			p, ok := in.(*ssa.Phi)
			if !ok || !isIntType(p.Type()) || len(p.Edges) != 2 {
				continue
			}
			for i := 0; i < 2; i++ {
				neg, ok := stripConv(p.Edges[i]).(*ssa.UnOp)
				if !ok || neg.Op != token.SUB {
					continue
				}
				li := paramIndex(f, stripConv(neg.X))
				if li < 0 {
					continue
				}
				inc, ok := p.Edges[1-i].(*ssa.BinOp)
				if !ok || inc.Op != token.ADD || inc.X != ssa.Value(p) {
					continue
				}
				if s, ok := constInt(inc.Y); !ok || s != 1 {
					continue
				}
				t, fl, ifi := ifSuccs(b)
				if ifi == nil {
					continue
				}
				c, ok := ifi.Cond.(*ssa.BinOp)
				if !ok || c.X != ssa.Value(p) {
					continue
				}
				okBound := false
				switch c.Op {
				case token.LSS: // var < L+1
					if a, ok := stripConv(c.Y).(*ssa.BinOp); ok && a.Op == token.ADD {
						if k, ok := constInt(a.Y); ok && k == 1 && paramIndex(f, stripConv(a.X)) == li {
							okBound = true
						}
					}
				case token.LEQ: // var <= L
					if paramIndex(f, stripConv(c.Y)) == li {
						okBound = true
					}
				}
				if okBound {
					loops = append(loops, lv{p, li, b, t, fl})
				}
			}
		}
	}
	if len(loops) != 3 {
		r.add("STENCIL", fn+" / box loops", pos, Undecided, fmt.Sprintf("expected three loops running from -layers to +layers inclusive with step 1, recognised %d", len(loops)))
		return
	}
	// the shift call inside the loop over the input list
	il := loopOverParam(f, 0)
	calls := callsTo(f, func(g *ssa.Function) bool { return g == shift })
	if il == nil || len(calls) != 1 || !il.blocks()[calls[0].Block()] {
		r.add("STENCIL", fn+" / shift call", pos, Undecided, "expected exactly one GetShiftingSpatialID call inside a loop over the input IDs")
		return
	}
	c := calls[0]
	// argument wiring: (element, x-var with hLayers, y-var with hLayers, v-var with vLayers)
	var used [3]*lv
	okWire := il.isElem(resolve(c.Call.Args[0]))
	recognised := okWire
	for i := 0; i < 3; i++ {
		for k := range loops {
			if stripConv(c.Call.Args[1+i]) == ssa.Value(loops[k].phi) {
				used[i] = &loops[k]
			}
		}
		if used[i] == nil {
			okWire = false
			recognised = false // an offset taken from a table, a struct or a helper: not read
		}
	}
	if okWire && (used[0] == used[1] || used[1] == used[2] || used[0] == used[2]) {
		okWire = false
	}
	if okWire && !(used[0].layer == 1 && used[1].layer == 1 && used[2].layer == 2) {
		okWire = false
	}
	if !okWire && !recognised {
		r.add("STENCIL", fn+" / shift call", w.Pos(c.Pos()), Undecided, "the arguments of the shift are not directly the input element and the three loop variables ("+shortInstr(c)+")")
		return
	}
	if !okWire {
		r.add("STENCIL", fn+" / shift call", w.Pos(c.Pos()), Violated, "the shift is not applied to (each input ID, dx in [-hLayers,hLayers], dy in [-hLayers,hLayers], dv in [-vLayers,vLayers]) with three distinct loop variables")
		return
	}
	r.add("STENCIL", fn+" / shift call", w.Pos(c.Pos()), Discharged, "GetShiftingSpatialID(each input ID, dx, dy, dv) with dx,dy in [-hLayers,hLayers], dv in [-vLayers,vLayers], step 1")
	// origin exclusion and completeness: enumerate zero / non-zero patterns from the innermost of the four loops
	type lp struct{ hdr, body *ssa.BasicBlock }
	four := []lp{{il.Header, il.Body}}
	for _, u := range used {
		four = append(four, lp{u.hdr, u.body})
	}
	// order the four loops by nesting (outermost first)
	contains := func(a, b lp) bool {
		return a.hdr != b.hdr && reachableFrom(a.body, map[*ssa.BasicBlock]bool{a.hdr: true})[b.hdr]
	}
	sort.SliceStable(four, func(i, j int) bool { return contains(four[i], four[j]) })
	for i := 0; i+1 < len(four); i++ {
		if !contains(four[i], four[i+1]) {
			r.add("STENCIL", fn+" / box minus origin", pos, Undecided, "the three offset loops and the loop over the input IDs are not nested in one another")
			return
		}
	}
	if !reachableFrom(four[3].body, map[*ssa.BasicBlock]bool{four[3].hdr: true})[c.Block()] {
		r.add("STENCIL", fn+" / box minus origin", pos, Undecided, "the shift is not inside the innermost of the four loops")
		return
	}
	varIdx := func(v ssa.Value) int {
		for i := 0; i < 3; i++ {
			if stripConv(v) == ssa.Value(used[i].phi) {
				return i
			}
		}
		return -1
	}
	bad, open := "", ""
	selfCompare := ""
	for mask := 0; mask < 8; mask++ {
		zero := [3]bool{mask&1 != 0, mask&2 != 0, mask&4 != 0}
		var orZero func(v ssa.Value) (bool, bool)
		orZero = func(v ssa.Value) (bool, bool) {
			v = stripConv(v)
			if i := varIdx(v); i >= 0 {
				return zero[i], true
			}
			if b, ok := v.(*ssa.BinOp); ok && b.Op == token.OR {
				a, ok1 := orZero(b.X)
				bb, ok2 := orZero(b.Y)
				return a && bb, ok1 && ok2
			}
			return false, false
		}
		orc := func(cond ssa.Value) (bool, bool) {
			b, ok := resolve(cond).(*ssa.BinOp)
			if !ok || (b.Op != token.EQL && b.Op != token.NEQ) {
				return false, false
			}
			if k, ok := constInt(b.Y); ok && k == 0 {
				if z, known := orZero(b.X); known {
					return (b.Op == token.EQL) == z, true
				}
			}
			return false, false
		}
		// a test the sign-pattern oracle cannot read (a comparison of structs built from the
		// offsets, a helper call) that is not a loop bound: the enumeration is not conclusive
		unread := ""
		inner := orc
		orc = func(cond ssa.Value) (bool, bool) {
			out, known := inner(cond)
			if !known {
				isBound := false
				if b, ok := resolve(cond).(*ssa.BinOp); ok {
					switch b.Op {
					case token.LSS, token.LEQ, token.GTR, token.GEQ:
						isBound = true
					}
				}
				if _, isNext := resolve(cond).(*ssa.Extract); isNext {
					isBound = true // ok of a range-loop next
				}
				// the skip is decided by comparing the shifted ID with the input ID: an offset of
				// a whole lap of the grid lands on the voxel itself and is dropped although it is
				// not the zero offset
				if b, ok := resolve(cond).(*ssa.BinOp); ok && (b.Op == token.EQL || b.Op == token.NEQ) && isStringType(b.X.Type()) {
					if resolve(b.X) == ssa.Value(c) || resolve(b.Y) == ssa.Value(c) {
						selfCompare = w.Pos(b.Pos())
					}
				}
				if !isBound && unread == "" {
					unread = describeValue(cond)
				}
			}
			return out, known
		}
		origin := zero[0] && zero[1] && zero[2]
		if origin {
			reach := simulate(four[0].body, map[*ssa.BasicBlock]bool{four[0].hdr: true}, orc)
			if reach[c.Block()] {
				if unread != "" {
					open = "whether the zero offset is skipped depends on a test that was not read (" + unread + ")"
				} else {
					bad = "the zero offset (0,0,0) is not skipped: the input voxel itself is returned"
				}
			}
			continue
		}
		// every level hands over to the next inner level, the innermost to the shift
		for i := 0; i < 4; i++ {
			var next *ssa.BasicBlock
			if i < 3 {
				next = four[i+1].hdr
			} else {
				next = c.Block()
			}
			unread = ""
			reach := simulate(four[i].body, map[*ssa.BasicBlock]bool{next: true}, orc)
			if reach[four[i].hdr] {
				if unread != "" {
					open = "whether a non-zero offset can be skipped depends on a test that was not read (" + unread + ")"
				} else {
					bad = fmt.Sprintf("a non-zero offset (dx zero=%v, dy zero=%v, dv zero=%v) or an input ID can be skipped", zero[0], zero[1], zero[2])
				}
			}
		}
	}
	if bad == "" && selfCompare != "" {
		bad = "the skip at " + selfCompare + " compares the shifted ID with the input ID instead of testing the offsets: a non-zero offset that wraps around the grid onto the voxel itself is dropped as if it were the zero offset"
	}
	if bad != "" {
		r.add("STENCIL", fn+" / box minus origin", pos, Violated, bad)
	} else if open != "" {
		r.add("STENCIL", fn+" / box minus origin", pos, Undecided, open)
	} else {
		r.add("STENCIL", fn+" / box minus origin", pos, Discharged, "all 7 non-zero sign patterns reach the shift of every input ID; the origin is skipped")
	}
}

// ---------------------------------------------------------------- THRESHOLD-AXIS (line voxeliser)

// ruleThresholdAxis: each termination threshold handed to the midpoint
// recursion depends on the zoom of one axis only (the altitude threshold on
// vZoom, the lon/lat thresholds on hZoom): enumerated over the four
// combinations of the two zoom tests.
func ruleThresholdAxis(w *World, r *Report) {
	r.Rule("THRESHOLD-AXIS", "every termination threshold passed to the midpoint recursion is selected by the zoom of a single axis: for fixed vZoom region the altitude threshold is the same whatever hZoom is, and vice versa (enumeration of the 2x2 zoom regions over the CFG); a threshold that depends on both zooms makes the recursion stop early for one axis at high zoom of the other")
	fn := "shape.GetExtendedSpatialIdsOnLine"
	f := lookupByName(w, fn)
	if f == nil {
		r.add("THRESHOLD-AXIS", fn, "?", Unresolved, "function not found")
		return
	}
	pos := w.Pos(f.Pos())
	// the recursion call: a module function of the same package with float parameters that calls itself
	var rc *ssa.Call
	instrs(f, func(in ssa.Instruction) {
		c, ok := in.(*ssa.Call)
		if !ok || calleeOf(c) == nil || !w.InModule(calleeOf(c)) {
			return
		}
		g := calleeOf(c)
		if len(callsTo(g, func(x *ssa.Function) bool { return x == g })) > 0 {
			rc = c
		}
	})
	if rc == nil {
		r.add("THRESHOLD-AXIS", fn, pos, Info, "no call of a recursive helper found")
		return
	}
	e := scFor(w)
	n := 0
	for ai, a := range rc.Call.Args {
		if !isFloatType(a.Type()) {
			continue
		}
		// where is the threshold selected: here (a phi) or in a private helper (result #ri of H(hZoom, vZoom))?
		g := f
		hp, vp := 2, 3
		var phi *ssa.Phi
		ri := -1
		switch x := resolve(a).(type) {
		case *ssa.Phi:
			phi = x
		case *ssa.Extract:
			hc, ok := x.Tuple.(*ssa.Call)
			if !ok || calleeOf(hc) == nil || !w.InModule(calleeOf(hc)) || calleeOf(hc).Blocks == nil {
				continue
			}
			g, ri = calleeOf(hc), x.Index
			hp, vp = -1, -1
			for i, arg := range hc.Call.Args {
				if resolve(arg) == ssa.Value(f.Params[2]) {
					hp = i
				}
				if resolve(arg) == ssa.Value(f.Params[3]) {
					vp = i
				}
			}
			if hp < 0 || vp < 0 {
				continue
			}
		default:
			continue // a constant threshold
		}
		gcuts := map[int][]float64{}
		for _, blk := range g.Blocks {
			_, _, ifi := ifSuccs(blk)
			if ifi == nil {
				continue
			}
			c, ok := ifi.Cond.(*ssa.BinOp)
			if !ok {
				continue
			}
			for _, pi := range []int{hp, vp} {
				if resolve(c.X) == ssa.Value(g.Params[pi]) {
					if k, ok := constFloat(c.Y); ok {
						gcuts[pi] = append(gcuts[pi], k)
					}
				}
			}
		}
		gregions := func(pi int) [][2]float64 {
			pts := append([]float64{}, gcuts[pi]...)
			if len(pts) == 0 {
				return [][2]float64{{0, 35}}
			}
			sort.Float64s(pts)
			out := [][2]float64{}
			lo := 0.0
			for _, p := range pts {
				out = append(out, [2]float64{lo, p - 1})
				lo = p
			}
			return append(out, [2]float64{lo, 35})
		}
		n++
		key := fmt.Sprintf("%s / threshold argument #%d", fn, ai)
		depends := map[int]bool{}
		und := false
		for _, fixed := range []int{hp, vp} {
			other := hp + vp - fixed
			for _, fr := range gregions(fixed) {
				var seen ssa.Value
				for _, or := range gregions(other) {
					c1 := &simCtx{e: e, f: g, sc: scenario{Kind: scRegion, Param: fixed, Lo: fr[0], Hi: fr[1]}}
					c2 := &simCtx{e: e, f: g, sc: scenario{Kind: scRegion, Param: other, Lo: or[0], Hi: or[1]}}
					orc := func(v ssa.Value) (bool, bool) {
						if o, k := c1.oracle(v); k {
							return o, true
						}
						return c2.oracle(v)
					}
					var val ssa.Value
					uniq := false
					if phi != nil {
						val, uniq = phiValueUnder(g, phi, orc)
					} else {
						reach := simulate(g.Blocks[0], nil, orc)
						cnt := 0
						for _, ret := range returnsOf(g) {
							if reach[ret.Block()] && ri < len(ret.Results) {
								cnt++
								val = ret.Results[ri]
							}
						}
						uniq = cnt == 1
						if uniq {
							if p2, isPhi := resolve(val).(*ssa.Phi); isPhi {
								val, uniq = phiValueUnder(g, p2, orc)
							}
						}
					}
					if !uniq {
						und = true
						continue
					}
					val = resolve(val)
					if seen == nil {
						seen = val
					} else if !sameValue(seen, val) {
						depends[other] = true
					}
				}
			}
		}
		switch {
		case und:
			r.add("THRESHOLD-AXIS", key, w.Pos(rc.Pos()), Info, "the threshold is not selected by comparisons of the zoom parameters with constants only")
		case depends[hp] && depends[vp]:
			r.add("THRESHOLD-AXIS", key, w.Pos(rc.Pos()), Violated, "the threshold depends on both hZoom and vZoom: for one axis at high zoom the other axis' fine threshold is not applied")
		default:
			r.add("THRESHOLD-AXIS", key, w.Pos(rc.Pos()), Discharged, "threshold selected by the zoom of one axis only")
		}
	}
	if n == 0 {
		r.add("THRESHOLD-AXIS", fn, pos, Info, "no zoom-dependent threshold argument")
	}
}
