package main

// Rules built on the kind engine: KIND-CALL, KIND-LAYOUT, KIND-STORE, ROUND,
// FLOOR-NOBIAS, ASHIFT.

import (
	"fmt"
	"go/token"
	"go/types"
	"regexp"
	"strings"

	"golang.org/x/tools/go/ssa"
)

var confusable = func() map[Kind]int {
	groups := [][]Kind{
		{kHZ, kVZ, kZ, kTVZ, kZBASE, kDHZ, kDVZ},
		{kX, kY, kF, kTZ, kQK},
		{kLON, kLAT, kALT, kPX, kPY},
		{kMAXH, kMINH},
		{kDX, kDY, kDF, kZOFF},
		{kHL, kVL},
	}
	m := map[Kind]int{}
	for i, g := range groups {
		for _, k := range g {
			m[k] = i + 1
		}
	}
	return m
}()

// judge compares an inferred kind set with an expected kind.
// bad: some possible kind is a confusable, incompatible kind (a swap);
// known: at least one kind is known and all known kinds are acceptable.
func judge(got KindSet, want Kind) (bad bool, known bool, why string) {
	if got == 0 {
		return false, false, "kind unknown"
	}
	// got is a may-set (joins of phis, element-insensitive stores): the value
	// is certainly of the wrong kind only if no member is compatible; it is
	// certainly right only if every member is.
	compatible, others := 0, 0
	var wrong Kind
	for k := Kind(1); k < kMax; k++ {
		if !got.has(k) {
			continue
		}
		if kindCompatible(k, want) {
			compatible++
			continue
		}
		others++
		if confusable[k] != 0 && confusable[k] == confusable[want] && wrong == 0 {
			wrong = k
		}
	}
	if compatible == 0 && wrong != 0 {
		return true, true, fmt.Sprintf("has kind %s where %s is required", kindNames[wrong], kindNames[want])
	}
	return false, compatible > 0 && others == 0, ""
}

func judgeLayout(got *AV, want []KindSet) (Status, string) {
	if got == nil || got.Top || !got.StrKnown {
		return Undecided, "layout of the string could not be inferred (" + got.String() + ")"
	}
	if len(got.Str) != len(want) {
		return Violated, fmt.Sprintf("string has %d fields %s, %d required", len(got.Str), got.String(), len(want))
	}
	unknown := 0
	for i := range want {
		wk, _ := want[i].single()
		bad, known, why := judge(got.Str[i], wk)
		if bad {
			return Violated, fmt.Sprintf("field %d of %s %s", i, got.String(), why)
		}
		if !known {
			unknown++
		}
	}
	if unknown > 0 {
		return Undecided, fmt.Sprintf("%d field(s) of %s have no inferred kind", unknown, got.String())
	}
	return Discharged, "layout " + got.String()
}

type finding struct {
	Rule   string
	F      *ssa.Function
	Sub    string // role within the function (stable, position-free)
	Pos    string
	Status Status
	Detail string
}

type kindRules struct {
	ke       *KindEngine
	Findings []finding
}

var kindRulesCache *kindRules

func kindRulesFor(w *World) *kindRules {
	if kindRulesCache != nil {
		return kindRulesCache
	}
	ke := kindsFor(w)
	kr := &kindRules{ke: ke}
	for _, f := range w.ModFuncs {
		if f.Synthetic != "" {
			continue
		}
		kr.scan(w, f)
	}
	kindRulesCache = kr
	return kr
}

func (kr *kindRules) add(rule string, f *ssa.Function, sub, pos string, st Status, detail string) {
	kr.Findings = append(kr.Findings, finding{rule, f, sub, pos, st, detail})
}

// floatText: the text of a grid index (or zoom) inside an ID is the decimal integer;
// a floating-point verb / strconv.FormatFloat prints IEEE negative zero as "-0" (and
// %v, %g, %e switch to exponent form from 1e21 / 2^21 on), so the same voxel gets a
// second spelling that string-based sets and comparisons treat as another voxel.
var constVertID = regexp.MustCompile(`^-?[0-9]+/-?[0-9]+$`)

var fmtVerb = regexp.MustCompile(`%[-+# 0-9.]*[a-zA-Z]`)

func (kr *kindRules) floatText(w *World, f *ssa.Function, x *ssa.Call, pos string, ord map[string]int) {
	idx := ks(kX, kY, kF, kTZ, kHZ, kVZ, kZ, kTVZ)
	isFloat := func(v ssa.Value) bool {
		b, ok := v.Type().Underlying().(*types.Basic)
		return ok && b.Info()&types.IsFloat != 0
	}
	definitely := func(v ssa.Value) KindSet {
		a := kr.ke.Eval(v)
		if a == nil || a.Scalar == 0 {
			return 0
		}
		if a.Scalar&^idx == 0 {
			return a.Scalar
		}
		// a floored position is the index of its axis
		if c, ok := resolve(v).(*ssa.Call); ok && calleeIs(c, "math", "Floor") && a.Scalar&^ks(kLON, kLAT, kALT) == 0 {
			return a.Scalar
		}
		return 0
	}
	if calleeIs(x, "strconv", "FormatFloat") && len(x.Call.Args) == 4 {
		if k := definitely(x.Call.Args[0]); k != 0 {
			ord["floattext"]++
			kr.add("KIND-LAYOUT", f, fmt.Sprintf("float text #%d", ord["floattext"]), pos, Violated, "a value of kind "+k.String()+" is written with strconv.FormatFloat: negative zero prints as \"-0\", a second spelling of index 0 -- "+shortInstr(x))
		}
		return
	}
	if !calleeIs(x, "fmt", "Sprintf") || len(x.Call.Args) != 2 {
		return
	}
	args := x.Call.Args
	// only ID-shaped formats: verbs separated by the ID separator, no other text
	// (messages may print whatever they like)
	format, okf := constString(args[0])
	if !okf || strings.Trim(fmtVerb.ReplaceAllString(format, ""), "/_") != "" {
		return
	}
	vals, ok := sliceLiteral(args[len(args)-1])
	if !ok {
		return
	}
	for _, v := range vals {
		if mi, isMI := v.(*ssa.MakeInterface); isMI {
			v = mi.X
		}
		if !isFloat(v) {
			continue
		}
		if k := definitely(v); k != 0 {
			ord["floattext"]++
			kr.add("KIND-LAYOUT", f, fmt.Sprintf("float text #%d", ord["floattext"]), pos, Violated, "a floating-point value of kind "+k.String()+" is formatted by "+calleeOf(x).Name()+": whatever the verb, IEEE negative zero prints as \"-0\" (and %v/%g/%e use exponents for large values), a second spelling of the same index -- "+shortInstr(x))
			return
		}
	}
}

func calleeDisplay(w *World, g *ssa.Function) string {
	if o := g.Origin(); o != nil {
		g = o
	}
	return w.FuncName(g)
}

func (kr *kindRules) scan(w *World, f *ssa.Function) {
	ke := kr.ke
	callOrd := map[string]int{}
	roundOrd := map[string]int{}
	storeOrd := map[string]int{}
	instrs(f, func(in ssa.Instruction) {
		pos := w.Pos(in.Pos())
		switch x := in.(type) {
		case *ssa.Call:
			kr.roundCall(w, f, x, pos, roundOrd)
			if bn := builtinName(x); (bn == "min" || bn == "max") && len(x.Call.Args) >= 2 && isStringType(x.Call.Args[0].Type()) {
				for _, a := range x.Call.Args {
					if av := ke.Eval(a); av != nil && av.StrKnown && len(av.Str) == 1 && av.Str[0] != 0 {
						callOrd["strorder"]++
						kr.add("KIND-CALL", f, fmt.Sprintf("string order #%d", callOrd["strorder"]), pos, Violated, "builtin "+bn+" is applied to the text of a numeric ID field ("+av.String()+"): strings are ordered lexicographically (\"10\" < \"9\"), not by value -- "+shortInstr(x))
						break
					}
				}
			}
			// FLOATTEXT: an index written into ID text with a floating-point verb
			kr.floatText(w, f, x, pos, callOrd)
			// CUTSET: strings.Trim/TrimLeft/TrimRight take a SET of characters; handing them a
			// piece of ID text (digits, separator) strips digits of the neighbouring field
			if calleeIs(x, "strings", "TrimLeft") || calleeIs(x, "strings", "TrimRight") || calleeIs(x, "strings", "Trim") {
				if len(x.Call.Args) == 2 {
					if cut := ke.Eval(x.Call.Args[1]); cut != nil && cut.StrKnown && len(cut.Str) >= 1 {
						if txt := ke.Eval(x.Call.Args[0]); txt != nil && txt.StrKnown {
							callOrd["strings.Trim"]++
							kr.add("KIND-LAYOUT", f, fmt.Sprintf("cut set #%d", callOrd["strings.Trim"]), pos, Violated, "ID text "+cut.String()+" is used as the character SET of "+calleeOf(x).Name()+" on ID text "+txt.String()+": every leading/trailing digit of the neighbouring field that occurs in the set is stripped too (TrimPrefix/TrimSuffix remove a prefix) -- "+shortInstr(x))
						}
					}
				}
			}
			g := calleeOf(x)
			if g == nil || !w.InModule(g) {
				return
			}
			gname := calleeDisplay(w, g)
			callOrd[gname]++
			args := x.Call.Args
			for i := range g.Params {
				if i >= len(args) {
					break
				}
				role := ke.paramRole(g, i)
				if role == nil {
					continue
				}
				if fr := ke.roles[g]; fr != nil && i < len(fr.NoCheck) && fr.NoCheck[i] {
					continue
				}
				sub := fmt.Sprintf("call#%d of %s, argument %s", callOrd[gname], gname, g.Params[i].Name())
				got := ke.Eval(args[i])
				switch {
				case role.Scalar != 0:
					want, _ := role.Scalar.single()
					var gs KindSet
					if got != nil {
						gs = got.Scalar
					}
					bad, known, why := judge(gs, want)
					if bad {
						kr.add("KIND-CALL", f, sub, pos, Violated, "argument "+why+" ("+shortInstr(x)+")")
					} else if known {
						kr.add("KIND-CALL", f, sub, pos, Discharged, "argument kind "+gs.String()+" matches role "+kindNames[want])
					}
				case role.StrKnown:
					st, d := judgeLayout(got, role.Str)
					if st == Violated {
						kr.add("KIND-CALL", f, sub, pos, Violated, "ID argument: "+d)
					} else if st == Discharged {
						kr.add("KIND-CALL", f, sub, pos, Discharged, "ID argument "+d)
					}
				case role.Elem != nil && role.Elem.StrKnown:
					var e *AV
					if got != nil {
						e = got.elemAny()
					}
					st, d := judgeLayout(e, role.Elem.Str)
					if st == Violated {
						kr.add("KIND-CALL", f, sub, pos, Violated, "ID list argument: "+d)
					} else if st == Discharged {
						kr.add("KIND-CALL", f, sub, pos, Discharged, "ID list argument "+d)
					}
				}
			}
		case *ssa.Store:
			fv, _, ok := fieldOf(x.Addr)
			if !ok {
				return
			}
			want := ke.fieldK[fv]
			if want == 0 {
				return
			}
			wk, single := want.single()
			if !single {
				return
			}
			got := ke.Eval(x.Val)
			var gs KindSet
			if got != nil {
				gs = got.Scalar
			}
			storeOrd[fv.Name()]++
			sub := fmt.Sprintf("store#%d into field %s", storeOrd[fv.Name()], fv.Name())
			bad, known, why := judge(gs, wk)
			if bad {
				kr.add("KIND-STORE", f, sub, pos, Violated, "stored value "+why)
			} else if known {
				kr.add("KIND-STORE", f, sub, pos, Discharged, "stored kind "+gs.String()+" matches field kind "+kindNames[wk])
			}
		case *ssa.BinOp:
			kr.roundBinOp(w, f, x, pos, roundOrd)
			if (x.Op == token.LSS || x.Op == token.LEQ || x.Op == token.GTR || x.Op == token.GEQ) && isStringType(x.X.Type()) {
				for _, a := range []ssa.Value{x.X, x.Y} {
					if av := ke.Eval(a); av != nil && av.StrKnown && len(av.Str) == 1 && av.Str[0] != 0 {
						callOrd["strorder"]++
						kr.add("KIND-CALL", f, fmt.Sprintf("string order #%d", callOrd["strorder"]), pos, Violated, "the texts of numeric ID fields ("+av.String()+") are compared with "+x.Op.String()+": strings are ordered lexicographically (\"10\" < \"9\"), not by value -- "+shortInstr(x))
						break
					}
				}
			}
		case *ssa.Convert:
			kr.roundConvert(w, f, x, pos, roundOrd)
		}
	})
	// CONST-VERT: a constant "zoom/index" text returned by a function that receives an
	// altitude or a vertical index, on a branch that does not look at that argument: the
	// vertical axis is unbounded at every zoom (also at zoom 0), so no single vertical ID is
	// right for all altitudes
	for pi, p := range f.Params {
		pa := ke.Eval(p)
		if pa == nil || pa.Scalar == 0 || pa.Scalar&^ks(kALT, kF, kTZ) != 0 {
			continue
		}
		for _, ret := range returnsOf(f) {
			for _, rv := range ret.Results {
				cs, ok := constString(rv)
				if !ok || !constVertID.MatchString(cs) {
					continue
				}
				depends := false
				for _, blk := range f.Blocks {
					t, fl, ifi := ifSuccs(blk)
					if ifi == nil {
						continue
					}
					for _, sx := range []*ssa.BasicBlock{t, fl} {
						if (sx == ret.Block() && len(sx.Preds) == 1) || blockDominatedByEdge(f, blk, sx, ret.Block()) {
							if dependsOn(w, ifi.Cond, p, 0, map[ssa.Value]bool{}) {
								depends = true
							}
						}
					}
				}
				if !depends {
					kr.add("ROUND", f, fmt.Sprintf("constant vertical ID %q", cs), w.Pos(ret.Pos()), Violated, fmt.Sprintf("the vertical ID %q is returned as a constant on a branch that does not depend on %s (parameter #%d, kind %s): the vertical index is floor(alt / cell) at every zoom, negative below the origin", cs, p.Name(), pi, pa.Scalar))
				}
			}
		}
	}
	// declared result layouts
	if fr := ke.roles[f]; fr != nil && len(fr.Results) > 0 {
		rs := ke.retAV[f]
		for i, want := range fr.Results {
			if want == nil {
				continue
			}
			var got *AV
			if i < len(rs) {
				got = rs[i]
			}
			sub := fmt.Sprintf("result#%d", i)
			pos := w.Pos(f.Pos())
			switch {
			case want.Scalar != 0:
				wk, _ := want.Scalar.single()
				var gs KindSet
				if got != nil {
					gs = got.Scalar
				}
				bad, known, why := judge(gs, wk)
				if bad {
					kr.add("KIND-LAYOUT", f, sub, pos, Violated, "result "+why)
				} else if known {
					kr.add("KIND-LAYOUT", f, sub, pos, Discharged, "result kind "+gs.String()+" as declared "+kindNames[wk])
				} else {
					kr.add("KIND-LAYOUT", f, sub, pos, Info, "result kind not inferred")
				}
			case want.StrKnown:
				st, d := judgeLayout(got, want.Str)
				if st == Undecided {
					st = Info // unknown is silent
				}
				kr.add("KIND-LAYOUT", f, sub, pos, st, "returned ID: "+d)
			case want.Elem != nil && want.Elem.StrKnown:
				var e *AV
				if got != nil {
					e = got.elemAny()
				}
				st, d := judgeLayout(e, want.Elem.Str)
				if st == Undecided {
					st = Info
				}
				kr.add("KIND-LAYOUT", f, sub, pos, st, "elements of the returned list: "+d)
			case want.Seq != nil:
				// positional numeric slice
				if got == nil || got.Seq == nil || len(got.Seq) != len(want.Seq) {
					kr.add("KIND-LAYOUT", f, sub, pos, Info, "positions of the returned slice could not be inferred ("+got.String()+")")
					break
				}
				st, d := Discharged, "positions "+got.String()
				for i := range want.Seq {
					wk, _ := want.Seq[i].Scalar.single()
					var gs KindSet
					if got.Seq[i] != nil {
						gs = got.Seq[i].Scalar
					}
					bad, known, why := judge(gs, wk)
					if bad {
						st, d = Violated, fmt.Sprintf("position %d %s", i, why)
						break
					}
					if !known {
						st, d = Info, fmt.Sprintf("position %d has no inferred kind", i)
					}
				}
				kr.add("KIND-LAYOUT", f, sub, pos, st, "returned slice: "+d)
			}
		}
	}
}

// ---------------------------------------------------------------- rounding

func (kr *kindRules) vkinds(v ssa.Value) KindSet {
	a := kr.ke.Eval(v)
	if a == nil {
		return 0
	}
	// definitely vertical: a may-set that also holds horizontal kinds comes from a
	// helper shared between the axes (its parameter joins the kinds of all call
	// sites); which axis reaches this instruction is then not known
	if a.Scalar&^vfam&ks(kX, kY, kLON, kLAT, kHZ, kQK) != 0 {
		return 0
	}
	return a.Scalar & vfam
}

func (kr *kindRules) roundBinOp(w *World, f *ssa.Function, x *ssa.BinOp, pos string, ord map[string]int) {
	switch x.Op {
	case token.QUO:
		if !isIntType(x.Type()) {
			return
		}
		k := kr.vkinds(x.X)
		if k == 0 {
			// a helper shared between the axes: no verdict on the bare division, but a sign
			// correction that ignores the remainder (q-- whenever the dividend is negative) is
			// wrong for every exact multiple as soon as a signed vertical value can reach it
			if a := kr.ke.Eval(x.X); a != nil && a.Scalar&vfam != 0 && signOnlyFloorFix(f, x) {
				ord["quo"]++
				kr.add("ROUND", f, fmt.Sprintf("integer division #%d of a %s value", ord["quo"], a.Scalar&vfam), pos, Violated, "the quotient is lowered by one whenever the dividend is negative, without looking at the remainder: exact multiples (-4/2) come out one too low ("+shortInstr(x)+")")
			}
			return
		}
		ord["quo"]++
		sub := fmt.Sprintf("integer division #%d of a %s value", ord["quo"], k)
		if floorDivIdiom(f, x) {
			kr.add("ROUND", f, sub, pos, Discharged, "integer division followed by the remainder-and-sign correction (floor division idiom)")
			return
		}
		kr.add("ROUND", f, sub, pos, Violated, "Go integer division truncates toward zero; a signed vertical quantity ("+k.String()+") must be rounded with floor ("+shortInstr(x)+")")
	case token.SHR:
		k := kr.vkinds(x.X)
		if k == 0 {
			return
		}
		ord["shr"]++
		sub := fmt.Sprintf("right shift #%d of a %s value", ord["shr"], k)
		if isSignedInt(x.X.Type()) {
			kr.add("ROUND", f, sub, pos, Discharged, "arithmetic right shift on a signed integer = floor")
		} else {
			kr.add("ROUND", f, sub, pos, Violated, "right shift of an unsigned conversion of a signed vertical quantity")
		}
	case token.REM:
		// x % d on signed vertical values used as a quotient complement is fine
		kr.remSign(w, f, x, pos, ord)
	case token.SUB:
		// BITFILL: (b<<d | 1<<d) - 1 -- what `b<<d | 1<<d - 1` means in Go, where | and -
		// share one precedence level.  For odd b bit d is already set and the value is
		// b<<d - 1, below the first sub-cell instead of the last one.
		if c, ok := constInt(x.Y); !ok || c != 1 {
			return
		}
		or, ok := resolve(x.X).(*ssa.BinOp)
		if !ok || or.Op != token.OR {
			return
		}
		for _, pair := range [][2]ssa.Value{{or.X, or.Y}, {or.Y, or.X}} {
			one, ok1 := resolve(pair[0]).(*ssa.BinOp)
			base, ok2 := resolve(pair[1]).(*ssa.BinOp)
			if !ok1 || !ok2 || one.Op != token.SHL || base.Op != token.SHL {
				continue
			}
			if c, ok := constInt(one.X); !ok || c != 1 {
				continue
			}
			if !equivValue(stripConv(one.Y), stripConv(base.Y)) {
				continue
			}
			ord["bitfill"]++
			kr.add("ROUND", f, fmt.Sprintf("bit fill #%d", ord["bitfill"]), pos, Violated, "(b<<d | 1<<d) - 1 is not the last sub-cell b<<d | (1<<d - 1): | and - have the same precedence in Go, and for odd b the result is b<<d - 1 -- "+shortInstr(x))
			return
		}
	}
}

// floorDivIdiom: q = x / d is accompanied by r = x % d on the same operands
// and a phi/merge selecting between q and q-1.
// signOnlyFloorFix: q = a / b; a phi chooses between q and q-1; some branch
// tests a against 0; and a % b is never computed.
func signOnlyFloorFix(f *ssa.Function, q *ssa.BinOp) bool {
	if q.Referrers() == nil {
		return false
	}
	cond := false
	for _, r := range *q.Referrers() {
		b, ok := r.(*ssa.BinOp)
		if !ok || b.Op != token.SUB || b.X != ssa.Value(q) || b.Referrers() == nil {
			continue
		}
		if c, ok := constInt(b.Y); !ok || c != 1 {
			continue
		}
		for _, r2 := range *b.Referrers() {
			if p, ok := r2.(*ssa.Phi); ok {
				for _, e := range p.Edges {
					if e == ssa.Value(q) {
						cond = true
					}
				}
			}
		}
	}
	if !cond {
		return false
	}
	signTest, rem := false, false
	instrs(f, func(in ssa.Instruction) {
		b, ok := in.(*ssa.BinOp)
		if !ok {
			return
		}
		switch b.Op {
		case token.REM:
			if sameValue(b.X, q.X) {
				rem = true
			}
		case token.LSS, token.GEQ, token.GTR, token.LEQ:
			if c, ok := constInt(b.Y); ok && c == 0 && sameValue(b.X, q.X) {
				signTest = true
			}
		}
	})
	return signTest && !rem
}

func floorDivIdiom(f *ssa.Function, q *ssa.BinOp) bool {
	hasRem := false
	instrs(f, func(in ssa.Instruction) {
		if b, ok := in.(*ssa.BinOp); ok && b.Op == token.REM && sameValue(b.X, q.X) && sameValue(b.Y, q.Y) {
			hasRem = true
		}
	})
	if !hasRem {
		return false
	}
	refs := q.Referrers()
	if refs == nil {
		return false
	}
	hasDec := false
	for _, r := range *refs {
		if b, ok := r.(*ssa.BinOp); ok && b.Op == token.SUB && b.X == q {
			if c, ok := constInt(b.Y); ok && c == 1 {
				hasDec = true
			}
		}
	}
	return hasDec
}

func (kr *kindRules) roundConvert(w *World, f *ssa.Function, x *ssa.Convert, pos string, ord map[string]int) {
	// NARROW: an index (x, y, f reach 2^35 in magnitude) converted to an integer type of fewer than 64 bits
	if isIntType(x.Type()) && isIntType(x.X.Type()) {
		if a := kr.ke.Eval(x.X); a != nil && a.Scalar != 0 && a.Scalar&^ks(kX, kY, kF) == 0 {
			if dst, ok := x.Type().Underlying().(*types.Basic); ok {
				bits := 64
				switch dst.Kind() {
				case types.Int8, types.Uint8:
					bits = 8
				case types.Int16, types.Uint16:
					bits = 16
				case types.Int32, types.Uint32:
					bits = 32
				}
				if bits < 64 {
					ord["narrow"]++
					kr.add("KIND-STORE", f, fmt.Sprintf("narrowing conversion #%d of a %s index", ord["narrow"], a.Scalar), pos, Violated, fmt.Sprintf("an index of kind %s is converted to %s (%d bits): indices reach 2^35 at zoom 35, the value is silently truncated (%s)", a.Scalar, dst.Name(), bits, shortInstr(x)))
				}
			}
		}
		return
	}
	// a quadkey reaches 2^62: a float64 detour drops its low bits above 2^53
	if isFloatType(x.Type()) && isIntType(x.X.Type()) {
		if a := kr.ke.Eval(x.X); a != nil && a.Scalar == ks(kQK) {
			ord["narrow"]++
			kr.add("KIND-STORE", f, fmt.Sprintf("narrowing conversion #%d of a %s index", ord["narrow"], a.Scalar), pos, Violated, fmt.Sprintf("a quadkey (up to 2^62 at zoom 31) is converted to %s, which holds 53 bits: neighbouring keys above 2^53 become equal (%s)", x.Type().String(), shortInstr(x)))
		}
		return
	}
	if !isIntType(x.Type()) || !isFloatType(x.X.Type()) {
		return
	}
	a := kr.ke.Eval(x.X)
	var all KindSet
	if a != nil {
		all = a.Scalar
	}
	// the operand of the conversion
	src := resolve(x.X)
	isFloor := false
	var floorArg ssa.Value
	if c, ok := src.(*ssa.Call); ok && calleeIs(c, "math", "Floor") {
		isFloor = true
		floorArg = c.Call.Args[0]
	}
	// the floor taken on every way into a merge point, or inside a private helper
	flooredMix := false
	var floorArgs []ssa.Value
	if !isFloor {
		var calls []*ssa.Call
		yes, no := flooredLeaves(w, src, 0, map[ssa.Value]bool{}, &calls)
		if yes > 0 && no == 0 {
			isFloor = true
			for _, fc := range calls {
				floorArgs = append(floorArgs, fc.Call.Args[0])
			}
		} else if yes > 0 {
			flooredMix = true
		}
	} else {
		floorArgs = []ssa.Value{floorArg}
	}
	k := all & vfam
	idx := all & ks(kLON, kLAT, kX, kY)
	if hc, ok := src.(*ssa.Call); ok && (k != 0 || idx != 0) {
		if g := calleeOf(hc); g != nil && w.InModule(g) && g.Blocks != nil && len(hc.Call.Args) == 1 {
			for _, ret := range returnsOf(g) {
				if len(ret.Results) != 1 {
					continue
				}
				if rc, isC := resolve(ret.Results[0]).(*ssa.Call); isC {
					if calleeIs(rc, "math", "Round") || calleeIs(rc, "math", "Ceil") || calleeIs(rc, "math", "RoundToEven") {
						ord["helper"]++
						kr.add("ROUND", f, fmt.Sprintf("index rounding helper #%d", ord["helper"]), pos, Violated, "the position converted to a grid index passes through "+w.FuncName(g)+", which can return math."+calleeOf(rc).Name()+"(position): an index is floor(position), snapping to the nearest integer moves points that lie just below a cell boundary into the next cell (and differently at every zoom)")
					}
				}
			}
		}
	}
	if k != 0 {
		ord["conv"]++
		sub := fmt.Sprintf("float-to-integer conversion #%d of a %s value", ord["conv"], k)
		if isFloor {
			kr.add("ROUND", f, sub, pos, Discharged, "conversion applied to the result of math.Floor")
		} else if flooredMix {
			kr.add("ROUND", f, sub, pos, Undecided, "the converted value is the result of math.Floor on some ways into the conversion and another value on others ("+shortInstr(x)+")")
		} else {
			kr.add("ROUND", f, sub, pos, Violated, "Go float-to-integer conversion truncates toward zero; a signed vertical quantity ("+k.String()+") must pass through math.Floor first ("+shortInstr(x)+")")
		}
	}
	for _, floorArg := range floorArgs {
		if !(k != 0 || idx != 0) {
			break
		}
		ord["bias"]++
		sub := fmt.Sprintf("floor #%d feeding an index of kind %s", ord["bias"], (k | idx))
		if b, ok := resolve(floorArg).(*ssa.BinOp); ok && (b.Op == token.ADD || b.Op == token.SUB) {
			if c, ok := constFloat(b.Y); ok && c != 0 {
				kr.add("FLOOR-NOBIAS", f, sub, pos, Violated, fmt.Sprintf("math.Floor is applied to (expr %s %v): a constant bias moves values across cell boundaries", b.Op, c))
				continue
			}
			if c, ok := constFloat(b.X); ok && c != 0 && b.Op == token.ADD {
				kr.add("FLOOR-NOBIAS", f, sub, pos, Violated, fmt.Sprintf("math.Floor is applied to (%v + expr): a constant bias moves values across cell boundaries", c))
				continue
			}
			if isGlobalConstLike(b.Y) || isGlobalConstLike(b.X) {
				kr.add("FLOOR-NOBIAS", f, sub, pos, Violated, "math.Floor is applied to an expression with an additive constant bias")
				continue
			}
		}
		kr.add("FLOOR-NOBIAS", f, sub, pos, Discharged, "math.Floor operand has no additive constant")
	}
}

// flooredLeaves counts, over the values that can reach v through phis and through the results of
// private one-result helpers, how many are results of math.Floor (yes) and how many are not (no).
func flooredLeaves(w *World, v ssa.Value, depth int, seen map[ssa.Value]bool, calls *[]*ssa.Call) (yes, no int) {
	v = resolve(v)
	if seen[v] {
		return 0, 0
	}
	seen[v] = true
	switch x := v.(type) {
	case *ssa.Phi:
		for _, e := range x.Edges {
			y, n := flooredLeaves(w, e, depth, seen, calls)
			yes, no = yes+y, no+n
		}
		return
	case *ssa.Call:
		if calleeIs(x, "math", "Floor") {
			*calls = append(*calls, x)
			return 1, 0
		}
		if g := calleeOf(x); g != nil && w.InModule(g) && g.Blocks != nil && depth < 2 && g.Signature.Results().Len() == 1 {
			for _, ret := range returnsOf(g) {
				y, n := flooredLeaves(w, ret.Results[0], depth+1, seen, calls)
				yes, no = yes+y, no+n
			}
			return
		}
	}
	return 0, 1
}

func isGlobalConstLike(v ssa.Value) bool {
	_, ok := v.(*ssa.Const)
	return ok
}

func (kr *kindRules) roundCall(w *World, f *ssa.Function, c *ssa.Call, pos string, ord map[string]int) {
	g := calleeOf(c)
	if g == nil {
		return
	}
	if p := pkgOf(g); p != nil && p.Path() == "math" {
		switch g.Name() {
		case "Trunc", "Round", "Ceil", "RoundToEven":
			k := kr.vkinds(c.Call.Args[0])
			if k != 0 {
				ord["math"]++
				kr.add("ROUND", f, fmt.Sprintf("math.%s #%d on a %s value", g.Name(), ord["math"], k), pos, Violated,
					"math."+g.Name()+" is not floor; a signed vertical quantity must be rounded toward minus infinity")
			}
		}
		return
	}
	if funcIs(g, modPath+"/common", "CalculateArithmeticShift") {
		k := kr.vkinds(c.Call.Args[0])
		if k != 0 {
			ord["ashift"]++
			kr.add("ROUND", f, fmt.Sprintf("arithmetic-shift call #%d on a %s value", ord["ashift"], k), pos, Discharged,
				"resolution change goes through common.CalculateArithmeticShift (classified by rule ASHIFT)")
		}
	}
}

// ashiftRule: body of common.CalculateArithmeticShift: `<<` for shift >= 0 and
// `>>` on a signed operand otherwise, no division.
func ashiftRule(w *World, r *Report) {
	r.Rule("ASHIFT", "common.CalculateArithmeticShift scales by a signed shift: `index << shift` for shift >= 0, `index >> -shift` (arithmetic, = floor) otherwise; no division, no unsigned conversion, no float detour")
	f := w.Func("common", "CalculateArithmeticShift")
	if f == nil {
		r.add("ASHIFT", "common.CalculateArithmeticShift", "?", Unresolved, "function not found")
		return
	}
	var shl, shr []*ssa.BinOp
	bad, other := "", ""
	instrs(f, func(in ssa.Instruction) {
		switch x := in.(type) {
		case *ssa.BinOp:
			switch x.Op {
			case token.SHL:
				shl = append(shl, x)
			case token.SHR:
				shr = append(shr, x)
			case token.QUO:
				// division of the index truncates toward zero, unless the quotient is corrected
				// with the remainder (floor division idiom)
				if stripConv(x.X) == ssa.Value(f.Params[0]) && !floorDivIdiom(f, x) {
					bad = "uses " + x.Op.String() + " on the index (" + shortInstr(x) + ")"
				} else {
					other = "uses " + x.Op.String() + " (" + shortInstr(x) + ")"
				}
			case token.REM:
				other = "uses " + x.Op.String() + " (" + shortInstr(x) + ")"
			case token.MUL:
				// index * 2^shift (a table of powers of two) scales up exactly: not a shift the
				// rule reads, not wrong either
				other = "uses " + x.Op.String() + " (" + shortInstr(x) + ")"
			}
		case *ssa.Convert:
			if !isSignedInt(x.Type()) || !isSignedInt(x.X.Type()) {
				if stripConv(x.X) == ssa.Value(f.Params[0]) {
					bad = "converts the index through a non-signed-integer type (" + shortInstr(x) + ")"
				} else {
					other = "converts through a non-signed-integer type (" + shortInstr(x) + ")"
				}
			}
		case *ssa.Call:
			if builtinName(x) == "" {
				other = "calls " + shortInstr(x)
			}
		}
	})
	pos := w.Pos(f.Pos())
	key := "common.CalculateArithmeticShift"
	if bad != "" {
		r.add("ASHIFT", key+" / body", pos, Violated, bad)
		return
	}
	if other != "" {
		r.add("ASHIFT", key+" / body", pos, Undecided, "the body is not the plain pair of shifts: "+other)
		return
	}
	idx, sh := f.Params[0], f.Params[1]
	if !isSignedInt(idx.Type()) {
		r.add("ASHIFT", key+" / operand", pos, Violated, "the index parameter is not a signed integer")
		return
	}
	// enumerate the three sign regions of the shift parameter: in each region
	// every reachable return must yield the scaled index
	isIdx := func(v ssa.Value) bool { return stripConv(v) == ssa.Value(idx) }
	shapeOf := func(v ssa.Value) string {
		v = stripConv(v)
		if isIdx(v) {
			return "id"
		}
		b, ok := v.(*ssa.BinOp)
		if !ok || !isIdx(b.X) {
			return "?"
		}
		cnt := stripConv(b.Y)
		// a shift count saturated at a constant below 63 (count = min(-shift, K)): an int64
		// shifted right by K < 63 keeps its upper bits, the larger counts are not equivalent
		negShift := func(v ssa.Value) bool {
			u, ok := stripConv(v).(*ssa.UnOp)
			return ok && u.Op == token.SUB && stripConv(u.X) == ssa.Value(sh)
		}
		var capped []ssa.Value
		if ph, ok := cnt.(*ssa.Phi); ok {
			capped = ph.Edges
		} else if mc, ok := cnt.(*ssa.Call); ok && builtinName(mc) == "min" {
			capped = mc.Call.Args
		}
		if len(capped) == 2 && b.Op == token.SHR {
			for i := 0; i < 2; i++ {
				if k, isK := constInt(capped[i]); isK && negShift(capped[1-i]) {
					if k < 63 {
						return fmt.Sprintf("shr saturated at %d", k)
					}
					return "shr"
				}
			}
		}
		neg := false
		if u, ok := cnt.(*ssa.UnOp); ok && u.Op == token.SUB {
			cnt, neg = stripConv(u.X), true
		}
		if cnt != ssa.Value(sh) {
			return "?"
		}
		switch {
		case b.Op == token.SHL && !neg:
			return "shl"
		case b.Op == token.SHR && neg:
			return "shr"
		}
		return "?"
	}
	var problems, unread []string
	for _, reg := range []struct {
		name   string
		lo, hi float64
		accept map[string]bool
	}{
		{"shift > 0", 1, 62, map[string]bool{"shl": true}},
		{"shift == 0", 0, 0, map[string]bool{"shl": true, "shr": true, "id": true}},
		{"shift < 0", -62, -1, map[string]bool{"shr": true}},
	} {
		oracle := func(cond ssa.Value) (bool, bool) {
			c, ok := resolve(cond).(*ssa.BinOp)
			if !ok {
				return false, false
			}
			if k, isK := constFloat(c.Y); isK && stripConv(c.X) == ssa.Value(sh) {
				return decideCmp(c.Op, reg.lo, reg.hi, k)
			}
			if k, isK := constFloat(c.X); isK && stripConv(c.Y) == ssa.Value(sh) {
				return decideCmp(flipOp(c.Op), reg.lo, reg.hi, k)
			}
			return false, false
		}
		reach := simulate(f.Blocks[0], nil, oracle)
		n := 0
		for _, ret := range returnsOf(f) {
			if !reach[ret.Block()] || len(ret.Results) != 1 {
				continue
			}
			n++
			v := resolve(ret.Results[0])
			if ph, ok := v.(*ssa.Phi); ok {
				if pv, uniq := phiValueUnder(f, ph, oracle); uniq {
					v = resolve(pv)
				}
			}
			if sp := shapeOf(v); !reg.accept[sp] {
				if sp == "?" {
					unread = append(unread, fmt.Sprintf("for %s the result is %s", reg.name, describeValue(v)))
				} else {
					problems = append(problems, fmt.Sprintf("for %s the result is %s [%s]", reg.name, describeValue(v), sp))
				}
			}
		}
		if n == 0 {
			unread = append(unread, "no return reachable for "+reg.name)
		}
	}
	if len(problems) == 0 && len(unread) > 0 {
		r.add("ASHIFT", key+" / branches", pos, Undecided, "the result is not in a form the rule reads: "+strings.Join(unread, "; "))
		return
	}
	if len(problems) > 0 {
		r.add("ASHIFT", key+" / branches", pos, Violated, "shift direction is not selected by the sign of the shift parameter: "+strings.Join(problems, "; ")+" (expected index << shift for shift > 0, index >> -shift for shift < 0)")
		return
	}
	_, _ = shl, shr
	r.add("ASHIFT", key+" / body", pos, Discharged, "index << shift when shift > 0, index >> -shift (signed, arithmetic) when shift < 0, index for shift == 0: enumerated over the three sign regions")
}

// guardedBySign: block b executes only when param p >= 0 (nonneg=true) or p < 0.
func guardedBySign(f *ssa.Function, b *ssa.BasicBlock, p ssa.Value, nonneg bool) bool {
	for _, blk := range f.Blocks {
		t, fl, i := ifSuccs(blk)
		if i == nil {
			continue
		}
		c, ok := i.Cond.(*ssa.BinOp)
		if !ok {
			continue
		}
		z, isZero := constInt(c.Y)
		if c.X != p || !isZero || z != 0 {
			continue
		}
		var nn, ng *ssa.BasicBlock // successor when p>=0, when p<0
		switch c.Op {
		case token.GEQ:
			nn, ng = t, fl
		case token.LSS:
			nn, ng = fl, t
		default:
			continue
		}
		want := nn
		if !nonneg {
			want = ng
		}
		if want == b || blockDominatedByEdge(f, blk, want, b) {
			return true
		}
	}
	return false
}

// closureOf: module functions reachable through static calls and closures
// from the given entry points.
func closureOf(w *World, entries []*ssa.Function) map[*ssa.Function]bool {
	seen := map[*ssa.Function]bool{}
	var walk func(f *ssa.Function)
	walk = func(f *ssa.Function) {
		if f == nil || seen[f] || !w.InModule(f) {
			return
		}
		seen[f] = true
		if f.Blocks == nil {
			return
		}
		instrs(f, func(in ssa.Instruction) {
			switch x := in.(type) {
			case ssa.CallInstruction:
				walk(calleeOf(x))
				for _, a := range x.Common().Args {
					if fn, ok := a.(*ssa.Function); ok {
						walk(fn)
					}
				}
			case *ssa.MakeClosure:
				walk(x.Fn.(*ssa.Function))
			}
		})
	}
	for _, e := range entries {
		walk(e)
	}
	return seen
}

// emit copies the findings of the given rules whose function lies in the set
// into the report.
func (kr *kindRules) emit(w *World, r *Report, rules []string, in map[*ssa.Function]bool) int {
	n := 0
	want := map[string]bool{}
	for _, x := range rules {
		want[x] = true
	}
	for _, fd := range kr.Findings {
		if !want[fd.Rule] {
			continue
		}
		can := w.IsCanary(fd.F)
		if !can && in != nil && !in[fd.F] {
			continue
		}
		name := w.FuncName(fd.F)
		r.Add(Obligation{Rule: fd.Rule, Key: fd.Rule + " / " + name + " / " + fd.Sub, Pos: fd.Pos, Status: fd.Status, Detail: fd.Detail, Canary: can})
		n++
	}
	return n
}

func entryFuncs(w *World, r *Report, names ...string) []*ssa.Function {
	var out []*ssa.Function
	for _, n := range names {
		f := lookupByName(w, n)
		if f == nil {
			r.add("ANCHOR", n, "?", Unresolved, "exported entry point "+n+" no longer exists")
			continue
		}
		out = append(out, f)
	}
	return out
}

func unresolvedSeeds(w *World, r *Report) {
	ke := kindsFor(w)
	for _, u := range ke.Unresolved {
		r.add("ANCHOR", u, "?", Unresolved, "table entry does not resolve to a program object: "+u)
	}
}

var _ = strings.Contains

// remSign: Go's % keeps the sign of the dividend.  A horizontal index that is
// moved by a possibly negative amount and then reduced with % leaves the grid
// on the low side (-1 % n == -1) unless the negative remainder is corrected.
func (kr *kindRules) remSign(w *World, f *ssa.Function, x *ssa.BinOp, pos string, ord map[string]int) {
	if !isIntType(x.Type()) || !isSignedInt(x.Type()) {
		return
	}
	a := kr.ke.Eval(x)
	if a == nil || a.Scalar == 0 || a.Scalar&^ks(kX, kY) != 0 {
		return
	}
	isIndex := func(v ssa.Value) bool {
		b := kr.ke.Eval(v)
		return b != nil && b.Scalar != 0 && b.Scalar&^ks(kX, kY) == 0
	}
	var mayNeg func(v ssa.Value, depth int) bool
	mayNeg = func(v ssa.Value, depth int) bool {
		if depth > 4 {
			return false
		}
		v = resolve(v)
		if c, ok := constInt(v); ok {
			return c < 0
		}
		switch y := v.(type) {
		case *ssa.UnOp:
			if y.Op == token.SUB {
				return true
			}
		case *ssa.Phi:
			for _, e := range y.Edges {
				if mayNeg(e, depth+1) {
					return true
				}
			}
		case *ssa.Parameter:
			if b := kr.ke.Eval(y); b != nil && b.Scalar != 0 && b.Scalar&^ks(kDX, kDY) == 0 {
				return true // a signed shift by documentation
			}
		case *ssa.BinOp:
			if y.Op == token.SUB {
				if c, ok := constInt(y.X); ok && c == 0 {
					return true
				}
			}
		}
		return false
	}
	// the dividend: index - positive constant, or index + possibly negative amount
	d, ok := resolve(x.X).(*ssa.BinOp)
	if !ok {
		return
	}
	modulus := x.Y
	neg := false
	switch d.Op {
	case token.SUB:
		if c, ok := constInt(d.Y); ok && c > 0 && isIndex(d.X) {
			neg = true
		}
	case token.ADD:
		for _, pr := range [][2]ssa.Value{{d.X, d.Y}, {d.Y, d.X}} {
			if isIndex(pr[0]) && mayNeg(pr[1], 0) {
				neg = true
			}
		}
		// (x + s + n) % n: the modulus is added before reducing
		for _, op := range []ssa.Value{d.X, d.Y} {
			if equivValue(op, modulus) {
				return
			}
			if in, ok := resolve(op).(*ssa.BinOp); ok && in.Op == token.ADD && (equivValue(in.X, modulus) || equivValue(in.Y, modulus)) {
				return
			}
		}
	}
	if !neg {
		return
	}
	// corrected afterwards?  r < 0 test, or (r + n) % n
	if x.Referrers() != nil {
		for _, ref := range *x.Referrers() {
			switch y := ref.(type) {
			case *ssa.BinOp:
				switch y.Op {
				case token.LSS, token.GEQ, token.LEQ, token.GTR:
					return
				case token.ADD:
					if equivValue(y.X, modulus) || equivValue(y.Y, modulus) {
						return
					}
				}
			case *ssa.Phi:
				return // carried on: a later correction cannot be excluded
			case *ssa.Store:
				if _, isVar := y.Addr.(*ssa.Alloc); isVar {
					return
				}
			case *ssa.Call:
				if bn := builtinName(y); bn == "max" || bn == "min" {
					return
				}
				// handed to a helper of the module (not a plain setter): it may correct the sign
				if g := calleeOf(y); g != nil && w.InModule(g) && !isSetter(w, g) {
					return
				}
			}
		}
	}
	ord["rem"]++
	kr.add("REM-SIGN", f, fmt.Sprintf("remainder #%d of a moved %s index", ord["rem"], a.Scalar), pos, Violated, "the index is moved by an amount that can be negative and reduced with %: Go's remainder keeps the sign of the dividend (-1 % n == -1), so the result leaves the grid on the low side instead of wrapping to n-1 -- "+shortInstr(x))
}
