package main

import (
	"encoding/json"
	"flag"
	"fmt"
	"os"
	"path/filepath"
	"runtime/debug"
	"strings"
)

type propFn func(w *World, r *Report, tier string)

type propSpec struct {
	ID      string
	Level   string
	Run     propFn
	Explain string
	Trusted []string
	Canary  []CanaryExpect
}

var registry = map[string]*propSpec{}

func register(p *propSpec) { registry[p.ID] = p }

var baseTrusted = []string{
	"go/types type checker and go/packages loader (go1.23.5)",
	"golang.org/x/tools v0.29.0 go/ssa construction (InstantiateGenerics) and VTA/CHA call graph",
	"frozen tables in /verif/checker/tables.go (parameter roles, guard rows, setter list), transcribed from doc comments and the property text",
}

func main() {
	prop := flag.String("property", "", "property id (C01..C20) or 'all'")
	tier := flag.String("tier", "quick", "quick|thorough")
	repo := flag.String("repo", "/repo", "repository root")
	verif := flag.String("verif", "/verif", "verif root")
	outdir := flag.String("outdir", "", "where evidence/ and reports/ are written (default: the verif root)")
	dump := flag.String("dumpkinds", "", "debug: dump inferred kinds of functions whose name contains this")
	flag.Parse()
	if *dump != "" {
		w, err := Load(*repo, filepath.Join(*verif, "checker", "canary"))
		if err != nil {
			fmt.Println(err)
			os.Exit(2)
		}
		dumpKinds(w, *dump)
		return
	}
	if t := os.Getenv("VERIF_TIER"); t != "" && *tier == "" {
		*tier = t
	}
	if *prop == "" {
		fmt.Fprintln(os.Stderr, "usage: sidcheck -property Cxx [-tier quick|thorough]")
		os.Exit(2)
	}
	ids := []string{*prop}
	if *prop == "all" {
		ids = nil
		for _, k := range sortedKeys(registry) {
			if strings.HasPrefix(k, "C") {
				ids = append(ids, k)
			}
		}
	}
	for _, id := range ids {
		if registry[id] == nil {
			fmt.Fprintf(os.Stderr, "unknown or unclaimed property %q\n", id)
			os.Exit(2)
		}
	}
	code := 0
	defer func() {
		if x := recover(); x != nil {
			fmt.Printf("infrastructure failure: checker panic: %v\n%s\n", x, debug.Stack())
			os.Exit(2)
		}
	}()
	w, err := Load(*repo, filepath.Join(*verif, "checker", "canary"))
	if err != nil {
		fmt.Printf("infrastructure failure: cannot load %s: %v\n", *repo, err)
		// a tree that does not type-check cannot be given a verdict
		os.Exit(2)
	}
	known, err := loadKnown(filepath.Join(*verif, "known_findings.json"))
	if err != nil {
		fmt.Printf("infrastructure failure: known_findings.json: %v\n", err)
		os.Exit(2)
	}
	floors := floorsFile{}
	if b, err := os.ReadFile(filepath.Join(*verif, "expect", "floors.json")); err == nil {
		if err := json.Unmarshal(b, &floors); err != nil {
			fmt.Printf("infrastructure failure: floors.json: %v\n", err)
			os.Exit(2)
		}
	}
	for _, id := range ids {
		ps := registry[id]
		r := NewReport(id, *tier)
		r.Analysed["module_packages"] = len(w.Pkgs)
		r.Analysed["source_files"] = w.Files
		r.Analysed["module_functions"] = len(w.ModFuncs)
		func() {
			// a panic inside a rule is a defect of the checker, not evidence about the tree:
			// the obligations recorded so far stand, the rest is reported as not analysed
			defer func() {
				if x := recover(); x != nil {
					st := string(debug.Stack())
					if len(st) > 1500 {
						st = st[:1500]
					}
					r.add("CHECKER", "rule engine", "-", Undecided, fmt.Sprintf("checker panic while analysing this tree (%v); obligations after this point were not evaluated\n%s", x, st))
				}
			}()
			ps.Run(w, r, *tier)
		}()
		if *tier == "thorough" && *outdir == "" {
			thoroughExtras(w, r, id, *verif, *repo)
		}
		skipped := ""
		if !w.CanaryOK {
			skipped = w.CanaryWhy
			if skipped == "" {
				skipped = "no canary files found"
			}
		}
		od := *outdir
		if od == "" {
			od = *verif
		}
		c := r.Finish(od, ps.Level, floors, known, ps.Canary, skipped, ps.Explain, append(append([]string{}, baseTrusted...), ps.Trusted...))
		if c > code {
			code = c
		}
	}
	os.Exit(code)
}

func containsAny(s string, subs ...string) bool {
	for _, x := range subs {
		if strings.Contains(s, x) {
			return true
		}
	}
	return false
}
