package main

// A4 -- scenario simulation: "under an out-of-domain scenario for one
// argument, no success return is reachable".
//
// A scenario fixes an abstract fact about one subject (a parameter, or the
// current element of a list parameter): an integer/float region, nil-ness,
// the arity of strings.Split(subject, "/"), "no field parses as integer",
// or an order relation between two parameters.  The CFG is explored with an
// oracle that decides exactly the branch conditions this fact determines
// (comparisons with constants, bool validators evaluated recursively,
// `err != nil` of a delegated call that always fails under the mapped
// scenario); every other branch is explored both ways.  No repository code
// is executed and no solver is involved: the abstract domain is one
// interval / one flag, the exploration is plain graph reachability.

import (
	"fmt"
	"go/token"
	"go/types"
	"math"
	"os"
	"sort"
	"strings"

	"golang.org/x/tools/go/ssa"
)

type scKind int

const (
	scRegion scKind = iota
	scNil
	scElemNil // some element of the list is nil
	scArity   // len(strings.Split(subject, "/")) != N
	scParseFail
	scPairRel
	scOption // subject is none of the declared constants of its type
	scEmpty  // the list subject has no elements
)

type scenario struct {
	Kind   scKind
	Param  int
	Elem   bool // subject = element of list parameter Param
	Lo, Hi float64
	N      int64
	Param2 int
	Rel    rel
	// accessor-subject: subject = result of getter Acc on (element of) Param
	Acc        *types.Var
	Acc2       *types.Var    // second getter for order scenarios on one element
	Fields     bool          // subject parameter is the []string of '/'-separated fields of the offending ID
	Consts     string        // constant bool arguments of this activation: "2=false,3=true"
	SField     int           // 1 + index of the field of the struct parameter Param that holds the subject (0 = the parameter itself)
	NonEmpty   int           // 1 + index of a list parameter assumed non-empty (0 = none)
	NonEmptyFn *ssa.Function // the list returned (result 0) by this function is non-empty on success
}

func (s scenario) String() string {
	sub := fmt.Sprintf("param#%d", s.Param)
	if s.Elem {
		sub = "an element of " + sub
	}
	if s.Acc != nil {
		sub = "field " + s.Acc.Name() + " of " + sub
	}
	switch s.Kind {
	case scRegion:
		return fmt.Sprintf("%s in [%g,%g]", sub, s.Lo, s.Hi)
	case scNil:
		return sub + " == nil"
	case scElemNil:
		return sub + " contains nil"
	case scArity:
		return fmt.Sprintf("%s does not have %d '/'-separated fields", sub, s.N)
	case scParseFail:
		return sub + " has non-integer fields"
	case scPairRel:
		return fmt.Sprintf("param#%d %v param#%d", s.Param, s.Rel, s.Param2)
	case scOption:
		return sub + " is not a declared option"
	case scEmpty:
		return "len(" + sub + ") == 0"
	}
	return "?"
}

type scEngine struct {
	w    *World
	memo map[string]int // 1 fails always, 2 not, 3 in progress
	// undecidedOnSubject collects, during one top-level check, the branch
	// conditions that depend on the scenario's subject but whose outcome the
	// oracle could not determine: if a success return is reachable only
	// because such a test was explored both ways, the argument may well be
	// validated in a form the analysis does not interpret -- no verdict.
	undecidedOnSubject []string
	memoTests          map[string][]string // unevaluable tests met while computing a memoised summary
	// assumeReject: second pass -- every validation-shaped test of the subject
	// that the oracle cannot evaluate is assumed to reject the argument
	assumeReject bool
	// failure classification for functions without error result
	failConst map[*ssa.Function]func(*ssa.Return) bool
}

var scCache *scEngine

func scFor(w *World) *scEngine {
	if scCache == nil {
		scCache = &scEngine{w: w, memo: map[string]int{}, failConst: map[*ssa.Function]func(*ssa.Return) bool{}}
		if f := lookupByName(w, "operated.GetShiftingSpatialID"); f != nil {
			scCache.failConst[f] = func(r *ssa.Return) bool {
				if s, ok := constString(r.Results[0]); ok {
					return s == ""
				}
				// a named result that nothing has assigned yet (bare return in front of the code
				// and the closures that build the ID)
				if ld, ok := r.Results[0].(*ssa.UnOp); ok && ld.Op == token.MUL {
					return zeroAtLoad(ld)
				}
				return false
			}
		}
	}
	return scCache
}

// zeroAtLoad: the local variable read by ld still holds its zero value there: no store to it,
// and no closure that captures it, lies on a path from the entry to the load.
func zeroAtLoad(ld *ssa.UnOp) bool {
	al, ok := ld.X.(*ssa.Alloc)
	if !ok || al.Referrers() == nil {
		return false
	}
	before := func(in ssa.Instruction) bool {
		if in.Block() == ld.Block() {
			for _, x := range in.Block().Instrs {
				if x == in {
					return true
				}
				if x == ssa.Instruction(ld) {
					break
				}
			}
			// after the load in the same block: only around a cycle
			for _, sc := range in.Block().Succs {
				if reachableFrom(sc, nil)[ld.Block()] {
					return true
				}
			}
			return false
		}
		return reachableFrom(in.Block(), nil)[ld.Block()]
	}
	for _, ref := range *al.Referrers() {
		switch x := ref.(type) {
		case *ssa.UnOp:
			if x.Op != token.MUL {
				return false
			}
		case *ssa.Store:
			if x.Addr != ssa.Value(al) || before(x) {
				return false
			}
		case *ssa.MakeClosure:
			if before(x) {
				return false
			}
		case *ssa.DebugRef:
		default:
			return false
		}
	}
	return true
}

// isFailureReturn: the return reports failure.
func (e *scEngine) isFailureReturn(f *ssa.Function, r *ssa.Return) bool {
	if fc := e.failConst[f]; fc != nil {
		return fc(r)
	}
	if errResultIndex(f) < 0 {
		// helpers reporting failure through a bool result: `return ..., false` where the
		// same result position is the constant true on other returns (an ok flag)
		for i := len(r.Results) - 1; i >= 0; i-- {
			b, isB := r.Results[i].Type().Underlying().(*types.Basic)
			if !isB || b.Kind() != types.Bool {
				continue
			}
			k, ok := resolve(r.Results[i]).(*ssa.Const)
			if !ok || k.Value == nil || k.Value.String() != "false" {
				continue
			}
			if i == len(r.Results)-1 {
				return true
			}
			// a flag in the middle: every return carries a constant there, some of them true
			allConst, someTrue := true, false
			for _, o := range returnsOf(f) {
				if i >= len(o.Results) {
					allConst = false
					continue
				}
				ok2, isK := resolve(o.Results[i]).(*ssa.Const)
				if !isK || ok2.Value == nil {
					allConst = false
				} else if ok2.Value.String() == "true" {
					someTrue = true
				}
			}
			if allConst && someTrue {
				return true
			}
		}
		return false
	}
	return classifyReturn(f, r) == retError
}

type simCtx struct {
	e          *scEngine
	f          *ssa.Function
	sc         scenario
	loop       *sliceRange // for Elem subjects: the loop whose element is the subject
	depth      int
	phiBusy    map[*ssa.Phi]bool
	lookupBusy bool
	chainDepth int
	allocBusy  map[*ssa.Alloc]bool
	phiSel     map[*ssa.Phi]ssa.Value  // incoming value selected along the path being explored
	litLoop    *sliceRange             // loop over a list literal that contains the subject: its element stands for the subject
	boolParams map[*ssa.Parameter]bool // bool parameters whose value is a constant at the call site
}

// subject matching ---------------------------------------------------------

func (c *simCtx) isSubject(v ssa.Value) bool {
	if c.sc.Fields {
		return false
	}
	v = resolve(v)
	if c.sc.Acc != nil {
		call, ok := v.(*ssa.Call)
		if !ok {
			return false
		}
		g := calleeOf(call)
		if g == nil || accessorField(g) != c.sc.Acc || len(call.Call.Args) != 1 {
			return false
		}
		return c.isBase(call.Call.Args[0])
	}
	return c.isBase(v)
}

// getterOfBase: v is a call of a field getter on the scenario's base object.
func (c *simCtx) getterOfBase(v ssa.Value) *types.Var {
	call, ok := resolve(v).(*ssa.Call)
	if !ok {
		return nil
	}
	g := calleeOf(call)
	if g == nil || len(call.Call.Args) != 1 {
		return nil
	}
	fv := accessorField(g)
	if fv == nil || !c.isBase(call.Call.Args[0]) {
		return nil
	}
	return fv
}

func (c *simCtx) isBase(v ssa.Value) bool {
	v = resolve(v)
	if ld, ok := loadOf(v); ok {
		// value receiver call through *ptr: subject is the pointer
		if c.isBase(ld) {
			return true
		}
	}
	if !c.sc.Elem && c.sc.SField > 0 {
		// the subject travels inside a struct parameter: field SField-1 of it
		if c.sc.Param >= len(c.f.Params) {
			return false
		}
		p := ssa.Value(c.f.Params[c.sc.Param])
		isP := func(x ssa.Value) bool {
			if x == p {
				return true
			}
			// spilled value receiver: local copy of the parameter
			if al, ok := x.(*ssa.Alloc); ok {
				if sv := singleStore2(al); sv != nil && sv == p {
					return true
				}
			}
			return false
		}
		if fl, ok := v.(*ssa.Field); ok && fl.Field == c.sc.SField-1 && isP(fl.X) {
			return true
		}
		if ld, ok := loadOf(v); ok {
			if fa, ok := ld.(*ssa.FieldAddr); ok && fa.Field == c.sc.SField-1 && isP(fa.X) {
				return true
			}
		}
		return false
	}
	if !c.sc.Elem {
		if c.sc.Param < len(c.f.Params) && v == ssa.Value(c.f.Params[c.sc.Param]) {
			return true
		}
		if c.litLoop != nil && c.litLoop.isElem(v) {
			return true
		}
		// element of the notation-converted one-element list {subject}
		if ld, ok := loadOf(v); ok {
			if ia, ok := ld.(*ssa.IndexAddr); ok {
				if ex, ok := resolve(ia.X).(*ssa.Extract); ok && ex.Index == 0 {
					if call, ok := ex.Tuple.(*ssa.Call); ok && (calleeIs(call, modPath+"/shape", "ConvertSpatialIdsToExtendedSpatialIds") || calleeIs(call, modPath+"/shape", "ConvertExtendedSpatialIdsToSpatialIds")) {
						if vals, ok := sliceLiteral(call.Call.Args[0]); ok && len(vals) == 1 && c.sc.Param < len(c.f.Params) && resolve(vals[0]) == ssa.Value(c.f.Params[c.sc.Param]) {
							return true
						}
					}
				}
			}
		}
		return false
	}
	if c.loop == nil {
		return false
	}
	return c.loop.isElem(v)
}

func (c *simCtx) isSubjectList(v ssa.Value) bool {
	if !c.sc.Elem {
		return false
	}
	v = resolve(v)
	if c.sc.Param < len(c.f.Params) && v == ssa.Value(c.f.Params[c.sc.Param]) {
		return true
	}
	// de-duplicated copy of the list: every distinct element is still there
	if call, ok := v.(*ssa.Call); ok && len(call.Call.Args) >= 1 {
		if calleeIs(call, modPath+"/common", "Unique") {
			return c.isSubjectList(call.Call.Args[0])
		}
	}
	// list derived element-wise by a notation conversion
	if ex, ok := v.(*ssa.Extract); ok && ex.Index == 0 {
		if call, ok := ex.Tuple.(*ssa.Call); ok {
			if calleeIs(call, modPath+"/shape", "ConvertSpatialIdsToExtendedSpatialIds") || calleeIs(call, modPath+"/shape", "ConvertExtendedSpatialIdsToSpatialIds") {
				return c.isSubjectList(call.Call.Args[0])
			}
		}
	}
	return false
}

// numeric expression over the subject: returns interval of the expression
func (c *simCtx) regionOf(v ssa.Value) (float64, float64, bool) {
	// signed -> unsigned conversion (resolve would strip it): a negative value becomes a huge one
	if cv, ok := v.(*ssa.Convert); ok {
		if bt, isB := cv.Type().Underlying().(*types.Basic); isB && bt.Info()&types.IsUnsigned != 0 && isSignedInt(cv.X.Type()) {
			lo, hi, ok := c.regionOf(cv.X)
			switch {
			case !ok:
				return 0, 0, false
			case hi < 0:
				return math.Pow(2, 63), math.Pow(2, 64), true
			case lo >= 0:
				return lo, hi, true
			}
			return 0, 0, false
		}
	}
	v = resolve(v)
	if c.sc.Kind == scEmpty {
		if lc, ok := v.(*ssa.Call); ok && builtinName(lc) == "len" && c.isSubject(lc.Call.Args[0]) {
			return 0, 0, true
		}
		return 0, 0, false
	}
	if c.isSubject(v) {
		return c.sc.Lo, c.sc.Hi, true
	}
	switch x := v.(type) {
	case *ssa.Convert:
		lo, hi, ok := c.regionOf(x.X)
		if !ok {
			return 0, 0, false
		}
		// signed -> unsigned: a negative value becomes a huge one
		if bt, isB := x.Type().Underlying().(*types.Basic); isB && bt.Info()&types.IsUnsigned != 0 {
			if st, isS := x.X.Type().Underlying().(*types.Basic); isS && st.Info()&types.IsInteger != 0 && st.Info()&types.IsUnsigned == 0 {
				switch {
				case hi < 0:
					return math.Pow(2, 63), math.Pow(2, 64), true
				case lo >= 0:
					return lo, hi, true
				}
				return 0, 0, false
			}
		}
		return lo, hi, true
	case *ssa.BinOp:
		if x.Op == token.ADD || x.Op == token.SUB {
			// arithmetic in an unsigned type wraps below zero: uint64(z)-1 <= 30 rejects z = 0
			wrap := func(lo, hi float64) (float64, float64, bool) {
				if bt, isB := x.Type().Underlying().(*types.Basic); isB && bt.Info()&types.IsUnsigned != 0 && lo < 0 {
					if hi < 0 {
						return math.Pow(2, 63), math.Pow(2, 64), true
					}
					return 0, 0, false
				}
				return lo, hi, true
			}
			if k, isK := c.constUnder(x.Y); isK {
				if lo, hi, ok := c.regionOf(x.X); ok {
					if x.Op == token.SUB {
						k = -k
					}
					return wrap(lo+k, hi+k)
				}
			}
			if k, isK := c.constUnder(x.X); isK && x.Op == token.ADD {
				if lo, hi, ok := c.regionOf(x.Y); ok {
					return wrap(lo+k, hi+k)
				}
			}
		}
	case *ssa.Call:
		if bn := builtinName(x); bn == "min" || bn == "max" {
			// the subject bounds min from above and max from below whatever the other operands are
			lo, hi := math.Inf(-1), math.Inf(1)
			any := false
			allKnown := true
			for _, a := range x.Call.Args {
				alo, ahi, ok := c.regionOf(a)
				if !ok {
					if k, isK := c.constUnder(a); isK {
						alo, ahi, ok = k, k, true
					}
				}
				if !ok {
					allKnown = false
					continue
				}
				if !any {
					lo, hi, any = alo, ahi, true
					continue
				}
				if bn == "min" {
					lo, hi = math.Min(lo, alo), math.Min(hi, ahi)
				} else {
					lo, hi = math.Max(lo, alo), math.Max(hi, ahi)
				}
			}
			if !any {
				return 0, 0, false
			}
			if !allKnown {
				if bn == "min" {
					lo = math.Inf(-1)
				} else {
					hi = math.Inf(1)
				}
			}
			return lo, hi, true
		}
		if calleeIs(x, "math", "Abs") {
			lo, hi, ok := c.regionOf(x.Call.Args[0])
			if !ok {
				return 0, 0, false
			}
			if lo >= 0 {
				return lo, hi, true
			}
			if hi <= 0 {
				return -hi, -lo, true
			}
			return 0, math.Max(-lo, hi), true
		}
	}
	return 0, 0, false
}

// constUnder: the value is a constant, or a phi that selects one constant
// under the facts the oracle already knows (e.g. a constant bool parameter).
func (c *simCtx) constUnder(v ssa.Value) (float64, bool) {
	v = resolve(v)
	if k, ok := constFloat(v); ok {
		return k, true
	}
	if p, ok := v.(*ssa.Phi); ok && (len(c.boolParams) > 0 || c.sc.Consts != "") && !c.phiBusy[p] {
		if c.phiBusy == nil {
			c.phiBusy = map[*ssa.Phi]bool{}
		}
		c.phiBusy[p] = true
		pv, uniq := phiValueUnder(c.f, p, c.oracle)
		delete(c.phiBusy, p)
		if uniq {
			return constFloat(resolve(pv))
		}
	}
	return 0, false
}

func decideCmp(op token.Token, lo, hi, c float64) (bool, bool) {
	switch op {
	case token.LSS:
		if hi < c {
			return true, true
		}
		if lo >= c {
			return false, true
		}
	case token.LEQ:
		if hi <= c {
			return true, true
		}
		if lo > c {
			return false, true
		}
	case token.GTR:
		if lo > c {
			return true, true
		}
		if hi <= c {
			return false, true
		}
	case token.GEQ:
		if lo >= c {
			return true, true
		}
		if hi < c {
			return false, true
		}
	case token.EQL:
		if lo == hi && lo == c {
			return true, true
		}
		if c < lo || c > hi {
			return false, true
		}
	case token.NEQ:
		if lo == hi && lo == c {
			return false, true
		}
		if c < lo || c > hi {
			return true, true
		}
	}
	return false, false
}

func flipOp(op token.Token) token.Token {
	switch op {
	case token.LSS:
		return token.GTR
	case token.LEQ:
		return token.GEQ
	case token.GTR:
		return token.LSS
	case token.GEQ:
		return token.LEQ
	}
	return op
}

// splitOfSubject: v == strings.Split(subject, "/")
func (c *simCtx) splitOfSubject(v ssa.Value) bool {
	if c.sc.Fields && !c.sc.Elem && c.sc.Param < len(c.f.Params) && resolve(v) == ssa.Value(c.f.Params[c.sc.Param]) {
		return true
	}
	need := int64(0)
	if c.sc.Kind == scArity {
		need = c.sc.N
	}
	rv := resolve(v)
	// the split handed back by a module helper: result #i of g is, on every
	// return, strings.Split(parameter k of g, "/") and argument k is the subject
	var hc *ssa.Call
	hi := 0
	if ex, ok := rv.(*ssa.Extract); ok {
		hc, _ = ex.Tuple.(*ssa.Call)
		hi = ex.Index
	} else if cc, ok := rv.(*ssa.Call); ok && !calleeIs(cc, "strings", "Split") && !calleeIs(cc, "strings", "SplitN") {
		hc = cc
	}
	if hc != nil {
		g := calleeOf(hc)
		if g == nil || !c.e.w.InModule(g) || g.Blocks == nil {
			return false
		}
		pk := -1
		for _, ret := range returnsOf(g) {
			if hi >= len(ret.Results) {
				return false
			}
			sc, ok := resolve(ret.Results[hi]).(*ssa.Call)
			if !ok || !isSplitCall(sc, need) {
				return false
			}
			k := paramIndex(g, resolve(sc.Call.Args[0]))
			if k < 0 || (pk >= 0 && pk != k) {
				return false
			}
			pk = k
		}
		return pk >= 0 && pk < len(hc.Call.Args) && c.isSubject(hc.Call.Args[pk])
	}
	call, ok := rv.(*ssa.Call)
	if !ok {
		return false
	}
	if !isSplitCall(call, need) {
		return false
	}
	return c.isSubject(call.Call.Args[0])
}

// derivedFromSubjectText: v is the subject string, a field of its split, or
// the loop element of a range over its split.
func (c *simCtx) textOfSubject(v ssa.Value) bool {
	v = resolve(v)
	if c.isSubject(v) {
		return true
	}
	if ld, ok := loadOf(v); ok {
		if ia, ok := ld.(*ssa.IndexAddr); ok {
			return c.splitOfSubject(ia.X)
		}
	}
	if ix, ok := v.(*ssa.Index); ok {
		return c.splitOfSubject(ix.X)
	}
	return false
}

func (c *simCtx) oracle(cond ssa.Value) (bool, bool) {
	cond = resolve(cond)
	if p, ok := cond.(*ssa.Parameter); ok {
		if v, known := c.boolParams[p]; known {
			return v, true
		}
		if c.sc.Consts != "" {
			pi := paramIndex(c.f, p)
			if strings.Contains(","+c.sc.Consts, fmt.Sprintf(",%d=true,", pi)) {
				return true, true
			}
			if strings.Contains(","+c.sc.Consts, fmt.Sprintf(",%d=false,", pi)) {
				return false, true
			}
		}
	}
	switch x := cond.(type) {
	case *ssa.Const:
		if x.Value != nil {
			return x.Value.String() == "true", true
		}
	case *ssa.UnOp:
		if x.Op == token.NOT {
			v, ok := c.oracle(x.X)
			return !v, ok
		}
	case *ssa.Phi:
		return c.evalBoolPhi(x)
	case *ssa.BinOp:
		return c.oracleCmp(x)
	case *ssa.Call:
		return c.oracleCall(x)
	case *ssa.Extract:
		if lk, ok := x.Tuple.(*ssa.Lookup); ok && x.Index == 1 {
			return c.seenLookup(lk)
		}
		if call, ok := x.Tuple.(*ssa.Call); ok {
			if b, isB := x.Type().Underlying().(*types.Basic); isB && b.Kind() == types.Bool {
				return c.boolResultOf(call, x.Index)
			}
		}
	case *ssa.Lookup:
		if !x.CommaOk {
			if b, ok := x.Type().Underlying().(*types.Basic); ok && b.Kind() == types.Bool {
				return c.seenLookup(x)
			}
		}
	}
	return false, false
}

// seenLookup: `seen[subject]` on a local map into which keys are inserted only
// on paths that are unreachable under the scenario (e.g. after the validity
// check) cannot hit: the offending element was never recorded.
func (c *simCtx) seenLookup(lk *ssa.Lookup) (bool, bool) {
	if c.lookupBusy || !c.textOfSubject(lk.Index) {
		return false, false
	}
	mm, ok := resolve(lk.X).(*ssa.MakeMap)
	if !ok {
		return false, false
	}
	var updates []*ssa.MapUpdate
	okAll := true
	for _, ref := range *mm.Referrers() {
		switch x := ref.(type) {
		case *ssa.MapUpdate:
			updates = append(updates, x)
			if !c.textOfSubject(x.Key) {
				okAll = false
			}
		case *ssa.Lookup, *ssa.DebugRef:
		default:
			okAll = false
		}
	}
	if !okAll || len(updates) == 0 {
		return false, false
	}
	c.lookupBusy = true
	defer func() { c.lookupBusy = false }()
	assumeMiss := func(v ssa.Value) (bool, bool) {
		v = resolve(v)
		if v == ssa.Value(lk) {
			return false, true
		}
		if ex, ok := v.(*ssa.Extract); ok && ex.Tuple == ssa.Value(lk) && ex.Index == 1 {
			return false, true
		}
		return c.oracle(v)
	}
	start := c.f.Blocks[0]
	if c.loop != nil {
		start = c.loop.Body
	}
	reach := simulate(start, nil, assumeMiss)
	if c.loop != nil {
		// first occurrence of the offending element: if that iteration can
		// never continue (always fails), no later iteration can find it recorded
		if !reach[c.loop.Header] && !reach[c.loop.Done] {
			return false, true
		}
	}
	for _, u := range updates {
		if reach[u.Block()] {
			return false, false
		}
	}
	return false, true
}

func (c *simCtx) evalBoolPhi(p *ssa.Phi) (bool, bool) {
	if c.phiBusy == nil {
		c.phiBusy = map[*ssa.Phi]bool{}
	}
	if c.phiBusy[p] || len(c.phiBusy) > 6 {
		return false, false
	}
	c.phiBusy[p] = true
	defer delete(c.phiBusy, p)
	// short-circuit && / ||: evaluate the feasible incoming edges
	reach := simulate(c.f.Blocks[0], nil, func(v ssa.Value) (bool, bool) {
		if v == ssa.Value(p) {
			return false, false
		}
		return c.oracleNoPhi(v, p)
	})
	var val, have bool
	for i, pred := range p.Block().Preds {
		if !reach[pred] {
			continue
		}
		t, fl, ifi := ifSuccs(pred)
		if ifi != nil {
			if out, known := c.oracleNoPhi(ifi.Cond, p); known {
				if (out && t != p.Block()) || (!out && fl != p.Block()) {
					continue
				}
			}
		}
		v, ok := c.oracleNoPhi(p.Edges[i], p)
		if !ok {
			return false, false
		}
		if have && v != val {
			return false, false
		}
		val, have = v, true
	}
	return val, have
}

func (c *simCtx) oracleNoPhi(v ssa.Value, skip *ssa.Phi) (bool, bool) {
	if resolve(v) == ssa.Value(skip) {
		return false, false
	}
	return c.oracle(v)
}

func (c *simCtx) oracleCmp(b *ssa.BinOp) (bool, bool) {
	switch b.Op {
	case token.LSS, token.LEQ, token.GTR, token.GEQ, token.EQL, token.NEQ:
	default:
		return false, false
	}
	// both sides are integers known under this activation (a concrete witness call)
	if isIntType(b.X.Type()) && isIntType(b.Y.Type()) {
		if x, ok := c.intConstOf(b.X); ok {
			if y, ok := c.intConstOf(b.Y); ok {
				switch b.Op {
				case token.LSS:
					return x < y, true
				case token.LEQ:
					return x <= y, true
				case token.GTR:
					return x > y, true
				case token.GEQ:
					return x >= y, true
				case token.EQL:
					return x == y, true
				case token.NEQ:
					return x != y, true
				}
			}
		}
	}
	switch c.sc.Kind {
	case scRegion, scEmpty:
		// both sides bounded: the subject's region against a quantity of known sign / size
		if xlo, xhi, ok := c.regionOf(b.X); ok {
			if ylo, yhi, ok := c.boundsOf(b.Y, 0); ok {
				if out, known := decideCmp2(b.Op, xlo, xhi, ylo, yhi); known {
					return out, true
				}
			}
		}
		if ylo, yhi, ok := c.regionOf(b.Y); ok {
			if xlo, xhi, ok := c.boundsOf(b.X, 0); ok {
				if out, known := decideCmp2(b.Op, xlo, xhi, ylo, yhi); known {
					return out, true
				}
			}
		}
		if k, ok := c.constUnder(b.Y); ok {
			if lo, hi, ok := c.regionOf(b.X); ok {
				return decideCmp(b.Op, lo, hi, k)
			}
		}
		if k, ok := c.constUnder(b.X); ok {
			if lo, hi, ok := c.regionOf(b.Y); ok {
				return decideCmp(flipOp(b.Op), lo, hi, k)
			}
		}
	case scNil:
		if (b.Op == token.EQL || b.Op == token.NEQ) && ((c.isSubject(b.X) && isNilConst(b.Y)) || (c.isSubject(b.Y) && isNilConst(b.X))) {
			return b.Op == token.EQL, true
		}
	case scArity:
		var lenv ssa.Value
		var kv ssa.Value
		op := b.Op
		if _, ok := c.intConstOf(b.Y); ok {
			lenv, kv = b.X, b.Y
		} else if _, ok := c.intConstOf(b.X); ok {
			lenv, kv = b.Y, b.X
			op = flipOp(op)
		}
		if lenv != nil {
			if cc, ok := resolve(lenv).(*ssa.Call); ok && calleeIs(cc, "strings", "Count") && c.isSubject(cc.Call.Args[0]) {
				if sep, ok := constString(cc.Call.Args[1]); ok && isSeparator(sep) {
					k, _ := c.intConstOf(kv)
					if k == c.sc.N-1 {
						switch op {
						case token.NEQ:
							return true, true
						case token.EQL:
							return false, true
						}
					}
				}
			}
			if lc, ok := resolve(lenv).(*ssa.Call); ok && builtinName(lc) == "len" && c.splitOfSubject(lc.Call.Args[0]) {
				k, _ := c.intConstOf(kv)
				if k == c.sc.N {
					switch op {
					case token.NEQ:
						return true, true
					case token.EQL:
						return false, true
					}
				}
			}
		}
	case scParseFail:
		// the offending ID has the number of fields the function expects (only
		// their content is wrong): arity tests pass
		if b.Op == token.EQL || b.Op == token.NEQ {
			for _, pr := range [][2]ssa.Value{{b.X, b.Y}, {b.Y, b.X}} {
				if _, isK := c.intConstOf(pr[1]); !isK {
					continue
				}
				cc, ok := resolve(pr[0]).(*ssa.Call)
				if !ok {
					continue
				}
				if builtinName(cc) == "len" && c.splitOfSubject(cc.Call.Args[0]) {
					return b.Op == token.EQL, true
				}
				if calleeIs(cc, "strings", "Count") && c.isSubject(cc.Call.Args[0]) {
					return b.Op == token.EQL, true
				}
			}
		}
	case scPairRel:
		if c.sc.Acc != nil {
			ax, ay := c.getterOfBase(b.X), c.getterOfBase(b.Y)
			if ax == c.sc.Acc && ay == c.sc.Acc2 {
				return cmpOutcome(b.Op, c.sc.Rel)
			}
			if ax == c.sc.Acc2 && ay == c.sc.Acc {
				return cmpOutcome(b.Op, flipRel(c.sc.Rel))
			}
			break
		}
		px, py := c.f.Params[c.sc.Param], c.f.Params[c.sc.Param2]
		if resolve(b.X) == ssa.Value(px) && resolve(b.Y) == ssa.Value(py) {
			return cmpOutcome(b.Op, c.sc.Rel)
		}
		if resolve(b.X) == ssa.Value(py) && resolve(b.Y) == ssa.Value(px) {
			return cmpOutcome(b.Op, flipRel(c.sc.Rel))
		}
	case scOption:
		// subject compared with a declared constant of its type: never equal
		if b.Op == token.EQL || b.Op == token.NEQ {
			if (c.isSubject(b.X) && isConst(b.Y)) || (c.isSubject(b.Y) && isConst(b.X)) {
				return b.Op == token.NEQ, true
			}
		}
	}
	// err != nil / err == nil of a call that always fails under the scenario
	if b.Op == token.NEQ || b.Op == token.EQL {
		var ev ssa.Value
		if isNilConst(b.Y) {
			ev = b.X
		} else if isNilConst(b.X) {
			ev = b.Y
		}
		if ev != nil {
			if ph, ok := ev.(*ssa.Phi); ok {
				if sel, ok := c.phiSel[ph]; ok && isNilConst(sel) {
					return b.Op == token.EQL, true // the path taken left the error nil
				}
			}
			if fails, known := c.errValueFails(ev); known && fails {
				return b.Op == token.NEQ, true
			}
			// the error of a module function that returns a nil error on every path (for
			// instance because the error it tests is a shadowed copy): certainly nil
			if neverReturnsError(c.e.w, ev) {
				return b.Op == token.EQL, true
			}
		}
	}
	return false, false
}

// neverReturnsError: ev is the error result of a call to a module function all of
// whose returns carry a definitely-nil error operand.
func neverReturnsError(w *World, ev ssa.Value) bool {
	ev = resolve(ev)
	var call *ssa.Call
	idx := 0
	switch x := ev.(type) {
	case *ssa.Extract:
		cc, ok := x.Tuple.(*ssa.Call)
		if !ok {
			return false
		}
		call, idx = cc, x.Index
	case *ssa.Call:
		call = x
	default:
		return false
	}
	g := calleeOf(call)
	if g == nil || !w.InModule(g) || g.Blocks == nil || errResultIndex(g) != idx {
		return false
	}
	rets := returnsOf(g)
	if len(rets) == 0 {
		return false
	}
	for _, ret := range rets {
		if classifyReturn(g, ret) != retSuccess {
			return false
		}
	}
	return true
}

// intConstOf: an integer constant, or an integer parameter whose value is a
// constant at the call site of this activation.
// intConstOf folds v to one integer; a value that does not fit the (unsigned or
// narrow) type it is computed in is not folded: it wraps at run time.
func (c *simCtx) intConstOf(v ssa.Value) (int64, bool) {
	k, ok := c.intConstRaw(v)
	if !ok {
		return 0, false
	}
	if b, isB := v.Type().Underlying().(*types.Basic); isB && b.Info()&types.IsInteger != 0 {
		unsigned := b.Info()&types.IsUnsigned != 0
		bits := 64
		switch b.Kind() {
		case types.Int8, types.Uint8:
			bits = 8
		case types.Int16, types.Uint16:
			bits = 16
		case types.Int32, types.Uint32:
			bits = 32
		}
		if unsigned && k < 0 {
			return 0, false
		}
		if bits < 64 {
			if unsigned && k >= int64(1)<<uint(bits) {
				return 0, false
			}
			if !unsigned && (k >= int64(1)<<uint(bits-1) || k < -(int64(1)<<uint(bits-1))) {
				return 0, false
			}
		}
	}
	return k, true
}

func (c *simCtx) intConstRaw(v ssa.Value) (int64, bool) {
	if k, ok := constInt(v); ok {
		return k, true
	}
	// the subject itself, when the scenario pins it to one integer (a witness value)
	if c.sc.Kind == scRegion && c.sc.Lo == c.sc.Hi && !c.sc.Elem && c.sc.Acc == nil && !c.sc.Fields && c.sc.SField == 0 && c.sc.Lo == math.Trunc(c.sc.Lo) && math.Abs(c.sc.Lo) < 1e15 {
		if c.sc.Param < len(c.f.Params) && resolve(v) == ssa.Value(c.f.Params[c.sc.Param]) && isIntType(v.Type()) {
			return int64(c.sc.Lo), true
		}
	}
	switch x := resolve(v).(type) {
	case *ssa.Phi:
		if sel, ok := c.phiSel[x]; ok && sel != ssa.Value(x) {
			return c.intConstOf(sel)
		}
	case *ssa.UnOp:
		if x.Op == token.SUB {
			if k, ok := c.intConstOf(x.X); ok {
				return -k, true
			}
		}
	case *ssa.Call:
		if calleeIs(x, modPath+"/common", "CalculateArithmeticShift") && len(x.Call.Args) == 2 {
			a, ok1 := c.intConstOf(x.Call.Args[0])
			sh, ok2 := c.intConstOf(x.Call.Args[1])
			if ok1 && ok2 && sh > -63 && sh < 63 {
				if sh >= 0 {
					if r := a << uint(sh); r>>uint(sh) == a {
						return r, true
					}
					return 0, false
				}
				return a >> uint(-sh), true
			}
		}
	case *ssa.BinOp:
		if x.Op == token.MUL {
			a, ok1 := c.intConstOf(x.X)
			b, ok2 := c.intConstOf(x.Y)
			if ok1 && ok2 {
				return a * b, true
			}
		}
	}
	if b, ok := resolve(v).(*ssa.BinOp); ok && (b.Op == token.ADD || b.Op == token.SUB) {
		x, okx := c.intConstOf(b.X)
		y, oky := c.intConstOf(b.Y)
		if okx && oky {
			if b.Op == token.ADD {
				return x + y, true
			}
			return x - y, true
		}
	}
	if p, ok := resolve(v).(*ssa.Parameter); ok && c.sc.Consts != "" {
		pre := fmt.Sprintf(",%d=#", paramIndex(c.f, p))
		cs := "," + c.sc.Consts
		if i := strings.Index(cs, pre); i >= 0 {
			rest := cs[i+len(pre):]
			if j := strings.Index(rest, ","); j >= 0 {
				var n int64
				if _, err := fmt.Sscanf(rest[:j], "%d", &n); err == nil {
					return n, true
				}
			}
		}
	}
	return 0, false
}

func isConst(v ssa.Value) bool { _, ok := resolve(v).(*ssa.Const); return ok }

// errValueFails: the error value is certainly non-nil under the scenario.
func (c *simCtx) errValueFails(ev ssa.Value) (bool, bool) {
	ev = resolve(ev)
	var call *ssa.Call
	idx := -1
	switch x := ev.(type) {
	case *ssa.Extract:
		cc, ok := x.Tuple.(*ssa.Call)
		if !ok {
			return false, false
		}
		call, idx = cc, x.Index
	case *ssa.Call:
		call, idx = x, 0
	case *ssa.Phi:
		// the incoming value selected by the path being explored
		if sel, ok := c.phiSel[x]; ok && sel != ssa.Value(x) {
			if isNilConst(sel) {
				return false, true
			}
			if isErrorCtor(sel) {
				return true, true
			}
			if _, isPhi := sel.(*ssa.Phi); !isPhi {
				return c.errValueFails(sel)
			}
		}
		// the incoming value selected under the scenario (an error variable set
		// on the offending branch and returned later), else: all incoming values fail?
		if !c.phiBusy[x] {
			if c.phiBusy == nil {
				c.phiBusy = map[*ssa.Phi]bool{}
			}
			c.phiBusy[x] = true
			pv, uniq := phiValueUnder(c.f, x, c.oracle)
			delete(c.phiBusy, x)
			if uniq && pv != nil && resolve(pv) != ssa.Value(x) {
				if isErrorCtor(resolve(pv)) {
					return true, true
				}
				if _, isPhi := resolve(pv).(*ssa.Phi); !isPhi {
					return c.errValueFails(pv)
				}
			}
		}
		for _, ed := range x.Edges {
			f, k := c.errValueFails(ed)
			if !k || !f {
				return false, false
			}
		}
		return true, true
	case *ssa.MakeInterface, *ssa.ChangeInterface:
		if isErrorCtor(ev) {
			return true, true
		}
		return false, false
	default:
		return false, false
	}
	if isErrorCtor(call) {
		return true, true
	}
	g := calleeOf(call)
	if g == nil {
		return false, false
	}
	// parse failure of subject text
	if c.sc.Kind == scParseFail && idx == 1 && (calleeIs(call, "strconv", "ParseInt") || calleeIs(call, "strconv", "Atoi")) {
		if c.textOfSubject(call.Call.Args[0]) {
			return true, true
		}
		return false, false
	}
	if !c.e.w.InModule(g) || g.Blocks == nil {
		return false, false
	}
	if ei := errResultIndex(g); ei < 0 || (idx != ei && !(idx == 0 && g.Signature.Results().Len() == 1)) {
		return false, false
	}
	sc2, ok := c.mapScenario(call, g)
	if !ok {
		return false, false
	}
	return c.e.alwaysFails(g, sc2, c.depth+1), true
}

// mapScenario: translate the scenario to the callee's parameters.
func (c *simCtx) mapScenario(call *ssa.Call, g *ssa.Function) (scenario, bool) {
	out, ok := c.mapScenario0(call, g)
	if !ok && c.sc.Kind == scRegion && c.sc.Lo == c.sc.Hi && c.sc.Consts != "" && !c.sc.Elem && c.sc.Acc == nil && !c.sc.Fields && c.sc.SField == 0 {
		// a witness evaluation (every input is one concrete integer): a helper that receives
		// values computed from them is evaluated on those values
		first := -1
		all := true
		for i, a := range call.Call.Args {
			if i >= len(g.Params) {
				break
			}
			if isIntType(g.Params[i].Type()) {
				if _, isN := c.intConstOf(a); isN {
					if first < 0 {
						first = i
					}
				} else {
					all = false
				}
			}
		}
		if first >= 0 && all {
			n, _ := c.intConstOf(call.Call.Args[first])
			out = scenario{Kind: scRegion, Param: first, Lo: float64(n), Hi: float64(n)}
			ok = true
		}
	}
	if ok {
		out.Consts = ""
		for i, a := range call.Call.Args {
			if k, isK := resolve(a).(*ssa.Const); isK && k.Value != nil && (k.Value.String() == "true" || k.Value.String() == "false") {
				out.Consts += fmt.Sprintf("%d=%s,", i, k.Value.String())
			} else if n, isN := c.intConstOf(a); isN {
				out.Consts += fmt.Sprintf("%d=#%d,", i, n)
			}
		}
	}
	if ok && c.sc.NonEmptyFn != nil {
		for i, a := range call.Call.Args {
			if ex, isEx := resolve(a).(*ssa.Extract); isEx && ex.Index == 0 {
				if cc, isC := ex.Tuple.(*ssa.Call); isC && calleeOf(cc) == c.sc.NonEmptyFn {
					out.NonEmpty = i + 1
				}
			}
		}
	}
	if ok && c.sc.NonEmpty > 0 && out.NonEmpty == 0 {
		for i, a := range call.Call.Args {
			if c.sc.NonEmpty-1 < len(c.f.Params) && resolve(a) == ssa.Value(c.f.Params[c.sc.NonEmpty-1]) {
				out.NonEmpty = i + 1
			}
		}
	}
	return out, ok
}

func (c *simCtx) mapScenario0(call *ssa.Call, g *ssa.Function) (scenario, bool) {
	args := call.Call.Args
	sc := c.sc
	if sc.Kind == scPairRel {
		i1, i2 := -1, -1
		for i, a := range args {
			if resolve(a) == ssa.Value(c.f.Params[sc.Param]) {
				i1 = i
			}
			if resolve(a) == ssa.Value(c.f.Params[sc.Param2]) {
				i2 = i
			}
		}
		if i1 >= 0 && i2 >= 0 {
			sc.Param, sc.Param2 = i1, i2
			return sc, true
		}
		return sc, false
	}
	for i, a := range args {
		if i >= len(g.Params) {
			break
		}
		ra := resolve(a)
		switch {
		case sc.Acc == nil && c.isSubject(ra):
			// subject itself passed: callee subject is its parameter
			out := sc
			out.Param, out.Elem, out.SField = i, false, 0
			return out, true
		case sc.Acc != nil && c.isSubject(ra):
			out := sc
			out.Param, out.Elem, out.Acc = i, false, nil
			return out, true
		case sc.Acc != nil && c.isBase(ra):
			out := sc
			out.Param, out.Elem = i, false
			return out, true
		case c.isSubjectList(ra):
			out := sc
			out.Param, out.Elem = i, true
			// notation conversion changes the arity by one
			if out.Kind == scArity && ra != ssa.Value(c.f.Params[c.sc.Param]) {
				if isStringSliceOf(g.Params[i].Type()) {
					out.N = convertedArity(c, ra, sc.N)
				}
			}
			return out, true
		case (sc.Kind == scParseFail || sc.Kind == scArity) && sc.Acc == nil && c.splitOfSubject(ra):
			out := sc
			out.Param, out.Elem, out.Fields = i, false, true
			return out, true
		case sc.Acc == nil && sc.SField == 0 && c.fieldHoldingSubject(a) > 0:
			out := sc
			out.Param, out.Elem, out.SField = i, false, c.fieldHoldingSubject(a)
			return out, true
		default:
			// one-element list literal containing the subject
			if vals, ok := sliceLiteral(ra); ok && sc.Acc == nil {
				for _, v := range vals {
					if c.isSubject(v) {
						out := sc
						out.Param, out.Elem = i, true
						return out, true
					}
				}
			}
			// address of the subject struct element (e.g. &out in a loop)
		}
	}
	return sc, false
}

func isStringSliceOf(t types.Type) bool {
	s, ok := t.Underlying().(*types.Slice)
	return ok && isStringType(s.Elem())
}

func convertedArity(c *simCtx, v ssa.Value, n int64) int64 {
	if ex, ok := resolve(v).(*ssa.Extract); ok {
		if call, ok := ex.Tuple.(*ssa.Call); ok {
			if calleeIs(call, modPath+"/shape", "ConvertSpatialIdsToExtendedSpatialIds") && n == 4 {
				return 5
			}
			if calleeIs(call, modPath+"/shape", "ConvertExtendedSpatialIdsToSpatialIds") && n == 5 {
				return 4
			}
		}
	}
	return n
}

func (c *simCtx) oracleCall(call *ssa.Call) (bool, bool) {
	g := calleeOf(call)
	if g == nil {
		return false, false
	}
	// membership test Include(list, nil) / slices.Contains(list, nil)
	if c.sc.Kind == scElemNil && len(call.Call.Args) == 2 && isNilConst(resolve(call.Call.Args[1])) {
		if (funcIs(g, modPath+"/common", "Include") || funcIs(g, "slices", "Contains")) && resolve(call.Call.Args[0]) == ssa.Value(c.f.Params[c.sc.Param]) {
			return true, true
		}
	}
	if !c.e.w.InModule(g) || g.Blocks == nil || c.depth > 4 {
		return false, false
	}
	if b, ok := g.Signature.Results().At(0).Type().Underlying().(*types.Basic); !ok || b.Kind() != types.Bool || g.Signature.Results().Len() != 1 {
		return false, false
	}
	return c.boolResultOf(call, 0)
}

// boolResultOf: value of the idx-th (bool) result of a module call under the
// mapped scenario, if all reachable returns agree.
func (c *simCtx) boolResultOf(call *ssa.Call, idx int) (bool, bool) {
	g := calleeOf(call)
	if g == nil || !c.e.w.InModule(g) || g.Blocks == nil || c.depth > 4 {
		return false, false
	}
	sc2, ok := c.mapScenario(call, g)
	if !ok {
		return false, false
	}
	sub := &simCtx{e: c.e, f: g, sc: sc2, depth: c.depth + 1, boolParams: map[*ssa.Parameter]bool{}}
	for i, a := range call.Call.Args {
		if i < len(g.Params) {
			if k, ok := resolve(a).(*ssa.Const); ok && k.Value != nil && (k.Value.String() == "true" || k.Value.String() == "false") {
				sub.boolParams[g.Params[i]] = k.Value.String() == "true"
			}
		}
	}
	// the helper is evaluated for the VALUE of its result: "assume that unreadable
	// validations reject" has no meaning inside it (for a predicate such as negative(x),
	// true is the rejecting answer); the caller's own test of the result is what the
	// second pass assumes about
	saved := c.e.assumeReject
	c.e.assumeReject = false
	reach := sub.explore(g.Blocks[0], nil)
	c.e.assumeReject = saved
	var val, have bool
	for _, r := range returnsOf(g) {
		if !reach[r.Block()] || idx >= len(r.Results) {
			continue
		}
		v, ok := sub.oracle(r.Results[idx])
		if !ok {
			return false, false
		}
		if have && v != val {
			return false, false
		}
		val, have = v, true
	}
	return val, have
}

// alwaysFails: under the scenario no success return of g is reachable (and,
// for arity scenarios, no constant index into the split is reachable).
func (e *scEngine) alwaysFails(g *ssa.Function, sc scenario, depth int) bool {
	key := fmt.Sprintf("%p/%v/%v", g, sc, e.assumeReject)
	switch e.memo[key] {
	case 1:
		e.undecidedOnSubject = append(e.undecidedOnSubject, e.memoTests[key]...)
		return true
	case 2, 3:
		e.undecidedOnSubject = append(e.undecidedOnSubject, e.memoTests[key]...)
		return false
	}
	if depth > 6 {
		return false
	}
	e.memo[key] = 3
	before := len(e.undecidedOnSubject)
	defer func() {
		if e.memoTests == nil {
			e.memoTests = map[string][]string{}
		}
		if before <= len(e.undecidedOnSubject) {
			e.memoTests[key] = append([]string{}, e.undecidedOnSubject[before:]...)
		}
	}()
	ok, _ := e.check(g, sc, depth)
	if ok {
		e.memo[key] = 1
	} else {
		e.memo[key] = 2
	}
	return ok
}

// check returns whether the scenario always fails, and a witness otherwise.
func (e *scEngine) check(g *ssa.Function, sc scenario, depth int) (bool, string) {
	if g.Blocks == nil {
		return false, "no body"
	}
	if !sc.Elem {
		c := &simCtx{e: e, f: g, sc: sc, depth: depth}
		reach := c.explore(g.Blocks[0], nil)
		ok, why := c.verdict(reach, nil)
		if ok || sc.Param >= len(g.Params) {
			return ok, why
		}
		// the subject is handled inside a loop over a list literal that contains it
		for _, sr := range findSliceRanges(g) {
			vals, isLit := sliceLiteral(sr.X)
			if !isLit {
				vals, isLit = arrayLiteral(stripConv(sr.X))
			}
			if !isLit {
				continue
			}
			has := false
			for _, v := range vals {
				if resolve(v) == ssa.Value(g.Params[sc.Param]) {
					has = true
				}
			}
			if !has {
				continue
			}
			// no iteration may answer success before every element was handled
			early := false
			for _, r := range returnsOf(g) {
				if sr.blocks()[r.Block()] && !e.isFailureReturn(g, r) {
					early = true
				}
			}
			if early {
				continue
			}
			// and every success return lies behind the loop (it cannot be by-passed)
			bypass := false
			for _, r := range returnsOf(g) {
				if reach[r.Block()] && !e.isFailureReturn(g, r) && !sr.Header.Dominates(r.Block()) {
					bypass = true
				}
			}
			if bypass {
				continue
			}
			c2 := &simCtx{e: e, f: g, sc: sc, depth: depth, litLoop: sr}
			reach2 := c2.explore(sr.Body, nil)
			if ok2, _ := c2.verdict(reach2, sr); ok2 {
				return true, ""
			}
		}
		return ok, why
	}
	// element subject: find the loops over the list parameter
	var loops []*sliceRange
	for _, sr := range findSliceRanges(g) {
		c := &simCtx{e: e, f: g, sc: sc, depth: depth}
		if c.isSubjectList(sr.X) {
			loops = append(loops, sr)
		}
	}
	// delegation of the whole list before any loop
	cAll := &simCtx{e: e, f: g, sc: sc, depth: depth}
	reachAll := cAll.explore(g.Blocks[0], nil)
	if ok, _ := cAll.verdict(reachAll, nil); ok {
		return true, ""
	}
	if len(loops) == 0 {
		// elements reached by index (a counted loop, a fused pair loop) or through a
		// closure / iterator: inspected in a form the analysis does not follow
		if acc := indexedAccess(g, sc.Param); acc != "" {
			if e.assumeReject {
				return true, ""
			}
			e.undecidedOnSubject = append(e.undecidedOnSubject, acc)
		}
		return false, "the list is neither inspected element by element nor handed to a validating callee"
	}
	// the first loop (in block order) over the list must fail for a bad element
	var lastWhy string
	for _, sr := range loops {
		c := &simCtx{e: e, f: g, sc: sc, loop: sr, depth: depth}
		stop := map[*ssa.BasicBlock]bool{}
		reach := c.explore(sr.Body, stop)
		ok, why := c.verdict(reach, sr)
		if ok {
			return true, ""
		}
		lastWhy = why
		break
	}
	return false, lastWhy
}

// explore: simulate with the loop-entry refinement for ranges over
// strings.Split(subject): such a slice is non-empty, so the loop body runs.
func (c *simCtx) explore(start *ssa.BasicBlock, stop map[*ssa.BasicBlock]bool) map[*ssa.BasicBlock]bool {
	blocked := map[*ssa.BasicBlock]*ssa.BasicBlock{} // header -> done (edge blocked)
	if c.sc.Kind == scParseFail || c.sc.Kind == scArity {
		for _, sr := range findSliceRanges(c.f) {
			if c.splitOfSubject(sr.X) {
				blocked[sr.Header] = sr.Done
			}
		}
	}
	if c.sc.Kind == scParseFail || c.sc.Kind == scArity {
		for _, blk := range c.f.Blocks {
			t, fl, ifi := ifSuccs(blk)
			if ifi == nil {
				continue
			}
			cmp, ok := ifi.Cond.(*ssa.BinOp)
			if !ok || cmp.Op != token.LSS {
				continue
			}
			var phi *ssa.Phi
			delta := int64(0)
			if p, ok := cmp.X.(*ssa.Phi); ok {
				phi = p
			} else if inc, ok := cmp.X.(*ssa.BinOp); ok && inc.Op == token.ADD {
				// rangeindex form: (phi + 1) < bound with phi starting at -1
				if p, ok := inc.X.(*ssa.Phi); ok {
					if k, ok := constInt(inc.Y); ok {
						phi, delta = p, k
					}
				}
			}
			if phi == nil || phi.Block() != blk {
				continue
			}
			init, hasInit := int64(0), false
			for _, e := range phi.Edges {
				if k, ok := constInt(e); ok {
					init, hasInit = k+delta, true
				}
			}
			if !hasInit {
				continue
			}
			enters := false
			if k, ok := constInt(cmp.Y); ok && init < k {
				enters = true
			}
			if lc, ok := resolve(cmp.Y).(*ssa.Call); ok && builtinName(lc) == "len" && c.splitOfSubject(lc.Call.Args[0]) && init == 0 {
				enters = true
			}
			if enters {
				_ = t
				blocked[blk] = fl
			}
		}
	}
	emptyLoops := map[*ssa.BasicBlock]*ssa.BasicBlock{} // header -> body (edge blocked)
	if c.sc.Kind == scEmpty {
		for _, sr := range findSliceRanges(c.f) {
			if c.isSubject(sr.X) {
				emptyLoops[sr.Header] = sr.Body
			}
		}
		if c.sc.Param < len(c.f.Params) {
			for _, rl := range rotatedLoopsOver(c.f, c.f.Params[c.sc.Param]) {
				emptyLoops[rl.Guard] = rl.Body
			}
		}
	}
	if c.sc.NonEmptyFn != nil {
		for _, sr := range findSliceRanges(c.f) {
			if ex, ok := resolve(sr.X).(*ssa.Extract); ok && ex.Index == 0 {
				if call, ok := ex.Tuple.(*ssa.Call); ok && calleeOf(call) == c.sc.NonEmptyFn {
					blocked[sr.Header] = sr.Done
				}
			}
		}
		// the same list traversed by a counted loop
		instrs(c.f, func(in ssa.Instruction) {
			call, ok := in.(*ssa.Call)
			if !ok || calleeOf(call) != c.sc.NonEmptyFn {
				return
			}
			if ex := extractOf(call, 0); ex != nil {
				for hdr, done := range countedLoopsOver(c.f, ex) {
					blocked[hdr] = done
				}
				for _, rl := range rotatedLoopsOver(c.f, ex) {
					blocked[rl.Guard] = rl.Done
				}
			}
		})
	}
	if c.sc.NonEmpty > 0 && c.sc.NonEmpty-1 < len(c.f.Params) {
		// counted loops over the non-empty list: for i := 0; i < len(list); i++
		for hdr, done := range countedLoopsOver(c.f, c.f.Params[c.sc.NonEmpty-1]) {
			blocked[hdr] = done
		}
		for _, rl := range rotatedLoopsOver(c.f, c.f.Params[c.sc.NonEmpty-1]) {
			blocked[rl.Guard] = rl.Done
		}
		for _, sr := range findSliceRanges(c.f) {
			if resolve(sr.X) == ssa.Value(c.f.Params[c.sc.NonEmpty-1]) {
				blocked[sr.Header] = sr.Done
				continue
			}
			// a list built one element per element of the non-empty list (pre-parsed copies)
			if _, isParam := resolve(sr.X).(*ssa.Parameter); !isParam {
				if src, st, _, _ := mapChain(c.e.w, c.f, sr.X, 0); st == Discharged && resolve(src) == ssa.Value(c.f.Params[c.sc.NonEmpty-1]) {
					blocked[sr.Header] = sr.Done
				}
			}
		}
	}
	for iter := 0; iter < 3; iter++ {
		seen := map[*ssa.BasicBlock]bool{}
		backEdge := map[*ssa.BasicBlock]bool{}
		// error-typed and boolean phis are tracked along the path (a single-exit `err`
		// merged from several arms, a flag): the value selected by the entering edge
		type visitKey struct {
			b   *ssa.BasicBlock
			env string
		}
		visited := map[visitKey]bool{}
		budget := 3000
		var walk func(b, from *ssa.BasicBlock)
		walk = func(b, from *ssa.BasicBlock) {
			if stop[b] {
				return
			}
			if _, isHdr := blocked[b]; isHdr && from != nil && seen[b] && (b.Dominates(from) || len(rotatedGuardOf(b)) > 0) {
				// reached again from inside the loop (a re-walk of the way in under other tracked
				// values is not an iteration)
				backEdge[b] = true
			}
			// select the incoming values of b's tracked phis
			saved := c.phiSel
			changedEnv := false
			if from != nil {
				for _, in := range b.Instrs {
					ph, ok := in.(*ssa.Phi)
					if !ok {
						break
					}
					if !isErrorType(ph.Type()) {
						bt, isB := ph.Type().Underlying().(*types.Basic)
						if !isB {
							// a slice / pointer / map that starts out nil (built lazily in the first pass of a
							// loop): tracked so that `x == nil` is decided on the path where it still is nil
							nilStart := false
							switch ph.Type().Underlying().(type) {
							case *types.Slice, *types.Pointer, *types.Map:
								for _, e := range ph.Edges {
									if isNilConst(e) {
										nilStart = true
									}
								}
							}
							if !nilStart {
								continue
							}
							bt = types.Typ[types.Bool] // handled like a flag below
						}
						if bt.Kind() != types.Bool {
							// numbers too (minIndex := 0 or -2^z chosen by a flag), but not loop counters
							if bt.Info()&types.IsNumeric == 0 {
								continue
							}
							loopHdr := false
							for _, pred := range b.Preds {
								if b.Dominates(pred) {
									loopHdr = true
								}
							}
							if loopHdr && !constStatePhi(ph, 0, map[*ssa.Phi]bool{}) {
								// a counter or state variable: only its constant initial value is tracked (the
								// first pass of the loop is decided, later passes are not)
								for k, pred := range b.Preds {
									if pred != from || k >= len(ph.Edges) {
										continue
									}
									if !changedEnv {
										n := map[*ssa.Phi]ssa.Value{}
										for p2, v2 := range c.phiSel {
											n[p2] = v2
										}
										c.phiSel = n
										changedEnv = true
									}
									if _, isK := ph.Edges[k].(*ssa.Const); isK && !b.Dominates(pred) {
										c.phiSel[ph] = ph.Edges[k]
									} else {
										delete(c.phiSel, ph)
									}
									break
								}
								continue
							}
						}
					}
					for k, pred := range b.Preds {
						if pred != from || k >= len(ph.Edges) {
							continue
						}
						v := ph.Edges[k]
						if q, isPhi := v.(*ssa.Phi); isPhi {
							if sel, ok := c.phiSel[q]; ok {
								v = sel
							}
						}
						if !changedEnv {
							n := map[*ssa.Phi]ssa.Value{}
							for p2, v2 := range c.phiSel {
								n[p2] = v2
							}
							c.phiSel = n
							changedEnv = true
						}
						c.phiSel[ph] = v
						break
					}
				}
			}
			defer func() { c.phiSel = saved }()
			if seen[b] {
				// revisit only when the tracked values differ from every earlier visit
				if len(c.phiSel) == 0 || budget <= 0 {
					return
				}
				var parts []string
				for p2, v2 := range c.phiSel {
					if p2.Block() == b {
						parts = append(parts, p2.Name()+"="+v2.Name())
					}
				}
				if len(parts) == 0 {
					return
				}
				sort.Strings(parts)
				key := visitKey{b, strings.Join(parts, ",")}
				if visited[key] {
					return
				}
				visited[key] = true
				budget--
			} else {
				var parts []string
				for p2, v2 := range c.phiSel {
					if p2.Block() == b {
						parts = append(parts, p2.Name()+"="+v2.Name())
					}
				}
				sort.Strings(parts)
				visited[visitKey{b, strings.Join(parts, ",")}] = true
			}
			seen[b] = true
			t, f, i := ifSuccs(b)
			if i != nil && os.Getenv("SID_DEBUG_SC") != "" && strings.Contains(c.f.Name(), os.Getenv("SID_DEBUG_SC")) {
				o, k := c.oracle(i.Cond)
				fmt.Fprintf(os.Stderr, "SC %s blk %d %s: oracle=%v/%v mentions=%v evaluable=%v failing=%d assumeReject=%v\n", c.f.Name(), b.Index, shortInstr(i), o, k, c.mentionsSubject(i.Cond, 0), c.evaluable(i.Cond), len(c.failingSides(b)), c.e.assumeReject)
			}
			if i != nil {
				if out, known := c.oracle(i.Cond); known {
					if out {
						walk(t, b)
					} else {
						walk(f, b)
					}
					return
				}
				if c.mentionsSubject(i.Cond, 0) && !c.evaluable(i.Cond) {
					if fs := c.failingSides(b); len(fs) > 0 {
						c.e.undecidedOnSubject = append(c.e.undecidedOnSubject, shortInstr(i)+" in "+c.e.w.FuncName(c.f))
						if c.e.assumeReject {
							for _, s := range fs {
								walk(s, b)
							}
							return
						}
					}
				}
			}
			for _, s := range b.Succs {
				if d, ok := blocked[b]; ok && s == d {
					continue
				}
				if d, ok := emptyLoops[b]; ok && s == d {
					continue
				}
				walk(s, b)
			}
		}
		walk(start, nil)
		changed := false
		for h := range backEdge {
			if _, ok := blocked[h]; ok {
				delete(blocked, h)
				changed = true
			}
		}
		if !changed {
			return seen
		}
	}
	return simulate(start, stop, c.oracle)
}

func (c *simCtx) verdict(reach map[*ssa.BasicBlock]bool, loop *sliceRange) (bool, string) {
	w := c.e.w
	if loop != nil {
		if reach[loop.Header] {
			return false, "an iteration with such an element can continue with the next element (no error)"
		}
		// leaving the loop (break with a pending error, single exit) is judged by the returns
		// that are reachable afterwards, below
	}
	for _, r := range returnsOf(c.f) {
		if !reach[r.Block()] {
			continue
		}
		if !c.e.isFailureReturn(c.f, r) {
			// a returned error value that certainly fails under the scenario
			traced := false
			if ei := errResultIndex(c.f); ei >= 0 && ei < len(r.Results) {
				fails, known := c.errValueFails(r.Results[ei])
				if known && fails {
					continue
				}
				traced = known // the error of a module callee that can succeed under the scenario
				// ... unless this return is only reached on a branch decided by another result of
				// the same call (if err, ok := validate(x); !ok { return 0, err }): which of the
				// callee's returns produced the error is then not "any of them"
				if traced && guardedBySibling(c.f, r.Results[ei], r.Block()) {
					traced = false
				}
			}
			// a returned error value that is neither the nil constant nor recognisably an
			// error nor a callee's result (a variable, a value from another package): not
			// evidence of success
			// failure reported through a constant result ("" of the shift helpers): a result that
			// a module callee computes from the argument may be that constant
			if c.e.failConst[c.f] != nil && len(r.Results) > 0 {
				if ld, ok := r.Results[0].(*ssa.UnOp); ok && ld.Op == token.MUL {
					if _, isAl := ld.X.(*ssa.Alloc); isAl {
						// a result variable whose content at this return was not determined
						if c.e.assumeReject {
							continue
						}
						c.e.undecidedOnSubject = append(c.e.undecidedOnSubject, "the result returned at "+w.Pos(r.Pos())+" is a variable whose content was not determined")
					}
				}
				// the result of calling a function value that a module helper built from the
				// argument (return shifterOf(id)(x, y, v)): what it returns is not followed
				if call, ok := resolve(r.Results[0]).(*ssa.Call); ok && calleeOf(call) == nil && !call.Call.IsInvoke() {
					if mk, ok := resolve(call.Call.Value).(*ssa.Call); ok {
						if g := calleeOf(mk); g != nil && c.e.w.InModule(g) {
							built := false
							for _, a := range mk.Call.Args {
								if c.mentionsSubject(a, 0) {
									built = true
								}
							}
							if built {
								if c.e.assumeReject {
									continue
								}
								c.e.undecidedOnSubject = append(c.e.undecidedOnSubject, "the result returned at "+w.Pos(r.Pos())+" comes from a function value built from the argument by "+g.Name())
							}
						}
					}
				}
				if call, ok := resolve(r.Results[0]).(*ssa.Call); ok {
					if g := calleeOf(call); g != nil && c.e.w.InModule(g) {
						mentions := false
						for _, a := range call.Call.Args {
							if c.mentionsSubject(a, 0) {
								mentions = true
							}
						}
						if mentions {
							if c.e.assumeReject {
								continue
							}
							c.e.undecidedOnSubject = append(c.e.undecidedOnSubject, "the result returned at "+w.Pos(r.Pos())+" is computed from the argument by "+g.Name())
						}
					}
				}
			}
			if ei := errResultIndex(c.f); ei >= 0 && !traced && c.e.failConst[c.f] == nil && classifyReturn(c.f, r) == retUnknown {
				if c.e.assumeReject {
					continue
				}
				c.e.undecidedOnSubject = append(c.e.undecidedOnSubject, "return at "+w.Pos(r.Pos())+" carries an error value the analysis cannot classify")
			}
			return false, "a success return is reachable at " + w.Pos(r.Pos())
		}
	}
	if c.sc.Kind == scNil || c.sc.Kind == scElemNil {
		bad := ""
		instrs(c.f, func(in ssa.Instruction) {
			if !reach[in.Block()] || bad != "" {
				return
			}
			var ptr ssa.Value
			switch x := in.(type) {
			case *ssa.UnOp:
				if x.Op == token.MUL {
					ptr = x.X
				}
			case *ssa.FieldAddr:
				ptr = x.X
			}
			if ptr == nil {
				return
			}
			ptr = resolve(ptr)
			if c.sc.Kind == scNil && ptr == ssa.Value(c.f.Params[c.sc.Param]) {
				bad = "the possibly-nil argument is dereferenced at " + w.Pos(in.Pos()) + " before any nil check (panic)"
			}
			if c.sc.Kind == scElemNil {
				if ld, ok := loadOf(ptr); ok {
					if ia, ok := ld.(*ssa.IndexAddr); ok && resolve(ia.X) == ssa.Value(c.f.Params[c.sc.Param]) {
						bad = "an element of the list is dereferenced at " + w.Pos(in.Pos()) + " before the nil-element check (panic)"
					}
				}
			}
		})
		if bad != "" {
			return false, bad
		}
	}
	if c.sc.Kind == scEmpty {
		bad := ""
		instrs(c.f, func(in ssa.Instruction) {
			if !reach[in.Block()] || bad != "" {
				return
			}
			switch x := in.(type) {
			case *ssa.IndexAddr:
				if c.isSubject(x.X) {
					bad = "element access " + shortInstr(x) + " is reachable for an empty list (panic)"
				}
			case *ssa.Slice:
				if c.isSubject(x.X) && (x.Low != nil || x.High != nil) {
					if k, ok := constInt(x.Low); x.Low != nil && (!ok || k > 0) {
						bad = "re-slicing " + shortInstr(x) + " is reachable for an empty list (panic)"
					}
				}
			}
		})
		if bad != "" {
			return false, bad
		}
	}
	if c.sc.Kind == scArity {
		// no constant index into the split may be reachable
		bad := ""
		instrs(c.f, func(in ssa.Instruction) {
			ia, ok := in.(*ssa.IndexAddr)
			if !ok || !reach[ia.Block()] {
				return
			}
			if _, isConst := constInt(ia.Index); !isConst {
				return
			}
			if c.splitOfSubject(ia.X) || c.derivedFromSplit(ia.X) {
				bad = "constant index into the split ID at " + w.Pos(ia.Pos()) + " is reachable without a length check (index out of range panic)"
			}
		})
		if bad != "" {
			return false, bad
		}
	}
	return true, ""
}

// derivedFromSplit: slice built element-wise from the split of the subject
// (one append per iteration of a range over it).
func (c *simCtx) derivedFromSplit(v ssa.Value) bool {
	ai := appendChain(v)
	if len(ai.Appends) != 1 {
		return false
	}
	for _, sr := range findSliceRanges(c.f) {
		if c.splitOfSubject(sr.X) && sr.blocks()[ai.Appends[0].Block()] {
			return true
		}
	}
	return false
}

// mentionsSubject: the value is computed from the scenario's subject (the
// argument itself, its text, its list, a getter on it, or a call that
// receives one of these).
func (c *simCtx) mentionsSubject(v ssa.Value, depth int) bool {
	if v == nil || depth > 6 {
		return false
	}
	if c.isSubject(v) || c.textOfSubject(v) || c.isSubjectList(v) || c.splitOfSubject(v) {
		return true
	}
	// the subject travels inside a struct parameter: the whole struct mentions it
	if !c.sc.Elem && c.sc.SField > 0 && c.sc.Param < len(c.f.Params) {
		p := ssa.Value(c.f.Params[c.sc.Param])
		rv := resolve(v)
		if rv == p {
			return true
		}
		if ld, ok := loadOf(rv); ok {
			if al, ok := ld.(*ssa.Alloc); ok {
				if sv := singleStore2(al); sv != nil && sv == p {
					return true
				}
			}
		}
	}
	if c.sc.Kind == scPairRel && c.sc.Acc == nil {
		for _, pi := range []int{c.sc.Param, c.sc.Param2} {
			if pi < len(c.f.Params) && resolve(v) == ssa.Value(c.f.Params[pi]) {
				return true
			}
		}
	}
	if c.sc.Acc != nil && c.getterOfBase(v) != nil {
		return true
	}
	switch x := resolve(v).(type) {
	case *ssa.BinOp:
		return c.mentionsSubject(x.X, depth+1) || c.mentionsSubject(x.Y, depth+1)
	case *ssa.Alloc:
		// a local aggregate: whatever was stored into it or its fields / elements
		if x.Referrers() == nil {
			return false
		}
		for _, ref := range *x.Referrers() {
			switch y := ref.(type) {
			case *ssa.Store:
				if y.Addr == ssa.Value(x) && c.mentionsSubject(y.Val, depth+1) {
					return true
				}
			case *ssa.FieldAddr, *ssa.IndexAddr:
				for _, r2 := range *y.(ssa.Value).Referrers() {
					if st, ok := r2.(*ssa.Store); ok && st.Addr == y.(ssa.Value) && c.mentionsSubject(st.Val, depth+1) {
						return true
					}
				}
			}
		}
		return false
	case *ssa.UnOp:
		// a local variable that is assigned under a test of the subject (err = errInvalid in
		// one arm of a switch over the argument's fields; a flag set on the failing edge)
		// carries what that test found out
		if x.Op == token.MUL {
			if al, ok := x.X.(*ssa.Alloc); ok && c.assignedUnderSubjectTest(al, depth) {
				return true
			}
		}
		return c.mentionsSubject(x.X, depth+1)
	case *ssa.Convert:
		return c.mentionsSubject(x.X, depth+1)
	case *ssa.Extract:
		return c.mentionsSubject(x.Tuple, depth+1)
	case *ssa.Phi:
		for _, e := range x.Edges {
			if c.mentionsSubject(e, depth+1) {
				return true
			}
		}
	case *ssa.Lookup:
		return c.mentionsSubject(x.Index, depth+1) || c.mentionsSubject(x.X, depth+1)
	case *ssa.Index:
		return c.mentionsSubject(x.X, depth+1)
	case *ssa.IndexAddr:
		return c.mentionsSubject(x.X, depth+1)
	case *ssa.Field:
		return c.mentionsSubject(x.X, depth+1)
	case *ssa.FieldAddr:
		return c.mentionsSubject(x.X, depth+1)
	case *ssa.Slice:
		return c.mentionsSubject(x.X, depth+1)
	case *ssa.MakeInterface:
		return c.mentionsSubject(x.X, depth+1)
	case *ssa.Call:
		for _, a := range x.Call.Args {
			if c.mentionsSubject(a, depth+1) {
				return true
			}
		}
		if x.Call.IsInvoke() {
			return c.mentionsSubject(x.Call.Value, depth+1)
		}
		// a closure that captured the subject (check := func() bool { ... id ... })
		if mc, ok := resolve(x.Call.Value).(*ssa.MakeClosure); ok {
			for _, b := range mc.Bindings {
				if c.mentionsSubject(b, depth+1) {
					return true
				}
			}
		}
	case *ssa.MakeClosure:
		for _, b := range x.Bindings {
			if c.mentionsSubject(b, depth+1) {
				return true
			}
		}
	}
	return false
}

// failingSides: the successors of the branch that lead to failure returns
// only (the branch then has the shape of a validation, as opposed to a loop
// bound or a case distinction of the computation).
func (c *simCtx) failingSides(b *ssa.BasicBlock) []*ssa.BasicBlock {
	var out []*ssa.BasicBlock
	for _, s := range b.Succs {
		reach := reachableFrom(s, nil)
		any, all := false, true
		for _, ret := range returnsOf(c.f) {
			if reach[ret.Block()] {
				any = true
				if !c.e.isFailureReturn(c.f, ret) {
					// a return whose error operand cannot be classified (return err == nil, err) is
					// not a definite success either
					if errResultIndex(c.f) >= 0 && c.e.failConst[c.f] == nil && classifyReturn(c.f, ret) == retUnknown {
						continue
					}
					all = false
				}
			}
		}
		if any && all {
			out = append(out, s)
		}
	}
	if len(out) > 0 {
		return out
	}
	// a chain of tests (switch { case a(x): ..; case b(x): ..; default: fail }): the side that
	// leads straight to the next unreadable test of the subject, which in turn has a
	// failing side, is the side "towards rejection"
	if c.chainDepth < 4 {
		for _, s := range b.Succs {
			_, _, ifi := ifSuccs(s)
			if ifi == nil || s == b || len(s.Preds) != 1 {
				continue
			}
			if !c.mentionsSubject(ifi.Cond, 0) || c.evaluable(ifi.Cond) {
				continue
			}
			if _, known := c.oracle(ifi.Cond); known {
				continue
			}
			c.chainDepth++
			next := c.failingSides(s)
			c.chainDepth--
			if len(next) > 0 {
				out = append(out, s)
			}
		}
	}
	return out
}

// evaluable: the condition is a comparison of arithmetic over the subject,
// constants and quantities that do not depend on the subject (other
// parameters, their getters, calls on them): its outcome then really depends
// on the data, it is not an unrecognised validation idiom.
func (c *simCtx) evaluable(cond ssa.Value) bool {
	if c.sc.Kind != scRegion && c.sc.Kind != scPairRel {
		return false
	}
	b, ok := resolve(cond).(*ssa.BinOp)
	if !ok {
		return false
	}
	switch b.Op {
	case token.LSS, token.LEQ, token.GTR, token.GEQ, token.EQL, token.NEQ:
	default:
		return false
	}
	return c.arith(b.X, 0) && c.arith(b.Y, 0)
}

func (c *simCtx) arith(v ssa.Value, depth int) bool {
	if depth > 8 {
		return false
	}
	if cv, ok := v.(*ssa.Convert); ok {
		return c.arith(cv.X, depth+1)
	}
	v = resolve(v)
	if _, _, ok := c.regionOf(v); ok {
		return true
	}
	if !c.mentionsSubject(v, 0) {
		// independent of the subject: an arbitrary but fixed quantity -- provided it really is
		// a free input (another parameter, a field or getter of one, constants, arithmetic and
		// 2^z of those).  A bound read from a local array, a table, a map or computed by a
		// helper the oracle cannot evaluate is a constant it failed to read, not "any value"
		b, isB := v.Type().Underlying().(*types.Basic)
		return isB && b.Info()&types.IsNumeric != 0 && c.freeQuantity(v, 0)
	}
	switch x := v.(type) {
	case *ssa.BinOp:
		switch x.Op {
		case token.ADD, token.SUB, token.MUL:
			return c.arith(x.X, depth+1) && c.arith(x.Y, depth+1)
		}
	case *ssa.UnOp:
		if x.Op == token.SUB {
			return c.arith(x.X, depth+1)
		}
	case *ssa.Phi:
		for _, e := range x.Edges {
			if !c.arith(e, depth+1) {
				return false
			}
		}
		return true
	}
	return false
}

// boundsOf: bounds of a quantity that does not depend on the subject but has
// a known shape: a constant, 2^z (CalculateArithmeticShift(1, z), 1 << z,
// math.Pow(2, z), math.Ldexp(1, z)) which is at least 1, its negation, +-
// constants, and conversions that keep the value.
func (c *simCtx) boundsOf(v ssa.Value, depth int) (float64, float64, bool) {
	if depth > 5 {
		return 0, 0, false
	}
	if cv, ok := v.(*ssa.Convert); ok {
		lo, hi, ok := c.boundsOf(cv.X, depth+1)
		if !ok {
			return 0, 0, false
		}
		if bt, isB := cv.Type().Underlying().(*types.Basic); isB && bt.Info()&types.IsUnsigned != 0 && lo < 0 {
			return 0, 0, false
		}
		return lo, hi, true
	}
	v = resolve(v)
	if ph, ok := v.(*ssa.Phi); ok {
		if sel, ok := c.phiSel[ph]; ok && sel != ssa.Value(ph) {
			return c.boundsOf(sel, depth+1)
		}
	}
	if k, ok := c.constUnder(v); ok {
		return k, k, true
	}
	big := math.Pow(2, 62)
	switch x := v.(type) {
	case *ssa.Call:
		if calleeIs(x, modPath+"/common", "CalculateArithmeticShift") {
			if k, ok := constInt(x.Call.Args[0]); ok && k == 1 {
				if sh, known := c.intConstOf(x.Call.Args[1]); known && sh >= 0 && sh <= 62 {
					p := math.Pow(2, float64(sh))
					return p, p, true
				}
				return 0, big, true // 2^z, or 0 when shifted out
			}
		}
		if calleeIs(x, "math", "Pow") {
			if k, ok := constFloat(x.Call.Args[0]); ok && k == 2 {
				return 0, math.Inf(1), true
			}
		}
		if calleeIs(x, "math", "Ldexp") {
			if k, ok := constFloat(x.Call.Args[0]); ok && k == 1 {
				return 0, math.Inf(1), true
			}
		}
	case *ssa.BinOp:
		switch x.Op {
		case token.SHL:
			if k, ok := constInt(x.X); ok && k == 1 {
				return 0, big, true
			}
		case token.ADD, token.SUB:
			alo, ahi, ok1 := c.boundsOf(x.X, depth+1)
			blo, bhi, ok2 := c.boundsOf(x.Y, depth+1)
			if ok1 && ok2 {
				if x.Op == token.ADD {
					return alo + blo, ahi + bhi, true
				}
				return alo - bhi, ahi - blo, true
			}
		}
	case *ssa.UnOp:
		if x.Op == token.SUB {
			lo, hi, ok := c.boundsOf(x.X, depth+1)
			return -hi, -lo, ok
		}
	}
	return 0, 0, false
}

// decideCmp2: x op y for every x in [xlo,xhi] and y in [ylo,yhi]?
func decideCmp2(op token.Token, xlo, xhi, ylo, yhi float64) (bool, bool) {
	switch op {
	case token.LSS:
		if xhi < ylo {
			return true, true
		}
		if xlo >= yhi {
			return false, true
		}
	case token.LEQ:
		if xhi <= ylo {
			return true, true
		}
		if xlo > yhi {
			return false, true
		}
	case token.GTR:
		if xlo > yhi {
			return true, true
		}
		if xhi <= ylo {
			return false, true
		}
	case token.GEQ:
		if xlo >= yhi {
			return true, true
		}
		if xhi < ylo {
			return false, true
		}
	case token.EQL:
		if xhi < ylo || xlo > yhi {
			return false, true
		}
	case token.NEQ:
		if xhi < ylo || xlo > yhi {
			return true, true
		}
	}
	return false, false
}

// fieldHoldingSubject: v is (a load of / pointer to) a local struct one of
// whose fields was assigned the subject and nothing else: 1 + field index.
func (c *simCtx) fieldHoldingSubject(v ssa.Value) int {
	var al *ssa.Alloc
	switch x := stripConv(v).(type) {
	case *ssa.UnOp:
		if x.Op == token.MUL {
			al, _ = x.X.(*ssa.Alloc)
		}
	case *ssa.Alloc:
		al = x
	}
	if al == nil || al.Referrers() == nil {
		return 0
	}
	if _, isStruct := al.Type().(*types.Pointer).Elem().Underlying().(*types.Struct); !isStruct {
		return 0
	}
	out := 0
	for _, ref := range *al.Referrers() {
		fa, ok := ref.(*ssa.FieldAddr)
		if !ok {
			continue
		}
		n, hit := 0, false
		for _, r2 := range *fa.Referrers() {
			if st, ok := r2.(*ssa.Store); ok && st.Addr == ssa.Value(fa) {
				n++
				if c.isSubject(st.Val) {
					hit = true
				}
			}
		}
		if hit && n == 1 {
			out = fa.Field + 1
		}
	}
	return out
}

// indexedAccess: the list parameter is indexed, sliced, captured by a closure or
// handed to a call outside a range loop the engine recognises.
func indexedAccess(g *ssa.Function, param int) string {
	if param >= len(g.Params) {
		return ""
	}
	p := g.Params[param]
	if p.Referrers() == nil {
		return ""
	}
	for _, ref := range *p.Referrers() {
		switch x := ref.(type) {
		case *ssa.IndexAddr:
			return "element access " + shortInstr(x) + " in " + g.Name()
		case *ssa.Slice:
			return "slice " + shortInstr(x) + " in " + g.Name()
		case *ssa.MakeClosure:
			return "captured by a closure in " + g.Name()
		case *ssa.Store:
			return "stored in a variable in " + g.Name()
		case *ssa.Call:
			if bn := builtinName(x); bn == "len" || bn == "cap" {
				continue
			}
			return "handed to " + shortInstr(x) + " in " + g.Name()
		case *ssa.Range:
			return "iterated by " + shortInstr(x) + " in " + g.Name()
		}
	}
	return ""
}

// countedLoopsOver: loop headers of the form `i < len(list)` with i a counter
// that starts at the constant 0; maps the header to its exit successor.
func countedLoopsOver(f *ssa.Function, list ssa.Value) map[*ssa.BasicBlock]*ssa.BasicBlock {
	out := map[*ssa.BasicBlock]*ssa.BasicBlock{}
	for _, blk := range f.Blocks {
		_, fl, ifi := ifSuccs(blk)
		if ifi == nil {
			continue
		}
		cmp, ok := ifi.Cond.(*ssa.BinOp)
		if !ok || cmp.Op != token.LSS {
			continue
		}
		lc, ok := resolve(cmp.Y).(*ssa.Call)
		if !ok || builtinName(lc) != "len" || resolve(lc.Call.Args[0]) != resolve(list) {
			continue
		}
		phi, ok := cmp.X.(*ssa.Phi)
		if !ok || phi.Block() != blk {
			continue
		}
		zero, unit := false, true
		for i, e := range phi.Edges {
			if k, isK := constInt(e); isK && k == 0 && !blk.Dominates(blk.Preds[i]) {
				zero = true
				continue
			}
			// every other incoming value is the counter plus one (a stride other than 1, or a
			// counter that jumps, does not visit every position)
			inc, ok := resolve(e).(*ssa.BinOp)
			if !ok || inc.Op != token.ADD || stripConv(inc.X) != ssa.Value(phi) {
				unit = false
				continue
			}
			if k, isK := constInt(inc.Y); !isK || k != 1 {
				unit = false
			}
		}
		if zero && unit {
			out[blk] = fl
		}
	}
	return out
}

// rotatedGuardOf: b is the guard block in front of a rotated loop (its successor is a
// loop header that b does not belong to): non-nil when b has such a successor.
func rotatedGuardOf(b *ssa.BasicBlock) []*ssa.BasicBlock {
	var out []*ssa.BasicBlock
	for _, s := range b.Succs {
		for _, p := range s.Preds {
			if p != b && s.Dominates(p) {
				out = append(out, s)
			}
		}
	}
	return out
}

// constStatePhi: every value the phi can take is a constant (directly or through
// phis of constants): the state variable of a state machine, not a counter.
func constStatePhi(p *ssa.Phi, depth int, seen map[*ssa.Phi]bool) bool {
	if depth > 6 {
		return false
	}
	if seen[p] {
		return true
	}
	seen[p] = true
	for _, e := range p.Edges {
		switch x := e.(type) {
		case *ssa.Const:
		case *ssa.Phi:
			if !constStatePhi(x, depth+1, seen) {
				return false
			}
		default:
			return false
		}
	}
	return true
}

// rotatedLoop: the form go/ssa gives `for i := range len(list)` (and range n):
// a guard `0 < n` in front, the counter phi at the top of the body, the
// increment and the test `i+1 < n` in the latch.
type rotatedLoop struct {
	Guard, Body, Latch, Done *ssa.BasicBlock
	Phi                      *ssa.Phi
}

func rotatedLoopsOver(f *ssa.Function, list ssa.Value) []rotatedLoop {
	var out []rotatedLoop
	isLen := func(v ssa.Value) bool {
		lc, ok := resolve(v).(*ssa.Call)
		return ok && builtinName(lc) == "len" && resolve(lc.Call.Args[0]) == resolve(list)
	}
	for _, body := range f.Blocks {
		for _, in := range body.Instrs {
			phi, ok := in.(*ssa.Phi)
			if !ok {
				break
			}
			if len(phi.Edges) != 2 || len(body.Preds) != 2 || !isIntType(phi.Type()) {
				continue
			}
			var guard, latch *ssa.BasicBlock
			for i, e := range phi.Edges {
				pred := body.Preds[i]
				if k, isK := constInt(e); isK && k == 0 && !body.Dominates(pred) {
					guard = pred
					continue
				}
				inc, ok := resolve(e).(*ssa.BinOp)
				if ok && inc.Op == token.ADD && stripConv(inc.X) == ssa.Value(phi) {
					if k, isK := constInt(inc.Y); isK && k == 1 && body.Dominates(pred) {
						t, _, ifi := ifSuccs(pred)
						if ifi != nil && t == body {
							if c, isC := ifi.Cond.(*ssa.BinOp); isC && c.Op == token.LSS && resolve(c.X) == ssa.Value(inc) && isLen(c.Y) {
								latch = pred
							}
						}
					}
				}
			}
			if guard == nil || latch == nil {
				continue
			}
			t, fl, ifi := ifSuccs(guard)
			if ifi == nil || t != body {
				continue
			}
			c, isC := ifi.Cond.(*ssa.BinOp)
			if !isC || c.Op != token.LSS || !isLen(c.Y) {
				continue
			}
			if k, isK := constInt(c.X); !isK || k != 0 {
				continue
			}
			out = append(out, rotatedLoop{Guard: guard, Body: body, Latch: latch, Done: fl, Phi: phi})
		}
	}
	return out
}

// guardedBySibling: v is one result of a call, and the block is reached only
// through a branch whose condition is another result of that same call.
func guardedBySibling(f *ssa.Function, v ssa.Value, at *ssa.BasicBlock) bool {
	ex, ok := resolve(v).(*ssa.Extract)
	if !ok {
		return false
	}
	for _, blk := range f.Blocks {
		t, fl, ifi := ifSuccs(blk)
		if ifi == nil {
			continue
		}
		c := resolve(ifi.Cond)
		if u, ok := c.(*ssa.UnOp); ok && u.Op == token.NOT {
			c = resolve(u.X)
		}
		ce, ok := c.(*ssa.Extract)
		if !ok || ce.Tuple != ex.Tuple || ce.Index == ex.Index {
			continue
		}
		for _, s := range []*ssa.BasicBlock{t, fl} {
			if s == at || blockDominatedByEdge(f, blk, s, at) {
				return true
			}
		}
	}
	return false
}

// assignedUnderSubjectTest: some store into the local variable sits in a block
// that is reached only through one edge of a branch whose condition mentions
// the subject.
func (c *simCtx) assignedUnderSubjectTest(al *ssa.Alloc, depth int) bool {
	if al.Referrers() == nil || depth > 3 {
		return false
	}
	if c.allocBusy == nil {
		c.allocBusy = map[*ssa.Alloc]bool{}
	}
	if c.allocBusy[al] {
		return false
	}
	c.allocBusy[al] = true
	defer delete(c.allocBusy, al)
	for _, ref := range *al.Referrers() {
		st, ok := ref.(*ssa.Store)
		if !ok || st.Addr != ssa.Value(al) || st.Parent() != c.f {
			continue
		}
		for _, blk := range c.f.Blocks {
			t, fl, ifi := ifSuccs(blk)
			if ifi == nil || t == fl {
				continue
			}
			under := false
			for _, s := range []*ssa.BasicBlock{t, fl} {
				if s == st.Block() && len(s.Preds) == 1 {
					under = true
				} else if blockDominatedByEdge(c.f, blk, s, st.Block()) {
					under = true
				}
			}
			if under && c.mentionsSubject(ifi.Cond, depth+2) {
				return true
			}
		}
	}
	// the variable is captured by a closure of this function that assigns it under a test
	// of the (equally captured) subject: a callback-driven validation that records its
	// failure in a variable of the enclosing function
	if c.sc.Param < len(c.f.Params) {
		subj := ssa.Value(c.f.Params[c.sc.Param])
		var scan func(g *ssa.Function) bool
		scan = func(g *ssa.Function) bool {
			found := false
			instrs(g, func(in ssa.Instruction) {
				mc, ok := in.(*ssa.MakeClosure)
				if !ok || found {
					return
				}
				cl, ok := mc.Fn.(*ssa.Function)
				if !ok || cl.Blocks == nil {
					return
				}
				var fvAl, fvSub ssa.Value
				for i, b := range mc.Bindings {
					if i >= len(cl.FreeVars) {
						break
					}
					if b == ssa.Value(al) {
						fvAl = cl.FreeVars[i]
					}
					if b == subj || resolve(b) == subj {
						fvSub = cl.FreeVars[i]
					}
					if a2, isA := b.(*ssa.Alloc); isA {
						if sv := singleStore(a2); sv != nil && resolve(sv) == subj {
							fvSub = cl.FreeVars[i]
						} else if a2.Referrers() != nil {
							for _, ref := range *a2.Referrers() {
								if st, isSt := ref.(*ssa.Store); isSt && st.Addr == ssa.Value(a2) && resolve(st.Val) == subj {
									fvSub = cl.FreeVars[i]
								}
							}
						}
					}
				}
				if fvAl == nil || fvSub == nil {
					return
				}
				usesSub := func(cond ssa.Value) bool {
					hit := false
					var walk func(v ssa.Value, d int)
					walk = func(v ssa.Value, d int) {
						if hit || d > 6 || v == nil {
							return
						}
						if v == fvSub {
							hit = true
							return
						}
						switch y := v.(type) {
						case *ssa.BinOp:
							walk(y.X, d+1)
							walk(y.Y, d+1)
						case *ssa.UnOp:
							walk(y.X, d+1)
						case *ssa.Call:
							for _, a := range y.Call.Args {
								walk(a, d+1)
							}
						case *ssa.Extract:
							walk(y.Tuple, d+1)
						case *ssa.Convert:
							walk(y.X, d+1)
						case *ssa.Phi:
							for _, e := range y.Edges {
								walk(e, d+1)
							}
						}
					}
					walk(cond, 0)
					return hit
				}
				instrs(cl, func(in2 ssa.Instruction) {
					st, ok := in2.(*ssa.Store)
					if !ok || st.Addr != fvAl || found {
						return
					}
					for _, blk := range cl.Blocks {
						t, fl, ifi := ifSuccs(blk)
						if ifi == nil || t == fl {
							continue
						}
						for _, sd := range []*ssa.BasicBlock{t, fl} {
							if (sd == st.Block() && len(sd.Preds) == 1) || blockDominatedByEdge(cl, blk, sd, st.Block()) {
								if usesSub(ifi.Cond) {
									found = true
								}
							}
						}
					}
				})
			})
			return found
		}
		if scan(c.f) {
			return true
		}
	}
	return false
}

// freeQuantity: a value built from constants and the function's inputs only.
func (c *simCtx) freeQuantity(v ssa.Value, depth int) bool {
	if depth > 8 {
		return false
	}
	if _, _, ok := c.boundsOf(v, 0); ok {
		return true
	}
	switch x := resolve(v).(type) {
	case *ssa.Const, *ssa.Parameter:
		return true
	case *ssa.Convert:
		return c.freeQuantity(x.X, depth+1)
	case *ssa.BinOp:
		return c.freeQuantity(x.X, depth+1) && c.freeQuantity(x.Y, depth+1)
	case *ssa.UnOp:
		if x.Op == token.SUB {
			return c.freeQuantity(x.X, depth+1)
		}
		// field of a parameter (or of the receiver)
		if x.Op == token.MUL {
			if fa, ok := x.X.(*ssa.FieldAddr); ok {
				return c.freeQuantity(fa.X, depth+1)
			}
		}
	case *ssa.Field:
		return c.freeQuantity(x.X, depth+1)
	case *ssa.Phi:
		for _, e := range x.Edges {
			if !c.freeQuantity(e, depth+1) {
				return false
			}
		}
		return true
	case *ssa.Call:
		g := calleeOf(x)
		if g == nil {
			return false
		}
		if accessorField(g) != nil && len(x.Call.Args) == 1 {
			return true
		}
		if calleeIs(x, modPath+"/common", "CalculateArithmeticShift") || (pkgOf(g) != nil && pkgOf(g).Path() == "math") {
			for _, a := range x.Call.Args {
				if !c.freeQuantity(a, depth+1) {
					return false
				}
			}
			return true
		}
		if bn := builtinName(x); bn == "len" || bn == "min" || bn == "max" {
			return true
		}
	}
	return false
}
