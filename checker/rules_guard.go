package main

// GUARD table (oracle of C15; rows shared with C01, C03..C08, C10, C11, C13, C14)
// and the rules ERRUSED, NOPARTIAL, INTERVAL.

import (
	"fmt"
	"go/ast"
	"go/constant"
	"go/token"
	"go/types"
	"math"
	"os"
	"strings"

	"golang.org/x/tools/go/ssa"
)

type guardRow struct {
	Func       string
	Class      string // Z35 Q31 NONNEG NONNEGF LON NIL ELEMNIL ARITY4 ARITY5 INT OPT HORD
	Param      int    // parameter index (receiver counts as 0 for methods)
	Elem       bool   // subject is an element of the list parameter
	Acc        string // subject is getter Acc of the (element of the) parameter
	Acc2       string // HORD on elements: second getter
	Param2     int
	NonEmpty   int    // 1 + index of a list parameter assumed non-empty
	NonEmptyFn string // result list of this function is non-empty on success
	Props      string // properties that include this row
	Doc        string // sentence of the documentation / property the row transcribes
}

var guardTable = []guardRow{
	// shape
	{Func: "shape.GetExtendedSpatialIdsOnPoints", Class: "Z35", Param: 1, Props: "C01 C15", Doc: "hZoom outside 0-35 is an input error"},
	{Func: "shape.GetExtendedSpatialIdsOnPoints", Class: "Z35", Param: 2, Props: "C01 C15", Doc: "vZoom outside 0-35 is an input error"},
	{Func: "shape.GetExtendedSpatialIdsOnPoints", Class: "ELEMNIL", Param: 0, Props: "C01 C15", Doc: "a nil point in the list is an input error"},
	{Func: "shape.GetSpatialIdsOnPoints", Class: "Z35", Param: 1, Props: "C01 C15", Doc: "zoom outside 0-35 is an input error"},
	{Func: "shape.GetSpatialIdsOnPoints", Class: "ELEMNIL", Param: 0, Props: "C01 C15", Doc: "a nil point in the list is an input error"},
	{Func: "shape.GetPointOnExtendedSpatialId", Class: "ARITY5", Param: 0, Props: "C15", Doc: "extended ID must have five fields"},
	{Func: "shape.GetPointOnExtendedSpatialId", Class: "INT", Param: 0, Props: "C15", Doc: "fields must be integers"},
	{Func: "shape.GetPointOnExtendedSpatialId", Class: "OPT", Param: 1, Props: "C15", Doc: "unknown option is an option error"},
	{Func: "shape.GetPointOnSpatialId", Class: "ARITY4", Param: 0, Props: "C15", Doc: "spatial ID must have four fields"},
	{Func: "shape.GetPointOnSpatialId", Class: "INT", Param: 0, Props: "C15", Doc: "fields must be integers"},
	{Func: "shape.GetPointOnSpatialId", Class: "OPT", Param: 1, Props: "C15", Doc: "unknown option is an option error"},
	{Func: "shape.GetExtendedSpatialIdsOnLine", Class: "NIL", Param: 0, Props: "C06 C15", Doc: "nil start point is an input error"},
	{Func: "shape.GetExtendedSpatialIdsOnLine", Class: "NIL", Param: 1, Props: "C06 C15", Doc: "nil end point is an input error"},
	{Func: "shape.GetExtendedSpatialIdsOnLine", Class: "Z35", Param: 2, Props: "C06 C15", Doc: "hZoom outside 0-35"},
	{Func: "shape.GetExtendedSpatialIdsOnLine", Class: "Z35", Param: 3, Props: "C06 C15", Doc: "vZoom outside 0-35"},
	{Func: "shape.GetSpatialIdsOnLine", Class: "NIL", Param: 0, Props: "C06 C15", Doc: "nil start point"},
	{Func: "shape.GetSpatialIdsOnLine", Class: "NIL", Param: 1, Props: "C06 C15", Doc: "nil end point"},
	{Func: "shape.GetSpatialIdsOnLine", Class: "Z35", Param: 2, Props: "C06 C15", Doc: "zoom outside 0-35"},
	{Func: "shape.ConvertSpatialIdsToExtendedSpatialIds", Class: "ARITY4", Param: 0, Elem: true, Props: "C10 C15", Doc: "every spatial ID must have four fields"},
	{Func: "shape.ConvertExtendedSpatialIdsToSpatialIds", Class: "ARITY5", Param: 0, Elem: true, Props: "C10 C15", Doc: "every extended ID must have five fields"},
	// integrate
	{Func: "integrate.ChangeExtendedSpatialIdsZoom", Class: "Z35", Param: 1, Props: "C03 C15", Doc: "hZoom outside 0-35"},
	{Func: "integrate.ChangeExtendedSpatialIdsZoom", Class: "Z35", Param: 2, Props: "C03 C15", Doc: "vZoom outside 0-35"},
	{Func: "integrate.ChangeExtendedSpatialIdsZoom", Class: "ARITY5", Param: 0, Elem: true, Props: "C03 C15", Doc: "malformed extended ID"},
	{Func: "integrate.ChangeExtendedSpatialIdsZoom", Class: "INT", Param: 0, Elem: true, Props: "C03 C15", Doc: "non-integer field"},
	{Func: "integrate.ChangeSpatialIdsZoom", Class: "Z35", Param: 1, Props: "C03 C15", Doc: "zoom outside 0-35"},
	{Func: "integrate.ChangeSpatialIdsZoom", Class: "ARITY4", Param: 0, Elem: true, Props: "C03 C15", Doc: "malformed spatial ID"},
	{Func: "integrate.ChangeSpatialIdsZoom", Class: "INT", Param: 0, Elem: true, Props: "C03 C15", Doc: "non-integer field"},
	{Func: "integrate.MergeExtendedSpatialIds", Class: "Z35", Param: 1, Props: "C04 C15", Doc: "hZoom outside 0-35"},
	{Func: "integrate.MergeExtendedSpatialIds", Class: "Z35", Param: 2, Props: "C04 C15", Doc: "vZoom outside 0-35"},
	{Func: "integrate.MergeExtendedSpatialIds", Class: "ARITY5", Param: 0, Elem: true, Props: "C04 C15", Doc: "malformed extended ID"},
	{Func: "integrate.MergeExtendedSpatialIds", Class: "INT", Param: 0, Elem: true, Props: "C04 C15", Doc: "non-integer field"},
	{Func: "integrate.MergeSpatialIds", Class: "Z35", Param: 1, Props: "C04 C15", Doc: "zoom outside 0-35"},
	{Func: "integrate.MergeSpatialIds", Class: "ARITY4", Param: 0, Elem: true, Props: "C04 C15", Doc: "malformed spatial ID"},
	{Func: "integrate.MergeSpatialIds", Class: "INT", Param: 0, Elem: true, Props: "C04 C15", Doc: "non-integer field"},
	// operated
	{Func: "operated.GetShiftingSpatialID", Class: "ARITY5", Param: 0, Props: "C07 C15", Doc: "malformed ID yields the empty ID"},
	{Func: "operated.GetShiftingSpatialID", Class: "INT", Param: 0, Props: "C07 C15", Doc: "non-integer field yields the empty ID"},
	{Func: "operated.GetNspatialIdsAroundVoxcels", Class: "NONNEG", Param: 1, Props: "C08 C15", Doc: "hLayers must be >= 0"},
	{Func: "operated.GetNspatialIdsAroundVoxcels", Class: "NONNEG", Param: 2, Props: "C08 C15", Doc: "vLayers must be >= 0"},
	// detector
	{Func: "detector.CheckSpatialIdsOverlap", Class: "ARITY4", Param: 0, Props: "C05 C15", Doc: "malformed spatial ID"},
	{Func: "detector.CheckSpatialIdsOverlap", Class: "ARITY4", Param: 1, Props: "C05 C15", Doc: "malformed spatial ID"},
	{Func: "detector.CheckSpatialIdsOverlap", Class: "INT", Param: 0, Props: "C05 C15", Doc: "non-integer field"},
	{Func: "detector.CheckSpatialIdsOverlap", Class: "INT", Param: 1, Props: "C05 C15", Doc: "non-integer field"},
	{Func: "detector.CheckSpatialIdsArrayOverlap", Class: "ARITY4", Param: 0, Elem: true, Props: "C05 C15", Doc: "malformed spatial ID"},
	{Func: "detector.CheckSpatialIdsArrayOverlap", Class: "ARITY4", Param: 1, Elem: true, Props: "C05 C15", Doc: "malformed spatial ID"},
	{Func: "detector.CheckSpatialIdsArrayOverlap", Class: "INT", Param: 0, Elem: true, Props: "C05 C15", Doc: "non-integer field"},
	{Func: "detector.CheckSpatialIdsArrayOverlap", Class: "INT", Param: 1, Elem: true, Props: "C05 C15", Doc: "non-integer field"},
	{Func: "detector.CheckExtendedSpatialIdsOverlap", Class: "ARITY5", Param: 0, Props: "C05 C15", Doc: "malformed extended ID"},
	{Func: "detector.CheckExtendedSpatialIdsOverlap", Class: "ARITY5", Param: 1, Props: "C05 C15", Doc: "malformed extended ID"},
	{Func: "detector.CheckExtendedSpatialIdsOverlap", Class: "INT", Param: 0, Props: "C05 C15", Doc: "non-integer field"},
	{Func: "detector.CheckExtendedSpatialIdsOverlap", Class: "INT", Param: 1, Props: "C05 C15", Doc: "non-integer field"},
	{Func: "detector.CheckExtendedSpatialIdsArrayOverlap", Class: "ARITY5", Param: 0, Elem: true, NonEmpty: 2, Props: "C05 C15", Doc: "malformed extended ID (when the other list is non-empty)"},
	{Func: "detector.CheckExtendedSpatialIdsArrayOverlap", Class: "INT", Param: 0, Elem: true, NonEmpty: 2, Props: "C05 C15", Doc: "non-integer field (when the other list is non-empty)"},
	// transform
	{Func: "transform.ConvertQuadkeysAndVerticalIDsToExtendedSpatialIDs", Class: "Z35", Param: 1, Props: "C11 C15", Doc: "outputHZoom outside 0-35"},
	{Func: "transform.ConvertQuadkeysAndVerticalIDsToExtendedSpatialIDs", Class: "Z35", Param: 2, Props: "C11 C15", Doc: "outputVZoom outside 0-35"},
	{Func: "transform.ConvertQuadkeysAndVerticalIDsToExtendedSpatialIDs", Class: "Q31", Param: 0, Elem: true, Acc: "QuadkeyZoom", Props: "C11 C15", Doc: "quadkey zoom outside 1-31"},
	{Func: "transform.ConvertQuadkeysAndVerticalIDsToExtendedSpatialIDs", Class: "Z35", Param: 0, Elem: true, Acc: "VZoom", Props: "C11 C15", Doc: "vertical zoom outside 0-35"},
	{Func: "transform.ConvertQuadkeysAndVerticalIDsToExtendedSpatialIDs", Class: "HORD", Param: 0, Elem: true, Acc: "MaxHeight", Acc2: "MinHeight", Props: "C11 C15", Doc: "maxHeight < minHeight is an input error"},
	{Func: "transform.ConvertQuadkeysAndVerticalIDsToSpatialIDs", Class: "Z35", Param: 1, Props: "C11 C15", Doc: "outputZoom outside 0-35"},
	{Func: "transform.ConvertExtendedSpatialIDsToQuadkeysAndVerticalIDs", Class: "Q31", Param: 1, Props: "C11 C15", Doc: "outputHZoom outside 1-31"},
	{Func: "transform.ConvertExtendedSpatialIDsToQuadkeysAndVerticalIDs", Class: "Z35", Param: 2, Props: "C11 C15", Doc: "outputVZoom outside 0-35"},
	{Func: "transform.ConvertExtendedSpatialIDsToQuadkeysAndVerticalIDs", Class: "ARITY5", Param: 0, Elem: true, Props: "C11 C15", Doc: "malformed extended ID"},
	{Func: "transform.ConvertExtendedSpatialIDsToQuadkeysAndVerticalIDs", Class: "INT", Param: 0, Elem: true, Props: "C11 C15", Doc: "non-integer field"},
	{Func: "transform.ConvertExtendedSpatialIDsToQuadkeysAndVerticalIDs", Class: "HORD", Param: 3, Param2: 4, Elem: true, Props: "C11 C15", Doc: "maxHeight < minHeight is an input error"},
	{Func: "transform.ConvertSpatialIDsToQuadkeysAndVerticalIDs", Class: "Q31", Param: 1, Props: "C11 C15", Doc: "outputHZoom outside 1-31"},
	{Func: "transform.ConvertSpatialIDsToQuadkeysAndVerticalIDs", Class: "Z35", Param: 2, Props: "C11 C15", Doc: "outputVZoom outside 0-35"},
	{Func: "transform.ConvertSpatialIDsToQuadkeysAndVerticalIDs", Class: "ARITY4", Param: 0, Elem: true, Props: "C11 C15", Doc: "malformed spatial ID"},
	{Func: "transform.ConvertExtendedSpatialIDsToQuadkeysAndAltitudekeys", Class: "Q31", Param: 1, Props: "C11 C15", Doc: "outputQuadkeyZoom outside 1-31"},
	{Func: "transform.ConvertExtendedSpatialIDsToQuadkeysAndAltitudekeys", Class: "Z35", Param: 2, Props: "C11 C15", Doc: "outputAltitudekeyZoom outside 0-35"},
	{Func: "transform.ConvertExtendedSpatialIDsToQuadkeysAndAltitudekeys", Class: "ARITY5", Param: 0, Elem: true, Props: "C11 C15", Doc: "malformed extended ID"},
	{Func: "transform.ConvertExtendedSpatialIDsToQuadkeysAndAltitudekeys", Class: "INT", Param: 0, Elem: true, Props: "C11 C15", Doc: "non-integer field"},
	{Func: "transform.ConvertTileXYZsToExtendedSpatialIDs", Class: "Z35", Param: 3, Elem: false, NonEmpty: 1, Props: "C13 C15", Doc: "outputVZoom outside 0-35 (for a non-empty request)"},
	{Func: "transform.ConvertTileXYZsToSpatialIDs", Class: "Z35", Param: 3, NonEmpty: 1, Props: "C13 C15", Doc: "output zoom outside 0-35 (for a non-empty request)"},
	{Func: "transform.GetExtendedSpatialIdsWithinRadiusOfLine", Class: "NIL", Param: 0, Props: "C14 C15", Doc: "nil start point"},
	{Func: "transform.GetExtendedSpatialIdsWithinRadiusOfLine", Class: "NIL", Param: 1, Props: "C14 C15", Doc: "nil end point"},
	{Func: "transform.GetExtendedSpatialIdsWithinRadiusOfLine", Class: "NONNEGF", Param: 2, NonEmptyFn: "shape.GetExtendedSpatialIdsOnLine", Props: "C14 C15", Doc: "negative radius is an error (the line query returns at least the end-point voxels on success: rules INCLUDES and MAPORDER of C06/C01)"},
	{Func: "transform.GetExtendedSpatialIdsWithinRadiusOfLine", Class: "Z35", Param: 3, Props: "C14 C15", Doc: "hZoom outside 0-35"},
	{Func: "transform.GetExtendedSpatialIdsWithinRadiusOfLine", Class: "Z35", Param: 4, Props: "C14 C15", Doc: "vZoom outside 0-35"},
	{Func: "transform.FitClearanceAroundExtendedSpatialID", Class: "NONNEGF", Param: 1, Props: "C14 C15", Doc: "negative clearance is an error"},
	{Func: "transform.FitClearanceAroundExtendedSpatialID", Class: "ARITY5", Param: 0, Props: "C14 C15", Doc: "malformed extended ID"},
	{Func: "transform.FitClearanceAroundExtendedSpatialID", Class: "INT", Param: 0, Props: "C14 C15", Doc: "non-integer field (also with clearance 0)"},
	{Func: "transform.ConvertAltitudekeyToMinMaxZ", Class: "NONNEG", Param: 0, Props: "C12 C13 C15", Doc: "altitude keys are unsigned: a negative key does not exist at any zoom"},
	// object
	{Func: "common/object.NewPoint", Class: "LON", Param: 0, Props: "C15", Doc: "|lon| > 180 is an input error"},
	{Func: "common/object.(*Point).SetLon", Class: "LON", Param: 1, Props: "C15", Doc: "|lon| > 180 is an input error"},
	{Func: "common/object.NewExtendedSpatialID", Class: "ARITY5", Param: 0, Props: "C10 C15", Doc: "extended ID must have five fields"},
	{Func: "common/object.NewExtendedSpatialID", Class: "INT", Param: 0, Props: "C10 C15", Doc: "fields must be integers"},
	{Func: "common/object.(*ExtendedSpatialID).ResetExtendedSpatialID", Class: "ARITY5", Param: 1, Props: "C10 C15", Doc: "extended ID must have five fields"},
	{Func: "common/object.(*ExtendedSpatialID).ResetExtendedSpatialID", Class: "INT", Param: 1, Props: "C10 C15", Doc: "fields must be integers"},
	{Func: "common/object.NewTileXYZ", Class: "Z35", Param: 0, Props: "C13 C15", Doc: "hZoom outside [0, MaxTileXYZZoom]"},
	{Func: "common/object.NewTileXYZ", Class: "Z35", Param: 3, Props: "C13 C15", Doc: "vZoom outside [0, MaxTileXYZZoom]"},
	{Func: "common/object.(*TileXYZ).SetHZoom", Class: "Z35", Param: 1, Props: "C13 C15", Doc: "hZoom outside [0, MaxTileXYZZoom]"},
	{Func: "common/object.(*TileXYZ).SetVZoom", Class: "Z35", Param: 1, Props: "C13 C15", Doc: "vZoom outside [0, MaxTileXYZZoom]"},
}

func scenariosFor(w *World, row guardRow, f *ssa.Function) ([]scenario, string) {
	base := scenario{Param: row.Param, Elem: row.Elem, NonEmpty: row.NonEmpty}
	if row.NonEmptyFn != "" {
		base.NonEmptyFn = lookupByName(w, row.NonEmptyFn)
		if base.NonEmptyFn == nil {
			return nil, "function " + row.NonEmptyFn + " not found"
		}
	}
	if row.Acc != "" {
		// resolve getter on the element type
		fv := getterField(w, f, row.Param, row.Elem, row.Acc)
		if fv == nil {
			return nil, "getter " + row.Acc + " not found"
		}
		base.Acc = fv
	}
	mk := func(lo, hi float64) scenario { s := base; s.Kind = scRegion; s.Lo, s.Hi = lo, hi; return s }
	inf := math.Inf(1)
	switch row.Class {
	case "Z35":
		return []scenario{mk(-inf, -1), mk(36, inf)}, ""
	case "Q31":
		return []scenario{mk(-inf, 0), mk(32, inf)}, ""
	case "NONNEG":
		return []scenario{mk(-inf, -1)}, ""
	case "NONNEGF":
		return []scenario{mk(-inf, -1e-300)}, ""
	case "LON":
		return []scenario{mk(180.0000001, inf), mk(-inf, -180.0000001)}, ""
	case "NIL":
		s := base
		s.Kind = scNil
		return []scenario{s}, ""
	case "ELEMNIL":
		s := base
		s.Kind = scElemNil
		return []scenario{s}, ""
	case "ARITY4", "ARITY5":
		s := base
		s.Kind = scArity
		s.N = 4
		if row.Class == "ARITY5" {
			s.N = 5
		}
		return []scenario{s}, ""
	case "INT":
		s := base
		s.Kind = scParseFail
		return []scenario{s}, ""
	case "OPT":
		// the declared constants of the option type: if they are the integers lo..hi,
		// "not a declared option" is the two regions below lo and above hi (this also
		// decides table-dispatch idioms such as `int(option) >= len(table)`)
		if row.Param < len(f.Params) {
			if nt, ok := f.Params[row.Param].Type().(*types.Named); ok && nt.Obj().Pkg() != nil {
				var vals []int64
				sc := nt.Obj().Pkg().Scope()
				for _, n := range sc.Names() {
					if c, ok := sc.Lookup(n).(*types.Const); ok && types.Identical(c.Type(), nt) {
						if v, ok := constant.Int64Val(c.Val()); ok {
							vals = append(vals, v)
						}
					}
				}
				if len(vals) > 0 {
					lo, hi := vals[0], vals[0]
					seen := map[int64]bool{}
					for _, v := range vals {
						seen[v] = true
						if v < lo {
							lo = v
						}
						if v > hi {
							hi = v
						}
					}
					if int64(len(seen)) == hi-lo+1 {
						return []scenario{mk(-inf, float64(lo-1)), mk(float64(hi+1), inf)}, ""
					}
				}
			}
		}
		s := base
		s.Kind = scOption
		return []scenario{s}, ""
	case "HORD":
		s := base
		s.Kind = scPairRel
		s.Rel = relLT
		s.Param2 = row.Param2
		if row.Acc2 != "" {
			s.Acc2 = getterField(w, f, row.Param, row.Elem, row.Acc2)
			if s.Acc2 == nil {
				return nil, "getter " + row.Acc2 + " not found"
			}
		}
		return []scenario{s}, ""
	}
	return nil, "unknown class " + row.Class
}

func guardRows(w *World, r *Report, prop string) {
	r.Rule("GUARD", "for every documented exclusion (one table row: function, argument, predicate class) an abstract scenario in which the argument violates the predicate is propagated through the function's control-flow graph (interval / nil / arity / parse-failure / order facts decide the branch conditions they determine, validators and delegated calls are evaluated recursively): no success return, no next loop iteration and no constant index into the split ID may be reachable")
	e := scFor(w)
	n := 0
	for _, row := range guardTable {
		if !strings.Contains(" "+row.Props+" ", " "+prop+" ") {
			continue
		}
		n++
		sub := row.Class
		if row.Acc != "" {
			sub += " of " + row.Acc + "()"
		}
		key := fmt.Sprintf("%s / argument #%d%s / %s", row.Func, row.Param, map[bool]string{true: " (each element)", false: ""}[row.Elem], sub)
		f := lookupByName(w, row.Func)
		if f == nil {
			r.add("GUARD", key, "?", Unresolved, "function not found")
			continue
		}
		pos := w.Pos(f.Pos())
		scs, why := scenariosFor(w, row, f)
		if scs == nil {
			r.add("GUARD", key, pos, Unresolved, why)
			continue
		}
		okAll := true
		for _, sc := range scs {
			e.undecidedOnSubject = nil
			ok, why := e.checkRow(f, sc, row)
			if !ok {
				okAll = false
				// second pass: would the scenario fail if every test of the argument that the
				// oracle cannot evaluate rejected it?  If a success return stays reachable,
				// some path validates nothing.
				tests := uniqStrings(e.undecidedOnSubject)
				rejects := false
				if len(tests) > 0 {
					e.assumeReject = true
					rejects, _ = e.checkRow(f, sc, row)
					e.assumeReject = false
				}
				e.undecidedOnSubject = tests
				if wit := ""; rejects {
					if wit = e.regionWitness(f, sc); wit != "" {
						r.add("GUARD", key, pos, Violated, fmt.Sprintf("scenario {%s}: %s -- %s", sc, wit, row.Doc))
						break
					}
				}
				if rejects {
					// a test of the argument lies on the way that the oracle cannot evaluate:
					// the exclusion may be enforced in a form the analysis does not interpret
					r.add("GUARD", key, pos, Undecided, fmt.Sprintf("scenario {%s}: %s, but only past test(s) of the argument the analysis could not evaluate (%s) -- %s", sc, why, abbrev(strings.Join(uniqStrings(e.undecidedOnSubject), "; "), 240), row.Doc))
				} else if esc := subjectEscapes(f, sc); esc != "" {
					r.add("GUARD", key, pos, Undecided, fmt.Sprintf("scenario {%s}: %s; but the argument is also handed to %s, whose checks this exploration does not follow -- %s", sc, why, esc, row.Doc))
				} else if errAssignedByLiterals(f) {
					r.add("GUARD", key, pos, Undecided, fmt.Sprintf("scenario {%s}: %s; but the error result is a variable assigned by function literals of %s, whose effect on the returns was not followed -- %s", sc, why, f.Name(), row.Doc))
				} else {
					r.add("GUARD", key, pos, Violated, fmt.Sprintf("scenario {%s}: %s -- %s", sc, why, row.Doc))
				}
				break
			}
		}
		if okAll {
			r.add("GUARD", key, pos, Discharged, fmt.Sprintf("%d scenario(s) end in failure returns only -- %s", len(scs), row.Doc))
		}
	}
	r.Analysed["guard_rows"] = n
	// canaries: zoom-domain guard on parameter 1
	for _, f := range canaryFuncs(w) {
		if !strings.Contains(f.Name(), "ZoomGuard") {
			continue
		}
		row := guardRow{Func: w.FuncName(f), Class: "Z35", Param: 1}
		scs, _ := scenariosFor(w, row, f)
		st, d := Discharged, "both out-of-domain regions fail"
		for _, sc := range scs {
			if ok, why := e.check(f, sc, 0); !ok {
				st, d = Violated, fmt.Sprintf("scenario {%s}: %s", sc, why)
			}
		}
		r.Add(Obligation{Rule: "GUARD", Key: "GUARD / " + w.FuncName(f) + " / argument #1 / Z35", Pos: w.Pos(f.Pos()), Status: st, Detail: d, Canary: true})
	}
}

func (e *scEngine) checkRow(f *ssa.Function, sc scenario, row guardRow) (bool, string) {
	if sc.Kind == scPairRel && row.Elem && sc.Acc == nil {
		// order scenario on two scalar parameters, enforced per element of list #0
		for _, sr := range findSliceRanges(f) {
			if resolve(sr.X) == ssa.Value(f.Params[0]) {
				s2 := sc
				s2.Elem = false
				c := &simCtx{e: e, f: f, sc: s2}
				reach := c.explore(sr.Body, nil)
				return c.verdict(reach, sr)
			}
		}
		return false, "no loop over the ID list"
	}
	return e.check(f, sc, 0)
}

// getterField resolves getter name on the (element) type of parameter i.
func getterField(w *World, f *ssa.Function, i int, elem bool, getter string) *types.Var {
	if i >= len(f.Params) {
		return nil
	}
	t := f.Params[i].Type()
	if elem {
		if s, ok := t.Underlying().(*types.Slice); ok {
			t = s.Elem()
		}
	}
	for _, T := range []types.Type{t, derefType(t)} {
		ms := w.Prog.MethodSets.MethodSet(T)
		for k := 0; k < ms.Len(); k++ {
			if ms.At(k).Obj().Name() == getter {
				if fn := w.Prog.MethodValue(ms.At(k)); fn != nil {
					g := fn
					if obj, ok := ms.At(k).Obj().(*types.Func); ok {
						if d := w.Prog.FuncValue(obj); d != nil {
							g = d
						}
					}
					if fv := accessorField(g); fv != nil {
						return fv
					}
				}
			}
		}
	}
	return nil
}

// ---------------------------------------------------------------- ERRUSED

// taint: strings derived from string / []string parameters of exported functions.
type taintEngine struct {
	w      *World
	param  map[*ssa.Parameter]bool
	ret    map[*ssa.Function]bool
	memo   map[ssa.Value]bool
	busy   map[ssa.Value]bool
	change bool
}

var taintCache *taintEngine

func taintFor(w *World) *taintEngine {
	if taintCache != nil {
		return taintCache
	}
	t := &taintEngine{w: w, param: map[*ssa.Parameter]bool{}, ret: map[*ssa.Function]bool{}}
	for _, f := range w.ExportedRoots() {
		for _, p := range f.Params {
			if isStringType(p.Type()) || isStringSliceOf(p.Type()) {
				t.param[p] = true
			}
		}
	}
	for i := 0; i < 10; i++ {
		t.change = false
		t.memo, t.busy = map[ssa.Value]bool{}, map[ssa.Value]bool{}
		for _, f := range w.ModFuncs {
			instrs(f, func(in ssa.Instruction) {
				switch x := in.(type) {
				case ssa.CallInstruction:
					g := calleeOf(x)
					if g == nil || !w.InModule(g) {
						return
					}
					for k, a := range x.Common().Args {
						if k < len(g.Params) && !t.param[g.Params[k]] && t.tainted(a) {
							t.param[g.Params[k]] = true
							t.change = true
						}
					}
				case *ssa.Return:
					if len(x.Results) > 0 && !t.ret[f] && t.tainted(x.Results[0]) {
						t.ret[f] = true
						t.change = true
					}
				}
			})
		}
		if !t.change {
			break
		}
	}
	t.memo, t.busy = map[ssa.Value]bool{}, map[ssa.Value]bool{}
	taintCache = t
	return t
}

func (t *taintEngine) tainted(v ssa.Value) bool {
	if !(isStringType(v.Type()) || isStringSliceOf(v.Type()) || isPointer(v.Type()) || isSlice(v.Type())) {
		if _, ok := v.(*ssa.Extract); !ok {
			if _, ok := v.(*ssa.Call); !ok {
				return false
			}
		}
	}
	if r, ok := t.memo[v]; ok {
		return r
	}
	if t.busy[v] {
		return false
	}
	t.busy[v] = true
	r := t.compute(v)
	delete(t.busy, v)
	t.memo[v] = r
	return r
}

func (t *taintEngine) compute(v ssa.Value) bool {
	switch x := v.(type) {
	case *ssa.Parameter:
		return t.param[x]
	case *ssa.Phi:
		for _, e := range x.Edges {
			if t.tainted(e) {
				return true
			}
		}
	case *ssa.UnOp:
		if x.Op == token.MUL {
			switch p := x.X.(type) {
			case *ssa.IndexAddr:
				return t.tainted(p.X)
			case *ssa.Alloc:
				for _, ref := range *p.Referrers() {
					if st, ok := ref.(*ssa.Store); ok && st.Addr == p && t.tainted(st.Val) {
						return true
					}
				}
			}
		}
	case *ssa.Index:
		return t.tainted(x.X)
	case *ssa.Slice:
		if vals, ok := sliceLiteral(x); ok {
			for _, e := range vals {
				if t.tainted(e) {
					return true
				}
			}
			return false
		}
		return t.tainted(x.X)
	case *ssa.BinOp:
		if x.Op == token.ADD {
			return t.tainted(x.X) || t.tainted(x.Y)
		}
	case *ssa.ChangeType:
		return t.tainted(x.X)
	case *ssa.Extract:
		if c, ok := x.Tuple.(*ssa.Call); ok && x.Index == 0 {
			return t.tainted(c)
		}
		if nx, ok := x.Tuple.(*ssa.Next); ok {
			if rg, ok := nx.Iter.(*ssa.Range); ok {
				return t.tainted(rg.X)
			}
		}
	case *ssa.MakeMap:
		for _, ref := range *x.Referrers() {
			if mu, ok := ref.(*ssa.MapUpdate); ok && (t.tainted(mu.Key) || t.tainted(mu.Value)) {
				return true
			}
		}
	case *ssa.Call:
		if bn := builtinName(x); bn == "append" {
			for _, a := range x.Call.Args {
				if t.tainted(a) {
					return true
				}
			}
			return false
		}
		g := calleeOf(x)
		if g == nil {
			return false
		}
		if p := pkgOf(g); p != nil {
			switch p.Path() {
			case "strings":
				for _, a := range x.Call.Args {
					if t.tainted(a) {
						return true
					}
				}
				return false
			case "strconv", "fmt", "math":
				return false
			}
		}
		if t.w.InModule(g) {
			// generic set helpers propagate
			if funcIs(g, modPath+"/common", "Unique") || funcIs(g, modPath+"/common", "Union") || funcIs(g, modPath+"/common", "Difference") || funcIs(g, modPath+"/common", "Intersect") {
				for _, a := range x.Call.Args {
					if t.tainted(a) {
						return true
					}
				}
				return false
			}
			return t.ret[g]
		}
	}
	return false
}

// ruleErrUsed: every strconv parse of caller-derived text has its error tested,
// with the failing edge leading to failure returns only; a discarded error is
// accepted only if the same argument is INT-guarded by delegation.
func ruleErrUsed(w *World, r *Report, in map[*ssa.Function]bool) {
	r.Rule("PARSE-BASE", "every strconv.ParseInt applied to caller text uses the constant base 10; caller text is not parsed with the lenient fmt.Sscan family (which accepts trailing garbage)")
	r.Rule("ERRUSED", "the error of every strconv.Atoi/ParseInt/ParseFloat applied to text derived from a caller's string is tested and its non-nil edge leads only to failure returns; an error that is discarded or overwritten before being read is a violation unless the same argument always fails in a validating callee under the parse-failure scenario")
	t := taintFor(w)
	e := scFor(w)
	for _, f := range w.ModFuncs {
		if f.Synthetic != "" {
			continue
		}
		can := w.IsCanary(f)
		if !can && in != nil && !in[f] {
			continue
		}
		name := w.FuncName(f)
		ord, ordScan := 0, 0
		instrs(f, func(ins ssa.Instruction) {
			c, ok := ins.(*ssa.Call)
			if ok && (calleeIs(c, "fmt", "Sscanf") || calleeIs(c, "fmt", "Sscan") || calleeIs(c, "fmt", "Sscanln")) && len(c.Call.Args) > 0 && (t.tainted(c.Call.Args[0]) || can) {
				ordScan++
				r.Add(Obligation{Rule: "PARSE-BASE", Key: fmt.Sprintf("PARSE-BASE / %s / scan#%d", name, ordScan), Pos: w.Pos(c.Pos()), Status: Violated, Detail: "caller text is parsed with fmt." + calleeOf(c).Name() + ", which stops at the first character that does not fit and ignores the rest (\"5x\", \"1/2/3/4/5/6\" are accepted): ID fields must be parsed strictly -- " + shortInstr(c), Canary: can})
				return
			}
			if !ok || !(calleeIs(c, "strconv", "Atoi") || calleeIs(c, "strconv", "ParseInt") || calleeIs(c, "strconv", "ParseFloat")) {
				return
			}
			if !t.tainted(c.Call.Args[0]) && !can {
				return
			}
			ord++
			key := fmt.Sprintf("ERRUSED / %s / parse#%d", name, ord)
			pos := w.Pos(c.Pos())
			if calleeIs(c, "strconv", "ParseInt") && len(c.Call.Args) >= 2 {
				if b, ok := constInt(c.Call.Args[1]); !ok || b != 10 {
					r.Add(Obligation{Rule: "PARSE-BASE", Key: fmt.Sprintf("PARSE-BASE / %s / parse#%d", name, ord), Pos: pos, Status: Violated, Detail: "ID fields are decimal integers: strconv.ParseInt must be called with base 10 (base 0 accepts 0x.., 0b.., 0o.. and underscores) -- " + shortInstr(c), Canary: can})
				} else {
					r.Add(Obligation{Rule: "PARSE-BASE", Key: fmt.Sprintf("PARSE-BASE / %s / parse#%d", name, ord), Pos: pos, Status: Discharged, Detail: "base 10", Canary: can})
				}
			}
			ee := extractOf(c, 1)
			if ee != nil && hasRealReferrer(ee) {
				// tested?
				if errTested(f, e, ee) {
					r.Add(Obligation{Rule: "ERRUSED", Key: key, Pos: pos, Status: Discharged, Detail: "parse error is tested and the failing edge leads to failure returns only", Canary: can})
				} else if why := overwrittenByNextIteration(f, ee); why != "" {
					r.Add(Obligation{Rule: "ERRUSED", Key: key, Pos: pos, Status: Violated, Detail: "parse error is overwritten by the next iteration before it is read (" + why + "): only the error of the last field reaches the test after the loop, a malformed earlier field is read as 0 -- " + shortInstr(c), Canary: can})
				} else if errFlowsOn(ee) {
					// the error (or its comparison with nil) is carried on in a variable, returned, wrapped or
					// handed to a helper: it is not dropped, the rule just cannot follow it
					r.Add(Obligation{Rule: "ERRUSED", Key: key, Pos: pos, Status: Undecided, Detail: "parse error is carried on (flag, returned or wrapped value) instead of being tested in place (" + shortInstr(c) + ")", Canary: can})
				} else if errEdgeCanFail(f, e, ee) {
					// the non-nil edge reaches a failure return as well as a success return (a flag
					// set on the failing edge and tested after the loop): not followed
					r.Add(Obligation{Rule: "ERRUSED", Key: key, Pos: pos, Status: Undecided, Detail: "parse error is tested, and its non-nil edge can reach failure returns, but not only failure returns (a flag or counter set on that edge?) (" + shortInstr(c) + ")", Canary: can})
				} else if f.Parent() != nil && errEdgeRecords(f, ee) {
					// inside a function literal the failure is reported through what it captures (a
					// named result of the enclosing function, a flag, another closure): not followed
					r.Add(Obligation{Rule: "ERRUSED", Key: key, Pos: pos, Status: Undecided, Detail: "parse error is tested inside a function literal whose non-nil edge assigns a captured variable or calls another closure (" + shortInstr(c) + ")", Canary: can})
				} else {
					r.Add(Obligation{Rule: "ERRUSED", Key: key, Pos: pos, Status: Violated, Detail: "parse error is read but no test of it leads to a failure return on the non-nil edge (" + shortInstr(c) + ")", Canary: can})
				}
				return
			}
			// functions without an error result cannot report: outside the property's quantifier
			if errResultIndex(f) < 0 && e.failConst[f] == nil && !can {
				r.Add(Obligation{Rule: "ERRUSED", Key: key, Pos: pos, Status: Info, Detail: "parse error discarded in a function without error result (outside the quantifier of C15)"})
				return
			}
			// discarded: need delegated guard for the exported parameter the text comes from
			ok2, why := discardedOK(w, e, f, c)
			if ok2 {
				r.Add(Obligation{Rule: "ERRUSED", Key: key, Pos: pos, Status: Discharged, Detail: "parse error discarded, but " + why, Canary: can})
			} else if strings.HasPrefix(why, "UNDECIDED: ") {
				r.Add(Obligation{Rule: "ERRUSED", Key: key, Pos: pos, Status: Undecided, Detail: "parse error of caller text is dropped (" + shortInstr(c) + "); " + strings.TrimPrefix(why, "UNDECIDED: "), Canary: can})
			} else {
				r.Add(Obligation{Rule: "ERRUSED", Key: key, Pos: pos, Status: Violated, Detail: "parse error of caller text is dropped (" + shortInstr(c) + "): " + why, Canary: can})
			}
		})
	}
}

func errTested(f *ssa.Function, e *scEngine, ev ssa.Value) bool {
	for _, ref := range *ev.Referrers() {
		b, ok := ref.(*ssa.BinOp)
		if !ok || (b.Op != token.NEQ && b.Op != token.EQL) {
			continue
		}
		if !(isNilConst(b.X) || isNilConst(b.Y)) {
			continue
		}
		for _, blk := range f.Blocks {
			t, fl, i := ifSuccs(blk)
			if i == nil {
				continue
			}
			neg := false
			cond := i.Cond
			if u, ok := cond.(*ssa.UnOp); ok && u.Op == token.NOT {
				cond, neg = u.X, true
			}
			if cond != ssa.Value(b) {
				continue
			}
			nonNil := t
			if (b.Op == token.EQL) != neg {
				nonNil = fl
			}
			reach := reachableFrom(nonNil, nil)
			ok := true
			any := false
			for _, ret := range returnsOf(f) {
				if reach[ret.Block()] {
					any = true
					if !e.isFailureReturn(f, ret) && !failsAlong(f, ret, reach, blk, nonNil) {
						ok = false
					}
				}
			}
			if ok && any {
				return true
			}
		}
	}
	return false
}

// discardedOK: the parsed text derives from parameter p of f (directly via
// Split), and the parse-failure scenario on p always fails in f.
func discardedOK(w *World, e *scEngine, f *ssa.Function, c *ssa.Call) (bool, string) {
	for i, p := range f.Params {
		if !isStringType(p.Type()) {
			continue
		}
		ctx := &simCtx{e: e, f: f, sc: scenario{Kind: scParseFail, Param: i}}
		if ctx.textOfSubject(c.Call.Args[0]) {
			st, why := e.checkTwoPass(f, scenario{Kind: scParseFail, Param: i})
			switch st {
			case Discharged:
				return true, "argument " + p.Name() + " always fails in a validating callee when a field is not an integer"
			case Undecided:
				return false, "UNDECIDED: argument " + p.Name() + " is validated in a form the analysis does not interpret: " + why
			}
			return false, "no validating callee rejects argument " + p.Name() + ": " + why
		}
	}
	// the text reaches the parse through a helper, a value type or strings.Cut: which
	// parameter it belongs to, and whether that parameter is validated, was not followed
	return false, "UNDECIDED: the parsed text could not be tied to a parameter (it is cut out by a helper or in a form the rule does not read)"
}

// ---------------------------------------------------------------- NOPARTIAL

func ruleNoPartial(w *World, r *Report, fn string) {
	r.Rule("NOPARTIAL", "every failure return carries nil / false / an empty literal as its non-error result (no partial result escapes with an error)")
	f := lookupByName(w, fn)
	if f == nil {
		r.add("NOPARTIAL", fn, "?", Unresolved, "function not found")
		return
	}
	e := scFor(w)
	n := 0
	for _, ret := range returnsOf(f) {
		if !e.isFailureReturn(f, ret) {
			continue
		}
		n++
		key := fmt.Sprintf("%s / failure return#%d", fn, n)
		v := resolve(ret.Results[0])
		zero := func(v ssa.Value) bool {
			switch x := v.(type) {
			case *ssa.Const:
				return x.Value == nil || x.Value.String() == "false" || x.Value.String() == "0" || x.Value.String() == `""`
			}
			return isEmptySliceBase(v)
		}
		ok := zero(v)
		if _, isPhi := v.(*ssa.Phi); isPhi && !ok {
			ok = true
			for _, l := range phiLeaves(v) {
				if !zero(resolve(l)) {
					ok = false
				}
			}
		}
		_, isCall := v.(*ssa.Call)
		if tc := throughCall(v, 0); !ok && tc != nil {
			// return fail(err): what the helper returns at this position
			ok, isCall = true, true
			for _, u := range tc {
				if !zero(u) {
					ok = false
				}
			}
		}
		// a named result kept in a variable because a deferred function may still change it
		// (defer func() { if err != nil { result = nil } }()): its final value is not followed
		if ld, isLoad := v.(*ssa.UnOp); isLoad && !ok {
			if _, isVar := ld.X.(*ssa.Alloc); isVar {
				isCall = true
			}
		}
		if ok {
			r.add("NOPARTIAL", key, w.Pos(ret.Pos()), Discharged, "failure return carries "+describeValue(ret.Results[0]))
		} else if isCall {
			r.add("NOPARTIAL", key, w.Pos(ret.Pos()), Undecided, "failure return carries the result of a call or a result variable that a deferred function may reset ("+describeValue(ret.Results[0])+"), which may be the empty value")
		} else {
			r.add("NOPARTIAL", key, w.Pos(ret.Pos()), Violated, "failure return carries a computed value ("+describeValue(ret.Results[0])+")")
		}
	}
	// a single exit `return result, err` where err is merged from several edges: on the edges
	// that bring a non-nil error the result brought along must be the empty value too
	zeroV := func(v ssa.Value) bool {
		v = resolve(v)
		if k, ok := v.(*ssa.Const); ok {
			return k.Value == nil || k.Value.String() == "false" || k.Value.String() == "0" || k.Value.String() == `""`
		}
		return isEmptySliceBase(v)
	}
	ei := errResultIndex(f)
	for _, ret := range returnsOf(f) {
		if ei < 0 || ei >= len(ret.Results) || len(ret.Results) < 2 || e.isFailureReturn(f, ret) {
			continue
		}
		ep, ok := ret.Results[ei].(*ssa.Phi)
		if !ok {
			continue
		}
		res := ret.Results[0]
		for i, edge := range ep.Edges {
			if i >= len(ep.Block().Preds) {
				break
			}
			pred := ep.Block().Preds[i]
			if classifyErrValue(f, edge, pred, map[ssa.Value]bool{}) != retError {
				continue
			}
			rv := res
			if rp, isPhi := res.(*ssa.Phi); isPhi && rp.Block() == ep.Block() && i < len(rp.Edges) {
				rv = rp.Edges[i]
			}
			partial := false
			for _, leaf := range phiLeaves(resolve(rv)) {
				if !zeroV(leaf) {
					if c, isCall := resolve(leaf).(*ssa.Call); isCall && builtinName(c) == "append" {
						partial = true
					}
				}
			}
			if lp, isPhi := resolve(rv).(*ssa.Phi); isPhi {
				// a loop-carried list that is appended to
				ai := appendChain(lp)
				if len(ai.Appends) > 0 {
					partial = true
				}
			}
			if partial {
				n++
				r.add("NOPARTIAL", fmt.Sprintf("%s / merged return / edge#%d", fn, i+1), w.Pos(ret.Pos()), Violated,
					"on the edge that brings the error "+describeValue(edge)+" the single return still carries the list built so far ("+describeValue(rv)+"): a partial result escapes together with the error")
			}
		}
	}
	if n == 0 {
		r.add("NOPARTIAL", fn, w.Pos(f.Pos()), Undecided, "no failure return found")
	}
}

// checkTwoPass: Discharged if the scenario always fails; otherwise a second
// exploration assumes that every validation-shaped test of the subject that
// the oracle cannot evaluate rejects it: if the scenario then always fails
// the verdict is Undecided (validated in a form the analysis does not
// interpret), else Violated (some path validates nothing).
func (e *scEngine) checkTwoPass(f *ssa.Function, sc scenario) (Status, string) {
	st, why := e.checkTwoPass0(f, sc)
	if st == Violated {
		if esc := subjectEscapes(f, sc); esc != "" {
			return Undecided, why + "; but the argument is also handed to " + esc + ", whose checks this exploration does not follow"
		}
		// the error result is a variable that function literals of f assign (reject :=
		// func() { err = ... }; if rejectIf(bad) { return }): which returns carry an error depends
		// on what those literals did, which the exploration does not correlate with the branch
		if errAssignedByLiterals(f) {
			return Undecided, why + "; but the error result is a variable assigned by function literals of " + f.Name() + ", whose effect on the returns was not followed"
		}
	}
	return st, why
}

// errAssignedByLiterals: some return of f hands back, as its error, the current content of a
// variable that function literals of f assign.
func errAssignedByLiterals(f *ssa.Function) bool {
	ei := errResultIndex(f)
	if ei < 0 {
		return false
	}
	for _, ret := range returnsOf(f) {
		if ei >= len(ret.Results) {
			continue
		}
		if ld, ok := ret.Results[ei].(*ssa.UnOp); ok && ld.Op == token.MUL {
			if al, ok := ld.X.(*ssa.Alloc); ok && closureWrites(al) && literalUsedUndeferred(al) {
				return true
			}
		}
	}
	return false
}

// literalUsedUndeferred: a function literal that assigns the variable is used other than in a
// defer statement (deferred literals run after the return value is set and are handled by the
// return classification itself).
func literalUsedUndeferred(al *ssa.Alloc) bool {
	for _, ref := range *al.Referrers() {
		mc, ok := ref.(*ssa.MakeClosure)
		if !ok || mc.Referrers() == nil {
			continue
		}
		fn, _ := mc.Fn.(*ssa.Function)
		if fn == nil {
			continue
		}
		writes := false
		for i, b := range mc.Bindings {
			if b != ssa.Value(al) || i >= len(fn.FreeVars) || fn.FreeVars[i].Referrers() == nil {
				continue
			}
			for _, r2 := range *fn.FreeVars[i].Referrers() {
				if st, ok := r2.(*ssa.Store); ok && st.Addr == ssa.Value(fn.FreeVars[i]) {
					writes = true
				}
			}
		}
		if !writes {
			continue
		}
		for _, use := range *mc.Referrers() {
			switch use.(type) {
			case *ssa.Defer, *ssa.DebugRef:
			default:
				return true
			}
		}
	}
	return false
}

// subjectEscapes: the scenario's argument is captured by a function literal that
// is not called on the spot: started with `go`, handed to a helper that runs it
// (a worker pool, a push iterator), or kept in a variable.  Validation done in
// there -- recording its failure in a slot or a captured variable that is
// examined after a Wait -- is invisible to the path exploration.
func subjectEscapes(f *ssa.Function, sc scenario) string {
	if sc.Param >= len(f.Params) {
		return ""
	}
	subj := ssa.Value(f.Params[sc.Param])
	isSubj := func(b ssa.Value) bool {
		if b == subj || resolve(b) == subj {
			return true
		}
		if al, ok := b.(*ssa.Alloc); ok && al.Referrers() != nil {
			for _, ref := range *al.Referrers() {
				if st, ok := ref.(*ssa.Store); ok && st.Addr == ssa.Value(al) && resolve(st.Val) == subj {
					return true
				}
			}
		}
		return false
	}
	out := ""
	var scan func(g *ssa.Function, depth int)
	scan = func(g *ssa.Function, depth int) {
		if depth > 2 || out != "" {
			return
		}
		instrs(g, func(in ssa.Instruction) {
			mc, ok := in.(*ssa.MakeClosure)
			if !ok || out != "" {
				return
			}
			captures := false
			for _, b := range mc.Bindings {
				if isSubj(b) {
					captures = true
				}
			}
			if !captures || mc.Referrers() == nil {
				return
			}
			for _, ref := range *mc.Referrers() {
				switch x := ref.(type) {
				case *ssa.Go:
					out = "a goroutine started at " + g.Prog.Fset.Position(x.Pos()).String()
				case *ssa.Call:
					if x.Call.Value != ssa.Value(mc) {
						for _, a := range x.Call.Args {
							if a == ssa.Value(mc) {
								out = "a function literal passed to " + shortInstr(x)
							}
						}
					}
				case *ssa.MakeClosure:
					out = "a function literal that another function literal captures (" + g.Prog.Fset.Position(x.Pos()).String() + ")"
				case *ssa.Store:
					// kept in a variable cell: shared with other literals (a worker body that the
					// goroutines and the sequential fallback both call)
					if al, ok := x.Addr.(*ssa.Alloc); ok && al.Referrers() != nil {
						for _, r2 := range *al.Referrers() {
							if _, isMC := r2.(*ssa.MakeClosure); isMC {
								out = "a function literal kept in a variable that other function literals capture (" + g.Prog.Fset.Position(x.Pos()).String() + ")"
							}
						}
					}
				case *ssa.Defer:
				case *ssa.DebugRef:
				}
			}
		})
	}
	scan(f, 0)
	return out
}

func (e *scEngine) checkTwoPass0(f *ssa.Function, sc scenario) (Status, string) {
	e.undecidedOnSubject = nil
	ok, why := e.check(f, sc, 0)
	if ok {
		return Discharged, ""
	}
	tests := uniqStrings(e.undecidedOnSubject)
	if len(tests) == 0 {
		return Violated, why
	}
	e.assumeReject = true
	rejects, _ := e.check(f, sc, 0)
	e.assumeReject = false
	e.undecidedOnSubject = nil
	if rejects {
		if wit := e.regionWitness(f, sc); wit != "" {
			return Violated, wit
		}
		return Undecided, why + ", but only past test(s) of the argument the analysis could not evaluate (" + abbrev(strings.Join(tests, "; "), 240) + ")"
	}
	return Violated, why
}

// errFlowsOn: the error value, or its comparison with nil, is used other than
// directly as a branch condition: stored in a flag (phi / conjunction),
// returned, wrapped, or passed to a call.
func errFlowsOn(ev ssa.Value) bool {
	for _, ref := range *ev.Referrers() {
		switch x := ref.(type) {
		case *ssa.Return, *ssa.Phi, *ssa.Store, *ssa.MakeInterface, *ssa.ChangeInterface:
			return true
		case *ssa.Call:
			return true
		case *ssa.BinOp:
			if x.Referrers() == nil {
				continue
			}
			for _, r2 := range *x.Referrers() {
				switch r2.(type) {
				case *ssa.If:
				case *ssa.DebugRef:
				default:
					return true // flag = err == nil, ok && err == nil, ...
				}
			}
		}
	}
	return false
}

// ---------------------------------------------------------------- ERRSWALLOW

// ruleErrSwallow: a module call's error that is only compared with nil, and
// whose non-nil edge reaches nothing but returns that report success (nil
// error constant), is provably lost: the caller is told the operation worked.
// Errors that are carried on (stored, returned, wrapped, folded into a flag)
// and edges from which a failure or undetermined return is reachable are
// outside the rule.
func ruleErrSwallow(w *World, r *Report, in map[*ssa.Function]bool) {
	r.Rule("ERRSWALLOW", "a function with a NAMED error result does not test a callee's error in a variable that shadows that result (x, err := g() inside a block) while every return reachable from the non-nil edge returns the never-assigned named result: the failure is reported as success.  A swallowed error without the shadowing shape is listed as undecided (it can be by design); errors that are stored, returned, wrapped or folded into a flag, and edges that can still reach a failure return, are not judged")
	for _, f := range w.ModFuncs {
		if f.Synthetic != "" || f.Blocks == nil || errResultIndex(f) < 0 {
			continue
		}
		can := w.IsCanary(f)
		if !can && in != nil && !in[f] {
			continue
		}
		name := w.FuncName(f)
		ord := map[string]int{}
		instrs(f, func(ins ssa.Instruction) {
			c, ok := ins.(*ssa.Call)
			if !ok {
				return
			}
			g := calleeOf(c)
			if g == nil || !w.InModule(g) {
				return
			}
			ei := errResultIndex(g)
			if ei < 0 {
				return
			}
			var ev ssa.Value = c
			if g.Signature.Results().Len() > 1 {
				e := extractOf(c, ei)
				if e == nil {
					return // discarded with _: the explicit discard is ERRUSED's business
				}
				ev = e
			}
			if ev.Referrers() == nil || errFlowsOn(ev) {
				return
			}
			gname := calleeDisplay(w, g)
			ord[gname]++
			key := fmt.Sprintf("ERRSWALLOW / %s / call#%d of %s", name, ord[gname], gname)
			tests, lost := 0, 0
			for _, ref := range *ev.Referrers() {
				b, ok := ref.(*ssa.BinOp)
				if !ok || (b.Op != token.NEQ && b.Op != token.EQL) || !(isNilConst(b.X) || isNilConst(b.Y)) {
					continue
				}
				for _, blk := range f.Blocks {
					t, fl, i := ifSuccs(blk)
					if i == nil || i.Cond != ssa.Value(b) {
						continue
					}
					nonNil := t
					if b.Op == token.EQL {
						nonNil = fl
					}
					tests++
					reach := reachableFrom(nonNil, nil)
					nsucc, nother := 0, 0
					for _, ret := range returnsOf(f) {
						if !reach[ret.Block()] {
							continue
						}
						if classifyReturn(f, ret) == retSuccess {
							nsucc++
						} else {
							nother++
						}
					}
					// a panic on the edge is not a success report either
					for bb := range reach {
						if len(bb.Instrs) > 0 {
							if _, isPanic := bb.Instrs[len(bb.Instrs)-1].(*ssa.Panic); isPanic {
								nother++
							}
						}
					}
					if nsucc > 0 && nother == 0 {
						lost++
					}
				}
			}
			if tests == 0 {
				return
			}
			// the same callee is called elsewhere in the function with its error passed on: a
			// validation pass may have made this failure impossible (a stated belief, not decided)
			if lost > 0 {
				other := false
				instrs(f, func(in2 ssa.Instruction) {
					c2, ok := in2.(*ssa.Call)
					if !ok || c2 == c || calleeOf(c2) != g {
						return
					}
					var ev2 ssa.Value = c2
					if g.Signature.Results().Len() > 1 {
						if e := extractOf(c2, ei); e != nil {
							ev2 = e
						} else {
							return
						}
					}
					if ev2.Referrers() != nil && errFlowsOn(ev2) {
						other = true
					}
				})
				if other {
					r.Add(Obligation{Rule: "ERRSWALLOW", Key: key, Pos: w.Pos(c.Pos()), Status: Undecided, Detail: "the error of " + gname + " is swallowed here, but another call of it in this function passes its error on (possibly a validation pass): not decided -- " + shortInstr(c), Canary: can})
					return
				}
			}
			if lost > 0 {
				if sh := shadowedErrResult(w, f); sh == "" {
					r.Add(Obligation{Rule: "ERRSWALLOW", Key: key, Pos: w.Pos(c.Pos()), Status: Undecided, Detail: "the error of " + gname + " is only compared with nil and every return reachable from its non-nil edge reports success; whether that is intended (an invalid element answered without an error) cannot be read off the code -- " + shortInstr(c), Canary: can})
					return
				}
			}
			if lost > 0 {
				r.Add(Obligation{Rule: "ERRSWALLOW", Key: key, Pos: w.Pos(c.Pos()), Status: Violated, Detail: "the error of " + gname + " is kept in a variable that shadows the named error result " + shadowedErrResult(w, f) + ", is only compared with nil, and every return reachable from its non-nil edge returns the never-assigned result (nil): the failure is lost -- " + shortInstr(c), Canary: can})
			} else {
				r.Add(Obligation{Rule: "ERRSWALLOW", Key: key, Pos: w.Pos(c.Pos()), Status: Discharged, Detail: "non-nil edge reaches a failure return", Canary: can})
			}
		})
	}
}

// shadowedErrResult: f has a named error result that an inner declaration of
// the same name and type shadows; returns "name (declared at pos)" or "".
func shadowedErrResult(w *World, f *ssa.Function) string {
	fd, ok := f.Syntax().(*ast.FuncDecl)
	if !ok || fd.Body == nil || f.Pkg == nil {
		return ""
	}
	var info *types.Info
	for _, p := range w.Pkgs {
		if p.Types == f.Pkg.Pkg {
			info = p.TypesInfo
		}
	}
	if info == nil {
		return ""
	}
	ei := errResultIndex(f)
	if ei < 0 {
		return ""
	}
	res := f.Signature.Results().At(ei)
	if res.Name() == "" || res.Name() == "_" {
		return ""
	}
	out := ""
	ast.Inspect(fd.Body, func(n ast.Node) bool {
		id, ok := n.(*ast.Ident)
		if !ok || id.Name != res.Name() {
			return true
		}
		if obj := info.Defs[id]; obj != nil && obj != types.Object(res) {
			if v, isVar := obj.(*types.Var); isVar && isErrorType(v.Type()) {
				out = res.Name() + " (redeclared at " + w.Pos(id.Pos()) + ")"
			}
		}
		return true
	})
	return out
}

// failsAlong: the error operand of a single-exit return is a phi; restricted to
// the incoming edges whose predecessor lies in `reach` (the blocks reachable
// from the failing edge under consideration), every incoming value is an error.
func failsAlong(f *ssa.Function, ret *ssa.Return, reach map[*ssa.BasicBlock]bool, testBlk, nonNil *ssa.BasicBlock) bool {
	ei := errResultIndex(f)
	if ei < 0 || ei >= len(ret.Results) {
		return false
	}
	seen := map[*ssa.Phi]bool{}
	var all func(v ssa.Value, at *ssa.BasicBlock) bool
	all = func(v ssa.Value, at *ssa.BasicBlock) bool {
		ph, ok := v.(*ssa.Phi)
		if !ok {
			return classifyErrValue(f, v, at, map[ssa.Value]bool{}) == retError
		}
		if seen[ph] {
			return true
		}
		seen[ph] = true
		n := 0
		for i, e := range ph.Edges {
			pred := ph.Block().Preds[i]
			if !reach[pred] && !(pred == testBlk && ph.Block() == nonNil) {
				continue
			}
			n++
			if !all(e, pred) {
				return false
			}
		}
		return n > 0
	}
	return all(ret.Results[ei], ret.Block())
}

// errEdgeCanFail: some nil-test of the error has a non-nil edge from which a
// failure return (or one whose error cannot be classified) is reachable.
// overwrittenByNextIteration: the error value's only use is the loop-carried variable it is
// assigned to (a phi at the head of the loop that contains the parse call, receiving the value
// unmerged over the back edge), and neither the value nor that variable is compared inside the
// loop: every iteration replaces what the previous one stored.
func overwrittenByNextIteration(f *ssa.Function, ev ssa.Value) string {
	var phi *ssa.Phi
	for _, ref := range *ev.Referrers() {
		switch x := ref.(type) {
		case *ssa.Phi:
			if phi != nil && phi != x {
				return ""
			}
			phi = x
		case *ssa.DebugRef:
		default:
			return "" // tested, stored, returned or passed on in place
		}
	}
	if phi == nil {
		return ""
	}
	evIn, ok := ev.(ssa.Instruction)
	if !ok {
		return ""
	}
	// the phi heads a loop that contains the call: it dominates the call's block and the call's
	// block reaches it again
	if !phi.Block().Dominates(evIn.Block()) || !reachableFrom(evIn.Block(), nil)[phi.Block()] {
		return ""
	}
	inLoop := map[*ssa.BasicBlock]bool{}
	for b := range reachableFrom(phi.Block(), nil) {
		if reachableFrom(b, nil)[phi.Block()] {
			inLoop[b] = true
		}
	}
	// every back edge hands the fresh value over as it is
	back := 0
	for i, p := range phi.Block().Preds {
		if !inLoop[p] {
			continue
		}
		back++
		if phi.Edges[i] != ev {
			return ""
		}
	}
	if back == 0 {
		return ""
	}
	// the carried variable is not looked at inside the loop
	for _, ref := range *phi.Referrers() {
		in, ok := ref.(ssa.Instruction)
		if !ok {
			continue
		}
		if _, isDbg := ref.(*ssa.DebugRef); isDbg {
			continue
		}
		if inLoop[in.Block()] {
			return ""
		}
	}
	return "loop-carried " + phi.Name() + " " + phi.Comment
}

// errEdgeRecords: the non-nil edge of a test of ev, inside a function literal, stores to a
// captured variable or calls a closure / function value.
func errEdgeRecords(f *ssa.Function, ev ssa.Value) bool {
	for _, ref := range *ev.Referrers() {
		b, ok := ref.(*ssa.BinOp)
		if !ok || (b.Op != token.NEQ && b.Op != token.EQL) || !(isNilConst(b.X) || isNilConst(b.Y)) {
			continue
		}
		for _, blk := range f.Blocks {
			t, fl, i := ifSuccs(blk)
			if i == nil {
				continue
			}
			neg := false
			cond := i.Cond
			if u, ok := cond.(*ssa.UnOp); ok && u.Op == token.NOT {
				cond, neg = u.X, true
			}
			if cond != ssa.Value(b) {
				continue
			}
			nonNil, other := t, fl
			if (b.Op == token.EQL) != neg {
				nonNil, other = fl, t
			}
			onlyNonNil := reachableFrom(nonNil, nil)
			for ob := range reachableFrom(other, nil) {
				delete(onlyNonNil, ob)
			}
			for ob := range onlyNonNil {
				for _, in := range ob.Instrs {
					switch x := in.(type) {
					case *ssa.Store:
						root := x.Addr
						for {
							switch a := root.(type) {
							case *ssa.FieldAddr:
								root = a.X
								continue
							case *ssa.IndexAddr:
								root = a.X
								continue
							}
							break
						}
						if _, isFree := root.(*ssa.FreeVar); isFree {
							return true
						}
					case *ssa.Call:
						if x.Common().StaticCallee() == nil && builtinName(x) == "" && !x.Common().IsInvoke() {
							return true
						}
						if g := x.Common().StaticCallee(); g != nil && g.Parent() != nil {
							return true
						}
					}
				}
			}
		}
	}
	return false
}

func errEdgeCanFail(f *ssa.Function, e *scEngine, ev ssa.Value) bool {
	for _, ref := range *ev.Referrers() {
		b, ok := ref.(*ssa.BinOp)
		if !ok || (b.Op != token.NEQ && b.Op != token.EQL) || !(isNilConst(b.X) || isNilConst(b.Y)) {
			continue
		}
		for _, blk := range f.Blocks {
			t, fl, i := ifSuccs(blk)
			if i == nil {
				continue
			}
			neg := false
			cond := i.Cond
			if u, ok := cond.(*ssa.UnOp); ok && u.Op == token.NOT {
				cond, neg = u.X, true
			}
			if cond != ssa.Value(b) {
				continue
			}
			nonNil := t
			if (b.Op == token.EQL) != neg {
				nonNil = fl
			}
			reach := reachableFrom(nonNil, nil)
			for _, ret := range returnsOf(f) {
				if !reach[ret.Block()] {
					continue
				}
				if e.isFailureReturn(f, ret) || (errResultIndex(f) >= 0 && classifyReturn(f, ret) == retUnknown) {
					return true
				}
				// a (value, ok bool) validator with a single exit: the verdict is a flag that can be false
				if errResultIndex(f) < 0 && len(ret.Results) > 0 {
					last := ret.Results[len(ret.Results)-1]
					if bt, ok := last.Type().Underlying().(*types.Basic); ok && bt.Kind() == types.Bool {
						for _, l := range append(phiLeaves(resolve(last)), resolve(last)) {
							if k, ok := resolve(l).(*ssa.Const); ok && k.Value != nil && k.Value.String() == "false" {
								return true
							}
						}
					}
				}
			}
		}
	}
	return false
}

// regionWitness: a region is rejected only if EVERY value in it is; a single
// value of the region that passes every test of the argument (all of them
// evaluated, none assumed) is a counter-example.  The finite ends of the
// region are tried, the other integer arguments taking ordinary valid values of
// their kind.  Returns the description of the counter-example, or "".
func (e *scEngine) regionWitness(f *ssa.Function, sc scenario) string {
	if sc.Kind == scRegion && !sc.Elem && !sc.Fields && sc.Acc == nil {
		for _, wv := range []float64{sc.Hi, sc.Lo} {
			if math.IsInf(wv, 0) || sc.Lo == sc.Hi {
				continue
			}
			pt := sc
			pt.Lo, pt.Hi = wv, wv
			// the other integer arguments take ordinary valid values of their kind (a zoom of
			// 10, base exponent 25, offset 0): the witness is one concrete call
			samples := ""
			ke := kindsFor(e.w)
			for i, p := range f.Params {
				if i == sc.Param || !isIntType(p.Type()) {
					continue
				}
				role := ke.paramRole(f, i)
				if role == nil {
					continue
				}
				switch {
				case role.Scalar != 0 && role.Scalar&^ks(kHZ, kVZ, kZ, kTVZ) == 0:
					pt.Consts += fmt.Sprintf("%d=#10,", i)
					samples += fmt.Sprintf(", %s=10", p.Name())
				case role.Scalar == ks(kZBASE):
					pt.Consts += fmt.Sprintf("%d=#25,", i)
					samples += fmt.Sprintf(", %s=25", p.Name())
				case role.Scalar == ks(kZOFF):
					pt.Consts += fmt.Sprintf("%d=#0,", i)
					samples += fmt.Sprintf(", %s=0", p.Name())
				}
			}
			e.undecidedOnSubject = nil
			ok2, why2 := e.check(f, pt, 0)
			open := len(e.undecidedOnSubject)
			if os.Getenv("SID_DEBUG_WIT") != "" {
				fmt.Fprintf(os.Stderr, "  open tests: %v\n", e.undecidedOnSubject)
			}
			e.undecidedOnSubject = nil
			if os.Getenv("SID_DEBUG_WIT") != "" {
				fmt.Fprintf(os.Stderr, "WITNESS %s %v consts=%q ok=%v open=%d why=%s\n", f.Name(), wv, pt.Consts, ok2, open, why2)
			}
			if !ok2 && open == 0 {
				return fmt.Sprintf("for the value %v of the argument%s every test of it is evaluated and %s", wv, samples, why2)
			}
		}
	}
	return ""
}
