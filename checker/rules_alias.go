package main

// WINDOW-APPEND: a two-index window xs[i:j] of a longer list keeps the spare
// capacity behind it.  If the window is stored where something later appends to
// it, the append writes into xs[j], xs[j+1], ... - the elements of the shared
// list that other windows (or the list itself) still use.

import (
	"fmt"
	"go/types"

	"golang.org/x/tools/go/ssa"
)

// appendTargetFields: struct fields f such that some function does
// x.f = append(x.f, ...).
func appendTargetFields(w *World) map[*types.Var]string {
	out := map[*types.Var]string{}
	for _, f := range w.ModFuncs {
		if f.Blocks == nil {
			continue
		}
		instrs(f, func(in ssa.Instruction) {
			c, ok := in.(*ssa.Call)
			if !ok || builtinName(c) != "append" || len(c.Call.Args) == 0 {
				return
			}
			ld, ok := loadOf(c.Call.Args[0])
			if !ok {
				return
			}
			if fv, _, ok := fieldOf(ld); ok {
				if _, seen := out[fv]; !seen {
					out[fv] = w.FuncName(f) + " (" + w.Pos(c.Pos()) + ")"
				}
			}
		})
	}
	return out
}

func ruleWindowAppend(w *World, r *Report, in map[*ssa.Function]bool) {
	r.Rule("WINDOW-APPEND", "a two-index window xs[i:j] of a list (no capacity limit xs[i:j:j]) is not stored into a struct field that some function appends to: the append would overwrite xs[j], xs[j+1], ..., which the other windows of the same list still use")
	targets := appendTargetFields(w)
	// parameter index -> field, for constructors that store a slice parameter into a field
	storesParam := func(g *ssa.Function) map[int]*types.Var {
		out := map[int]*types.Var{}
		if g == nil || g.Blocks == nil {
			return out
		}
		instrs(g, func(in ssa.Instruction) {
			st, ok := in.(*ssa.Store)
			if !ok {
				return
			}
			fv, _, ok := fieldOf(st.Addr)
			if !ok {
				return
			}
			if pi := paramIndex(g, resolve(st.Val)); pi >= 0 {
				out[pi] = fv
			}
		})
		return out
	}
	n := 0
	for _, f := range w.ModFuncs {
		if f.Synthetic != "" || f.Blocks == nil {
			continue
		}
		can := w.IsCanary(f)
		if !can && (in == nil || !in[f]) {
			continue
		}
		name := w.FuncName(f)
		ord := 0
		instrs(f, func(ins ssa.Instruction) {
			sl, ok := ins.(*ssa.Slice)
			if !ok || sl.High == nil || sl.Max != nil || !isSlice(sl.X.Type()) {
				return
			}
			// xs[i:len(xs)] keeps nothing behind it that is in use
			if lc, ok := resolve(sl.High).(*ssa.Call); ok && builtinName(lc) == "len" && sameValue(lc.Call.Args[0], sl.X) {
				return
			}
			if sl.Referrers() == nil {
				return
			}
			for _, ref := range *sl.Referrers() {
				var fv *types.Var
				how := ""
				switch x := ref.(type) {
				case *ssa.Store:
					if x.Val == ssa.Value(sl) {
						if v, _, ok := fieldOf(x.Addr); ok {
							fv, how = v, "stored into field "+v.Name()
						}
					}
				case *ssa.Call:
					g := calleeOf(x)
					if g == nil || !w.InModule(g) {
						continue
					}
					sp := storesParam(g)
					for i, a := range x.Call.Args {
						if a == ssa.Value(sl) {
							if v, ok := sp[i]; ok {
								fv, how = v, "handed to "+w.FuncName(g)+", which stores it into field "+v.Name()
							}
						}
					}
				}
				if fv == nil {
					continue
				}
				where, isTarget := targets[fv]
				if !isTarget {
					continue
				}
				ord++
				if !can {
					n++
				}
				r.Add(Obligation{Rule: "WINDOW-APPEND", Key: fmt.Sprintf("WINDOW-APPEND / %s / window#%d", name, ord), Pos: w.Pos(sl.Pos()), Status: Violated,
					Detail: "the window " + shortInstr(sl) + " of a longer list is " + how + "; " + where + " appends to that field, and the append writes into the elements of the list that follow the window (they belong to other windows)", Canary: can})
			}
		})
	}
	if n == 0 {
		r.add("WINDOW-APPEND", "module scan", "-", Discharged, fmt.Sprintf("no window of a list is stored into one of the %d append-target field(s)", len(targets)))
	}
}

// INPLACE-GROW: ys := xs[:0] re-uses the storage of xs.  Filtering xs into ys
// while ranging over xs is safe as long as an iteration appends at most one
// element: the write position never passes the read position.  An iteration
// that appends two or more elements (a subdivision, an expansion) overwrites
// elements of xs that the loop has not read yet.
func ruleInplaceGrow(w *World, r *Report, in map[*ssa.Function]bool) {
	r.Rule("INPLACE-GROW", "a list that re-uses the storage of the list being ranged over (ys := xs[:0]; for _, x := range xs { ys = append(ys, ...) }) receives at most one element per iteration: with two or more the write position overtakes the read position and unread elements of xs are overwritten")
	n := 0
	for _, f := range w.ModFuncs {
		if f.Synthetic != "" || f.Blocks == nil {
			continue
		}
		can := w.IsCanary(f)
		if !can && (in == nil || !in[f]) {
			continue
		}
		name := w.FuncName(f)
		ord := 0
		instrs(f, func(ins ssa.Instruction) {
			sl, ok := ins.(*ssa.Slice)
			if !ok || sl.High == nil || sl.Max != nil || !isSlice(sl.X.Type()) {
				return
			}
			if k, isK := constInt(sl.High); !isK || k != 0 {
				return
			}
			for _, sr := range findSliceRanges(f) {
				if !sameValue(sr.X, sl.X) {
					continue
				}
				blocks := sr.blocks()
				// appends inside the loop whose chain starts at the window
				var aps []*ssa.Call
				for b := range blocks {
					for _, in2 := range b.Instrs {
						c, ok := in2.(*ssa.Call)
						if !ok || builtinName(c) != "append" {
							continue
						}
						ai := appendChain(c)
						for _, base := range ai.Bases {
							if base == ssa.Value(sl) {
								aps = append(aps, c)
							}
						}
					}
				}
				if len(aps) == 0 {
					continue
				}
				ord++
				if !can {
					n++
				}
				key := fmt.Sprintf("INPLACE-GROW / %s / window#%d", name, ord)
				bad, open := "", ""
				for _, ap := range aps {
					elems, spread := appendedElems(ap)
					if spread != nil {
						open = "an append spreads a list of unknown length into the re-used storage (" + shortInstr(ap) + ")"
						continue
					}
					if len(elems) > 1 {
						bad = fmt.Sprintf("one iteration appends %d elements (%s at %s)", len(elems), shortInstr(ap), w.Pos(ap.Pos()))
					}
					// a second append reachable from this one within the same iteration
					after := map[*ssa.BasicBlock]bool{}
					for _, s := range ap.Block().Succs {
						for b := range reachableFrom(s, map[*ssa.BasicBlock]bool{sr.Header: true}) {
							if blocks[b] {
								after[b] = true
							}
						}
					}
					cnt := 0
					for _, in2 := range ap.Block().Instrs {
						for _, a2 := range aps {
							if in2 == ssa.Instruction(a2) {
								cnt++
							}
						}
					}
					for _, a2 := range aps {
						if a2 != ap && a2.Block() != ap.Block() && after[a2.Block()] {
							cnt++
						}
					}
					if cnt > 1 && bad == "" {
						bad = "one iteration can append twice (" + shortInstr(ap) + " at " + w.Pos(ap.Pos()) + " and a second append after it)"
					}
				}
				switch {
				case bad != "":
					r.Add(Obligation{Rule: "INPLACE-GROW", Key: key, Pos: w.Pos(sl.Pos()), Status: Violated, Canary: can,
						Detail: shortInstr(sl) + " re-uses the storage of the list the loop at " + w.Pos(sr.Header.Instrs[0].Pos()) + " ranges over, and " + bad + ": the write position overtakes the read position and elements that have not been read yet are overwritten"})
				case open != "":
					r.Add(Obligation{Rule: "INPLACE-GROW", Key: key, Pos: w.Pos(sl.Pos()), Status: Undecided, Canary: can, Detail: open})
				default:
					r.Add(Obligation{Rule: "INPLACE-GROW", Key: key, Pos: w.Pos(sl.Pos()), Status: Discharged, Canary: can, Detail: "in-place filter: at most one element appended per element read"})
				}
			}
		})
	}
	if n == 0 {
		r.add("INPLACE-GROW", "module scan", "-", Discharged, "no list re-uses the storage of a list that is being ranged over")
	}
}
