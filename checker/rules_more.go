package main

import (
	"fmt"
	"go/token"
	"go/types"
	"os"
	"sort"
	"strconv"
	"strings"

	"golang.org/x/tools/go/ssa"
)

func fmtInt(n int) string { return strconv.Itoa(n) }

func derefType(t types.Type) types.Type {
	if p, ok := t.Underlying().(*types.Pointer); ok {
		return p.Elem()
	}
	return types.NewPointer(t)
}

// ---------------------------------------------------------------- ELIGIBILITY (merge)

func ruleEligibility(w *World, r *Report) {
	r.Rule("ELIGIBILITY", "in the merge, an input ID is passed through unmerged only when it is coarser than the target on some axis (hZoom < target hZoom or vZoom < target vZoom) and is a merge candidate exactly when hZoom >= target and vZoom >= target: decided by enumerating the 3x3 orderings of (ID zoom vs target zoom) per axis over the loop body's control-flow graph")
	fn := "integrate.MergeExtendedSpatialIds"
	f := lookupByName(w, fn)
	if f == nil {
		r.add("ELIGIBILITY", fn, "?", Unresolved, "function not found")
		return
	}
	ke := kindsFor(w)
	var loop *sliceRange
	for _, sr := range findSliceRanges(f) {
		if resolve(sr.X) == ssa.Value(f.Params[0]) {
			loop = sr
			break
		}
	}
	pos := w.Pos(f.Pos())
	if loop == nil {
		r.add("ELIGIBILITY", fn+" / loop", pos, Undecided, "no range loop over the input IDs")
		return
	}
	blocks := loop.blocks()
	// the parsed object of this iteration
	var obj ssa.Value
	var hzCall, vzCall ssa.Value
	for b := range blocks {
		for _, in := range b.Instrs {
			c, ok := in.(*ssa.Call)
			if !ok {
				continue
			}
			g := calleeOf(c)
			if g == nil {
				continue
			}
			if funcIs(g, modPath+"/common/object", "NewExtendedSpatialID") && loop.isElem(resolve(c.Call.Args[0])) {
				obj = extractOf(c, 0)
			}
		}
	}
	if obj == nil {
		r.add("ELIGIBILITY", fn+" / parse", pos, Undecided, "the loop does not parse its element with object.NewExtendedSpatialID")
		return
	}
	for _, b := range f.Blocks {
		if !blocks[b] {
			continue
		}
		for _, in := range b.Instrs {
			c, ok := in.(*ssa.Call)
			if !ok {
				continue
			}
			g := calleeOf(c)
			if g == nil || len(c.Call.Args) != 1 {
				continue
			}
			fv := accessorField(g)
			if fv == nil {
				continue
			}
			if ld, ok := loadOf(resolve(c.Call.Args[0])); !ok || resolve(ld) != obj {
				continue
			}
			if ke.fieldK[fv] == ks(kHZ) && hzCall == nil {
				hzCall = c
			}
			if ke.fieldK[fv] == ks(kVZ) && vzCall == nil {
				vzCall = c
			}
		}
	}
	if hzCall == nil || vzCall == nil {
		r.add("ELIGIBILITY", fn+" / zoom tests", pos, Undecided, "the loop does not read both HZoom() and VZoom() of the parsed ID")
		return
	}
	H, V := f.Params[1], f.Params[2]
	// marked appends
	type mark struct {
		blk  *ssa.BasicBlock
		cand bool
		pos  string
	}
	var marks []mark
	for _, b := range f.Blocks {
		if !blocks[b] {
			continue
		}
		for _, in := range b.Instrs {
			c, ok := in.(*ssa.Call)
			if !ok || builtinName(c) != "append" {
				continue
			}
			elems, _ := appendedElems(c)
			for _, el := range elems {
				el = resolve(el)
				if el == obj {
					marks = append(marks, mark{b, true, w.Pos(c.Pos())})
				} else if isStringType(el.Type()) {
					marks = append(marks, mark{b, false, w.Pos(c.Pos())})
				}
			}
		}
	}
	nC, nP := 0, 0
	for _, m := range marks {
		if m.cand {
			nC++
		} else {
			nP++
		}
	}
	if nC == 0 || nP == 0 {
		r.add("ELIGIBILITY", fn+" / split", pos, Undecided, fmt.Sprintf("expected a candidate append and a pass-through append in the loop, found %d and %d", nC, nP))
		return
	}
	names := map[rel]string{relLT: "<", relEQ: "==", relGT: ">"}
	bad := ""
	var open []string
	for _, r1 := range []rel{relLT, relEQ, relGT} {
		for _, r2 := range []rel{relLT, relEQ, relGT} {
			orc := oracleFor([]pairRel{{hzCall, H, r1}, {vzCall, V, r2}})
			reach := simulate(loop.Body, map[*ssa.BasicBlock]bool{loop.Header: true, loop.Done: true}, orc)
			eligible := r1 != relLT && r2 != relLT
			candReach, passReach := false, false
			for _, m := range marks {
				if reach[m.blk] {
					if m.cand {
						candReach = true
					} else {
						passReach = true
					}
				}
			}
			combo := fmt.Sprintf("hZoom %s target, vZoom %s target", names[r1], names[r2])
			if os.Getenv("SID_DEBUG_ELIG") != "" {
				for _, blk := range f.Blocks {
					if _, _, ifi := ifSuccs(blk); ifi != nil && blocks[blk] {
						o, k := orc(ifi.Cond)
						fmt.Fprintln(os.Stderr, "   if", blk.Index, shortInstr(ifi), "cond", describeValue(ifi.Cond), "->", o, k)
					}
				}
				fmt.Fprintln(os.Stderr, "ELIG", combo, "hz", hzCall.Name(), "vz", vzCall.Name(), "cand", candReach, "pass", passReach)
				for b := range reach {
					fmt.Fprint(os.Stderr, " ", b.Index)
				}
				fmt.Fprintln(os.Stderr)
			}
			if candReach && passReach {
				// the branch between the two appends was not decided by the ordering: the test is
				// in a form the enumeration does not read (a helper, a method of a value type)
				open = append(open, combo)
				continue
			}
			switch {
			case eligible && passReach:
				bad = combo + ": the ID can be passed through unmerged although it is not coarser than the target on any axis"
			case eligible && !candReach:
				bad = combo + ": the ID never becomes a merge candidate"
			case !eligible && candReach:
				bad = combo + ": an ID coarser than the target becomes a merge candidate"
			case !eligible && !passReach:
				bad = combo + ": an ID coarser than the target is dropped (not passed through)"
			}
			if bad != "" {
				break
			}
		}
		if bad != "" {
			break
		}
	}
	if bad != "" {
		r.add("ELIGIBILITY", fn+" / split", pos, Violated, bad)
	} else if len(open) > 0 {
		r.add("ELIGIBILITY", fn+" / split", pos, Undecided, fmt.Sprintf("the split between merge candidates and pass-through IDs is decided by a test the enumeration does not read (%d of 9 orderings undecided)", len(open)))
	} else {
		r.add("ELIGIBILITY", fn+" / split", pos, Discharged, "all 9 orderings classify the ID as documented (candidate iff hZoom >= target && vZoom >= target)")
	}
}

// ---------------------------------------------------------------- MINSEL (overlap alignment)

func ruleOverlapAlign(w *World, r *Report) {
	r.Rule("MINSEL", "the extended overlap check brings both IDs to the per-axis minimum of their zooms: every hZoom/vZoom argument handed to integrate.ChangeExtendedSpatialIdsZoom is a selection between field 0 (resp. 3) of the two IDs that yields the smaller value under all three orderings (comparison-controlled phi, builtin min, or a private helper with that shape). A recognised selection that is not the minimum is a violation; an alignment that cannot be read is reported as INFO (no verdict)")
	r.Rule("REUSE", "the zoom alignment of the overlap check is integrate.ChangeExtendedSpatialIdsZoom itself (resolved callee)")
	fn := "detector.CheckExtendedSpatialIdsOverlap"
	f := lookupByName(w, fn)
	if f == nil {
		r.add("MINSEL", fn, "?", Unresolved, "function not found")
		return
	}
	pos := w.Pos(f.Pos())
	calls := callsTo(f, func(g *ssa.Function) bool { return funcIs(g, modPath+"/integrate", "ChangeExtendedSpatialIdsZoom") })
	if len(calls) == 0 {
		r.add("REUSE", fn+" / alignment calls", pos, Undecided, "the overlap check does not align zooms with integrate.ChangeExtendedSpatialIdsZoom")
		return
	}
	r.add("REUSE", fn+" / alignment calls", pos, Discharged, fmt.Sprintf("%d call site(s) of integrate.ChangeExtendedSpatialIdsZoom", len(calls)))
	// parsed zoom fields in this function
	find := func(g *ssa.Function, p *ssa.Parameter, k int64) ssa.Value {
		var out ssa.Value
		instrs(g, func(in ssa.Instruction) {
			if ex, ok := in.(*ssa.Extract); ok && out == nil && parsedField(ex, p, k) {
				out = ex
			}
		})
		return out
	}
	// minOf: is value s the minimum of field k of the two ID parameters?  (ok, decided, why)
	minOf := func(s ssa.Value, k int64) (bool, bool, string) {
		s = resolve(s)
		a, b := find(f, f.Params[0], k), find(f, f.Params[1], k)
		if a != nil && b != nil {
			ok, why := selectIs(f, s, a, b, true)
			return ok, true, why
		}
		// helper form: the value is (a result of) a private helper that receives field k of both IDs
		var hc *ssa.Call
		ri := 0
		switch x := s.(type) {
		case *ssa.Call:
			hc = x
		case *ssa.Extract:
			hc, _ = x.Tuple.(*ssa.Call)
			ri = x.Index
		}
		if hc != nil && calleeOf(hc) != nil && w.InModule(calleeOf(hc)) && calleeOf(hc).Blocks != nil {
			h := calleeOf(hc)
			ia, ib := -1, -1
			isSplitOf := func(v ssa.Value, p *ssa.Parameter) bool {
				sc, ok := resolve(v).(*ssa.Call)
				return ok && isSplitCall(sc, 5) && resolve(sc.Call.Args[0]) == ssa.Value(p)
			}
			whole := map[int]bool{}
			for i, arg := range hc.Call.Args {
				if splitField(arg, f.Params[0], k) || parsedField(arg, f.Params[0], k) {
					ia = i
				}
				if splitField(arg, f.Params[1], k) || parsedField(arg, f.Params[1], k) {
					ib = i
				}
				if isSplitOf(arg, f.Params[0]) {
					ia, whole[i] = i, true
				}
				if isSplitOf(arg, f.Params[1]) {
					ib, whole[i] = i, true
				}
			}
			if ia >= 0 && ib >= 0 && ia < len(h.Params) && ib < len(h.Params) {
				valOf := func(p *ssa.Parameter) ssa.Value {
					if isIntType(p.Type()) {
						return p
					}
					var out ssa.Value
					if whole[paramIndex(h, p)] {
						// the helper receives all fields: field k is parsed from p[k]
						instrs(h, func(in ssa.Instruction) {
							ex, ok := in.(*ssa.Extract)
							if !ok || ex.Index != 0 || out != nil {
								return
							}
							c, ok := ex.Tuple.(*ssa.Call)
							if !ok || !(calleeIs(c, "strconv", "Atoi") || calleeIs(c, "strconv", "ParseInt")) {
								return
							}
							if ld, ok := loadOf(resolve(c.Call.Args[0])); ok {
								if ia2, ok := ld.(*ssa.IndexAddr); ok && resolve(ia2.X) == ssa.Value(p) {
									if kk, ok := constInt(ia2.Index); ok && kk == k {
										out = ex
									}
								}
							}
						})
						return out
					}
					instrs(h, func(in ssa.Instruction) {
						ex, ok := in.(*ssa.Extract)
						if !ok || ex.Index != 0 || out != nil {
							return
						}
						c, ok := ex.Tuple.(*ssa.Call)
						if ok && (calleeIs(c, "strconv", "Atoi") || calleeIs(c, "strconv", "ParseInt")) && resolve(c.Call.Args[0]) == ssa.Value(p) {
							out = ex
						}
					})
					return out
				}
				pa, pb := valOf(h.Params[ia]), valOf(h.Params[ib])
				if pa != nil && pb != nil {
					for _, ret := range returnsOf(h) {
						if ri >= len(ret.Results) {
							continue
						}
						if ok, why := selectIs(h, ret.Results[ri], pa, pb, true); !ok {
							return false, true, "helper " + w.FuncName(h) + ": " + why
						}
					}
					return true, true, "private helper returning the minimum"
				}
			}
		}
		return false, false, "the target zoom expression could not be related to the parsed zoom fields of the two IDs"
	}
	for _, it := range []struct {
		axis string
		arg  int
		k    int64
	}{{"hZoom", 1, 0}, {"vZoom", 2, 3}} {
		key := fn + " / target " + it.axis
		st, detail := Discharged, ""
		for _, c := range calls {
			ok, decided, why := minOf(c.Call.Args[it.arg], it.k)
			switch {
			case !decided:
				if st == Discharged {
					st, detail = Info, why
				}
			case !ok:
				st, detail = Violated, "target "+it.axis+" is not the minimum of the two IDs' "+it.axis+": "+why
			default:
				if detail == "" {
					detail = "target " + it.axis + " = min of the two IDs' " + it.axis + " (" + why + ")"
				}
			}
		}
		r.add("MINSEL", key, w.Pos(calls[0].Pos()), st, detail)
	}
	// the answer: equality of the two aligned singletons, len(result)==1 of a joint call, or the identical-argument shortcut
	n := 0
	for _, ret := range returnsOf(f) {
		if classifyReturn(f, ret) != retSuccess {
			continue
		}
		n++
		key := fmt.Sprintf("%s / success return#%d", fn, n)
		v := resolve(ret.Results[0])
		good, decided := false, false
		if b, ok := v.(*ssa.BinOp); ok && b.Op == token.EQL {
			x0, y0 := firstElemOfCallResult(b.X), firstElemOfCallResult(b.Y)
			if x0 != nil && y0 != nil {
				decided = true
				isAlign := func(c *ssa.Call) bool {
					for _, cc := range calls {
						if cc == c {
							return true
						}
					}
					return false
				}
				good = x0 != y0 && isAlign(x0) && isAlign(y0)
			}
			if lc, isL := resolve(b.X).(*ssa.Call); isL && builtinName(lc) == "len" {
				if ex, isE := resolve(lc.Call.Args[0]).(*ssa.Extract); isE && ex.Index == 0 && len(calls) == 1 && ex.Tuple == ssa.Value(calls[0]) {
					if k, isK := constInt(b.Y); isK {
						decided = true
						vals, isLit := sliceLiteral(calls[0].Call.Args[0])
						good = k == 1 && isLit && len(vals) == 2
					}
				}
			}
		}
		if k, isK := v.(*ssa.Const); isK && k.Value != nil {
			decided = true
			if k.Value.String() == "true" {
				for _, blk := range f.Blocks {
					t, _, ifi := ifSuccs(blk)
					if ifi == nil {
						continue
					}
					if c, isC := ifi.Cond.(*ssa.BinOp); isC && c.Op == token.EQL {
						px, py := paramIndex(f, resolve(c.X)), paramIndex(f, resolve(c.Y))
						if px >= 0 && py >= 0 && px != py && (t == ret.Block() || blockDominatedByEdge(f, blk, t, ret.Block())) {
							good = true
						}
					}
				}
			}
		}
		switch {
		case good:
			r.add("MINSEL", key, w.Pos(ret.Pos()), Discharged, "answer = equality of the two zoom-aligned singleton results")
		case decided:
			r.add("MINSEL", key, w.Pos(ret.Pos()), Violated, "the success answer is not the equality of the two zoom-aligned IDs ("+describeValue(ret.Results[0])+")")
		default:
			r.add("MINSEL", key, w.Pos(ret.Pos()), Info, "the shape of the answer expression is not recognised ("+describeValue(ret.Results[0])+")")
		}
	}
	if n == 0 {
		r.add("MINSEL", fn+" / returns", pos, Undecided, "no success return")
	}
}

// firstElemOfCallResult: v == (result#0 of call)[0]  -> the call
func firstElemOfCallResult(v ssa.Value) *ssa.Call {
	v = resolve(v)
	ld, ok := loadOf(v)
	if !ok {
		return nil
	}
	ia, ok := ld.(*ssa.IndexAddr)
	if !ok {
		return nil
	}
	if k, ok := constInt(ia.Index); !ok || k != 0 {
		return nil
	}
	ex, ok := resolve(ia.X).(*ssa.Extract)
	if !ok || ex.Index != 0 {
		return nil
	}
	c, _ := ex.Tuple.(*ssa.Call)
	return c
}

// ---------------------------------------------------------------- AXISSYM

type canon struct {
	ke   *KindEngine
	f    *ssa.Function
	ids  map[ssa.Value]int
	memo map[ssa.Value]string
}

func (c *canon) leafKind(v ssa.Value) string {
	a := c.ke.Eval(v)
	if a != nil {
		if k, ok := a.Scalar.single(); ok {
			switch k {
			case kX, kY, kDX, kDY:
				return "K:" + kindNames[k]
			}
		}
	}
	return ""
}

func (c *canon) of(v ssa.Value, depth int) string {
	if depth > 40 {
		return "..."
	}
	if s, ok := c.memo[v]; ok {
		return s
	}
	if id, ok := c.ids[v]; ok {
		return fmt.Sprintf("^%d", id)
	}
	var s string
	switch x := v.(type) {
	case *ssa.Const:
		if x.Value == nil {
			s = "c:nil"
		} else {
			s = "c:" + x.Value.String()
		}
	case *ssa.Parameter:
		if k := c.leafKind(x); k != "" {
			s = k
		} else {
			s = fmt.Sprintf("p%d", paramIndex(c.f, x))
		}
	case *ssa.Call:
		if g := calleeOf(x); g != nil {
			if fv := accessorField(g); fv != nil {
				if k := c.leafKind(x); k != "" {
					s = k
				} else {
					s = "get:" + fv.Name()
				}
				break
			}
			var as []string
			for _, a := range x.Call.Args {
				as = append(as, c.of(a, depth+1))
			}
			s = "call:" + g.String() + "(" + strings.Join(as, ",") + ")"
		} else if bn := builtinName(x); bn != "" {
			var as []string
			for _, a := range x.Call.Args {
				as = append(as, c.of(a, depth+1))
			}
			s = bn + "(" + strings.Join(as, ",") + ")"
		} else {
			s = "dyncall"
		}
	case *ssa.BinOp:
		a, b := c.of(x.X, depth+1), c.of(x.Y, depth+1)
		switch x.Op {
		case token.ADD, token.MUL, token.EQL, token.NEQ, token.AND, token.OR, token.XOR:
			if b < a {
				a, b = b, a
			}
		}
		s = "(" + a + " " + x.Op.String() + " " + b + ")"
	case *ssa.UnOp:
		s = x.Op.String() + c.of(x.X, depth+1)
	case *ssa.Convert:
		s = "conv:" + x.Type().String() + "(" + c.of(x.X, depth+1) + ")"
	case *ssa.ChangeType:
		s = c.of(x.X, depth+1)
	case *ssa.Extract:
		s = fmt.Sprintf("ext%d(%s)", x.Index, c.of(x.Tuple, depth+1))
	case *ssa.Phi:
		c.ids[x] = len(c.ids)
		var es []string
		for _, e := range x.Edges {
			es = append(es, c.of(e, depth+1))
		}
		sort.Strings(es)
		s = fmt.Sprintf("phi#%d[%s]", c.ids[x], strings.Join(es, ";"))
		delete(c.ids, x)
		return s // not memoised: numbering is context dependent
	default:
		if in, ok := v.(ssa.Instruction); ok {
			s = fmt.Sprintf("%T", in)
		} else {
			s = v.String()
		}
	}
	if len(c.ids) == 0 {
		c.memo[v] = s
	}
	return s
}

func uniqStrings(xs []string) []string {
	var out []string
	for i, x := range xs {
		if i == 0 || x != xs[i-1] {
			out = append(out, x)
		}
	}
	return out
}

func swapXY(s string) string {
	s = strings.ReplaceAll(s, "K:dX", "\x01")
	s = strings.ReplaceAll(s, "K:dY", "K:dX")
	s = strings.ReplaceAll(s, "\x01", "K:dY")
	s = strings.ReplaceAll(s, "K:X", "\x02")
	s = strings.ReplaceAll(s, "K:Y", "K:X")
	s = strings.ReplaceAll(s, "\x02", "K:Y")
	return s
}

// ruleAxisSym: the X-kind and Y-kind outputs of fn are computed by
// isomorphic expression graphs (after swapping X<->Y, dX<->dY leaves).
func ruleAxisSym(w *World, r *Report, fn string) {
	r.Rule("AXISSYM", "the x and y outputs of a function are computed by isomorphic expression graphs (operators, constants, callees, controlling conditions) after exchanging the x- and y-kind leaves: a one-sided edit (wrap only x, different bound for y) is known-bad")
	f := lookupByName(w, fn)
	if f == nil {
		r.add("AXISSYM", fn, "?", Unresolved, "function not found")
		return
	}
	ke := kindsFor(w)
	pos := w.Pos(f.Pos())
	var pairs [][2]ssa.Value
	switch {
	case f.Signature.Results().Len() == 4:
		for _, ret := range returnsOf(f) {
			pairs = append(pairs, [2]ssa.Value{ret.Results[0], ret.Results[1]}, [2]ssa.Value{ret.Results[2], ret.Results[3]})
		}
	default:
		// ID result: the values printed as fields 1 and 2
		for _, mm := range shiftOutputs(w, f) {
			if mm[1] != nil && mm[2] != nil {
				pairs = append(pairs, [2]ssa.Value{mm[1], mm[2]})
			}
		}
	}
	if len(pairs) == 0 {
		r.add("AXISSYM", fn+" / outputs", pos, Info, "could not locate the x and y outputs")
		return
	}
	{
		xs, ys := condSets(ke, f)
		var sw []string
		for _, x := range xs {
			sw = append(sw, swapXY(x))
		}
		sort.Strings(sw)
		if strings.Join(sw, "\n") == strings.Join(ys, "\n") {
			r.add("AXISSYM", fn+" / branch conditions", pos, Discharged, fmt.Sprintf("%d x-conditions and %d y-conditions are isomorphic", len(xs), len(ys)))
		} else {
			r.add("AXISSYM", fn+" / branch conditions", pos, Violated, "the branch conditions on x and on y differ: x: "+abbrev(strings.Join(xs, " ; "), 300)+"  y: "+abbrev(strings.Join(ys, " ; "), 300))
		}
	}
	for i, p := range pairs {
		cx := &canon{ke: ke, f: f, ids: map[ssa.Value]int{}, memo: map[ssa.Value]string{}}
		cy := &canon{ke: ke, f: f, ids: map[ssa.Value]int{}, memo: map[ssa.Value]string{}}
		sx := cx.of(resolve(p[0]), 0)
		sy := cy.of(resolve(p[1]), 0)
		key := fmt.Sprintf("%s / x-y output pair#%d", fn, i+1)
		if !strings.Contains(sx, "K:X") || !strings.Contains(sy, "K:Y") {
			r.add("AXISSYM", key, pos, Info, "x/y kinds of the outputs could not be inferred")
			continue
		}
		if swapXY(sx) == sy {
			r.add("AXISSYM", key, pos, Discharged, "x and y outputs are computed by isomorphic expression graphs")
		} else if (strings.Contains(sx, "call:"+modPath) || strings.Contains(sy, "call:"+modPath)) && sameModuleCalls(sx, sy) {
			// results of a module helper that returns several values (a fallback path, a
			// shared range function): the comparison would have to go into the helper
			r.add("AXISSYM", key, pos, Undecided, "x and y come out of a helper whose results are not followed: x = "+abbrev(sx, 200)+"  vs  y = "+abbrev(sy, 200))
		} else {
			r.add("AXISSYM", key, pos, Violated, "x and y are computed differently: x = "+abbrev(sx, 300)+"  vs  y = "+abbrev(sy, 300))
		}
	}
}

// condSets: canonical forms of the branch conditions that mention x-kind
// (resp. y-kind) leaves.
func condSets(ke *KindEngine, f *ssa.Function) (xs, ys []string) {
	for _, b := range f.Blocks {
		_, _, i := ifSuccs(b)
		if i == nil {
			continue
		}
		c := &canon{ke: ke, f: f, ids: map[ssa.Value]int{}, memo: map[ssa.Value]string{}}
		s := c.of(i.Cond, 0)
		hx := strings.Contains(s, "K:X") || strings.Contains(s, "K:dX")
		hy := strings.Contains(s, "K:Y") || strings.Contains(s, "K:dY")
		if hx && !hy {
			xs = append(xs, s)
		}
		if hy && !hx {
			ys = append(ys, s)
		}
		if hx && hy {
			xs = append(xs, s)
			ys = append(ys, s)
		}
	}
	sort.Strings(xs)
	sort.Strings(ys)
	return
}

func abbrev(s string, n int) string {
	if len(s) > n {
		return s[:n] + "..."
	}
	return s
}

// ---------------------------------------------------------------- UNIT-ZOOM (merge)

// ruleUnitZoom: every merge candidate is divided into unit cells at one
// common unit zoom per axis, the maximum of that axis over ALL candidates.
// Positive evidence of a violation: the unit zoom handed to
// NewUnitDividedSpatialID is (a) a running maximum that is still being
// updated by the loop the division happens in (the result then depends on
// the order of the input), or (b) read from a single element (the two axis
// maxima are in general attained by different elements).
func ruleUnitZoom(w *World, r *Report) {
	r.Rule("UNIT-ZOOM", "the unit zooms used to divide merge candidates (M in NewUnitDividedSpatialID(id, Mh-id.HZoom(), Mv-id.VZoom())) are final per-axis maxima over all inputs: M is the running maximum (comparison-controlled update or builtin max, initial value 0) of the matching zoom getter over a loop that has finished before the first division; a maximum still being updated in the dividing loop, or a zoom read from one selected element, is a violation")
	ke := kindsFor(w)
	n := 0
	for _, f := range w.ModFuncs {
		if f.Blocks == nil || f.Synthetic != "" {
			continue
		}
		can := w.IsCanary(f)
		add := func(key, pos string, st Status, d string) {
			r.Add(Obligation{Rule: "UNIT-ZOOM", Key: "UNIT-ZOOM / " + key, Pos: pos, Status: st, Detail: d, Canary: can})
		}
		for _, c := range callsTo(f, func(g *ssa.Function) bool { return funcIs(g, modPath+"/integrate", "NewUnitDividedSpatialID") }) {
			if !can {
				n++
			}
			for ai, axis := range []string{"", "horizontal", "vertical"} {
				if ai == 0 {
					continue
				}
				key := fmt.Sprintf("%s / division#%d / %s unit zoom", w.FuncName(f), n, axis)
				pos := w.Pos(c.Pos())
				wantK := ks(kHZ)
				if ai == 2 {
					wantK = ks(kVZ)
				}
				sub, ok := resolve(c.Call.Args[ai]).(*ssa.BinOp)
				if !ok || sub.Op != token.SUB {
					add(key, pos, Undecided, "the zoom difference is not of the form M - id.Zoom() ("+describeValue(c.Call.Args[ai])+")")
					continue
				}
				m := resolve(sub.X)
				// (b) a getter on one element
				if gc, isCall := m.(*ssa.Call); isCall && calleeOf(gc) != nil && accessorField(calleeOf(gc)) != nil {
					add(key, pos, Violated, "the unit zoom is read from a single element ("+shortInstr(gc)+"): the per-axis maximum over all candidates is required (the finest ID on one axis need not be the finest on the other)")
					continue
				}
				ph, isPhi := m.(*ssa.Phi)
				if !isPhi {
					if bc, isB := m.(*ssa.Call); isB && (builtinName(bc) == "max") {
						// max(...) of a still-updating accumulator inside the loop
						for _, a := range bc.Call.Args {
							if p2, ok := resolve(a).(*ssa.Phi); ok {
								ph, isPhi = p2, true
							}
						}
					}
				}
				if !isPhi {
					add(key, pos, Undecided, "the unit zoom "+describeValue(m)+" is not a loop-carried maximum the rule can read")
					continue
				}
				var loop *sliceRange
				for _, sr := range findSliceRanges(f) {
					if sr.Header == ph.Block() {
						loop = sr
					}
				}
				if loop == nil {
					// the value of the iteration in progress: a merge of the loop-carried
					// accumulator and its update, consumed inside that same loop
					for _, sr := range findSliceRanges(f) {
						if !sr.blocks()[c.Block()] || !sr.blocks()[ph.Block()] {
							continue
						}
						seen := map[ssa.Value]bool{}
						var fromAcc func(v ssa.Value) bool
						fromAcc = func(v ssa.Value) bool {
							v = resolve(v)
							if seen[v] {
								return false
							}
							seen[v] = true
							switch y := v.(type) {
							case *ssa.Phi:
								if y.Block() == sr.Header {
									return true
								}
								for _, e := range y.Edges {
									if fromAcc(e) {
										return true
									}
								}
							case *ssa.Call:
								if bn := builtinName(y); bn == "max" || bn == "min" {
									for _, a := range y.Call.Args {
										if fromAcc(a) {
											return true
										}
									}
								}
							}
							return false
						}
						if fromAcc(ph) {
							loop = sr
						}
					}
					if loop != nil {
						add(key, pos, Violated, "the ID is divided inside the loop that is still updating the maximum zoom: earlier IDs are divided at a coarser unit zoom than later ones, so the result depends on the order of the input")
						continue
					}
				}
				if loop == nil {
					add(key, pos, Undecided, "the unit zoom is a merged value that is not carried by a range loop")
					continue
				}
				// (a) division inside the loop that still updates the maximum
				if loop.blocks()[c.Block()] {
					add(key, pos, Violated, "the ID is divided inside the loop that is still updating the maximum zoom: earlier IDs are divided at a coarser unit zoom than later ones, so the result depends on the order of the input")
					continue
				}
				// the accumulated quantity: a call of the matching getter on the loop element
				found, any := false, false
				for _, b := range f.Blocks {
					if !loop.blocks()[b] {
						continue
					}
					for _, in := range b.Instrs {
						gc, ok := in.(*ssa.Call)
						if !ok || calleeOf(gc) == nil {
							continue
						}
						fv := accessorField(calleeOf(gc))
						if fv == nil || ke.fieldK[fv] != wantK {
							continue
						}
						any = true
						if runningMax(f, loop, ph, gc) {
							found = true
						}
					}
				}
				if !found {
					if any && runningMaxOfOtherAxis(f, loop, ph, ke, wantK) {
						add(key, pos, Violated, "the "+axis+" unit zoom is the running maximum of the other axis' zoom")
					} else {
						add(key, pos, Undecided, "the loop-carried value was not recognised as the running maximum of the "+axis+" zoom of every input")
					}
					continue
				}
				add(key, pos, Discharged, "M = running maximum of the "+axis+" zoom over the whole input list, complete before the first division")
			}
		}
	}
	if n == 0 {
		r.add("UNIT-ZOOM", "divisions", "-", Undecided, "no call of integrate.NewUnitDividedSpatialID found")
	}
}

// runningMaxOfOtherAxis: the accumulator is the running maximum of the zoom getter of the other axis.
func runningMaxOfOtherAxis(f *ssa.Function, loop *sliceRange, ph *ssa.Phi, ke *KindEngine, wantK KindSet) bool {
	other := ks(kVZ)
	if wantK == ks(kVZ) {
		other = ks(kHZ)
	}
	for b := range loop.blocks() {
		for _, in := range b.Instrs {
			gc, ok := in.(*ssa.Call)
			if !ok || calleeOf(gc) == nil {
				continue
			}
			if fv := accessorField(calleeOf(gc)); fv != nil && ke.fieldK[fv] == other && runningMax(f, loop, ph, gc) {
				return true
			}
		}
	}
	return false
}

// sameModuleCalls: both canonical forms go through the same module helpers the
// same number of times, with the same arguments (they differ only in which
// result of a helper they take, or in what surrounds the calls).
func sameModuleCalls(a, b string) bool {
	calls := func(s string) []string {
		var out []string
		for i := 0; ; {
			j := strings.Index(s[i:], "call:"+modPath)
			if j < 0 {
				break
			}
			j += i
			// up to the matching parenthesis
			depth, k := 0, j
			for ; k < len(s); k++ {
				if s[k] == '(' {
					depth++
				} else if s[k] == ')' {
					depth--
					if depth == 0 {
						break
					}
				}
			}
			if k >= len(s) {
				k = len(s) - 1
			}
			out = append(out, s[j:k+1])
			i = k + 1
		}
		sort.Strings(out)
		return out
	}
	ca, cb := calls(a), calls(b)
	if len(ca) != len(cb) {
		return false
	}
	for i := range ca {
		if ca[i] != cb[i] {
			return false
		}
	}
	return true
}
