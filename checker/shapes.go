package main

// Structural recognisers over SSA: range loops, append chains, slice
// literals, success/error returns, guards.

import (
	"fmt"
	"go/token"
	"go/types"
	"os"
	"strings"

	"golang.org/x/tools/go/ssa"
)

// ---------------------------------------------------------------- returns

type retClass int

const (
	retSuccess retClass = iota
	retError
	retUnknown
)

// classifyReturn: is the error operand of a Return definitely nil, definitely
// non-nil, or unknown?  For a named error value e, dominance by an `e != nil`
// test decides.
func classifyReturn(f *ssa.Function, r *ssa.Return) retClass {
	ei := errResultIndex(f)
	if ei < 0 || ei >= len(r.Results) {
		return retUnknown
	}
	cls := classifyErrValue(f, r.Results[ei], r.Block(), map[ssa.Value]bool{})
	if dbg := os.Getenv("SID_DEBUG_RET"); dbg != "" && strings.Contains(f.Name(), dbg) {
		fmt.Fprintf(os.Stderr, "RET %s blk %d %s -> %d (%s)\n", f.Name(), r.Block().Index, r.String(), cls, describeValue(resolve(r.Results[ei])))
	}
	return cls
}

func classifyErrValue(f *ssa.Function, v ssa.Value, at *ssa.BasicBlock, seen map[ssa.Value]bool) retClass {
	if seen[v] {
		return retUnknown
	}
	seen[v] = true
	if isNilConst(v) {
		return retSuccess
	}
	if isErrorCtor(v) {
		return retError
	}
	if cls, ok := nilTestDominates(f, v, at); ok {
		return cls
	}
	if p, ok := v.(*ssa.Phi); ok {
		var c retClass = -1
		for _, e := range p.Edges {
			ec := classifyErrValue(f, e, at, seen)
			if c == -1 {
				c = ec
			} else if c != ec {
				return retUnknown
			}
		}
		if c == -1 {
			return retUnknown
		}
		return c
	}
	if cls, ok := nilTestDominates(f, v, at); ok {
		return cls
	}
	// the error result of a local helper or closure (fail := func(err error) (T, error) {
	// return zero, err }; return fail(e)): what the helper returns at that position, with
	// its parameters replaced by the arguments of this call
	if cls, ok := classifyThroughCall(f, v, seen); ok {
		return cls
	}
	// a named result kept in a variable (functions with defer): the value stored last
	if rv := resolve(v); rv != v && !seen[rv] {
		return classifyErrValue(f, rv, at, seen)
	}
	// ... also when deferred closures assign the variable, provided they cannot turn an
	// error into nil or nil into an error
	if ld, ok := v.(*ssa.UnOp); ok && ld.Op == token.MUL {
		if al, ok := ld.X.(*ssa.Alloc); ok && closureWrites(al) && defersKeepNilness(al) {
			if lv := lastStoreBeforeDefers(ld, al); lv != nil && !seen[lv] {
				return classifyErrValue(f, lv, at, seen)
			}
		}
	}
	return retUnknown
}

func classifyThroughCall(f *ssa.Function, v ssa.Value, seen map[ssa.Value]bool) (retClass, bool) {
	var call *ssa.Call
	idx := 0
	switch x := v.(type) {
	case *ssa.Extract:
		c, ok := x.Tuple.(*ssa.Call)
		if !ok {
			return retUnknown, false
		}
		call, idx = c, x.Index
	case *ssa.Call:
		call = x
	default:
		return retUnknown, false
	}
	g := calleeOf(call)
	if g == nil {
		if mc, ok := resolve(call.Call.Value).(*ssa.MakeClosure); ok {
			g, _ = mc.Fn.(*ssa.Function)
		} else if fn, ok := resolve(call.Call.Value).(*ssa.Function); ok {
			g = fn
		}
	}
	if g == nil || g.Blocks == nil || len(seen) > 24 {
		return retUnknown, false
	}
	if p := pkgOf(g); p == nil || !strings.HasPrefix(p.Path(), modPath) {
		return retUnknown, false
	}
	var cls retClass = -1
	for _, ret := range returnsOf(g) {
		if idx >= len(ret.Results) {
			return retUnknown, false
		}
		r := ret.Results[idx]
		var c retClass
		if pi := paramIndex(g, resolve(r)); pi >= 0 && pi < len(call.Call.Args) {
			c = classifyErrValue(f, call.Call.Args[pi], call.Block(), seen)
		} else {
			c = classifyErrValue(g, r, ret.Block(), seen)
		}
		if cls == -1 {
			cls = c
		} else if cls != c {
			return retUnknown, false
		}
	}
	if cls == -1 || cls == retUnknown {
		return retUnknown, false
	}
	return cls, true
}

// nilTestDominates: the block is reached only through the non-nil (error) or
// only through the nil (success) edge of a test of v against nil.
func nilTestDominates(f *ssa.Function, v ssa.Value, at *ssa.BasicBlock) (retClass, bool) {
	for _, b := range f.Blocks {
		t, fl, i := ifSuccs(b)
		if i == nil {
			continue
		}
		bo, ok := i.Cond.(*ssa.BinOp)
		if !ok || (bo.Op != token.NEQ && bo.Op != token.EQL) {
			continue
		}
		var other ssa.Value
		if bo.X == v || sameSlotLoad(bo.X, v) {
			other = bo.Y
		} else if bo.Y == v || sameSlotLoad(bo.Y, v) {
			other = bo.X
		} else {
			continue
		}
		if !isNilConst(other) {
			continue
		}
		nonNilSucc, nilSucc := t, fl
		if bo.Op == token.EQL {
			nonNilSucc, nilSucc = fl, t
		}
		if nonNilSucc != nilSucc {
			if blockDominatedByEdge(f, b, nonNilSucc, at) {
				return retError, true
			}
			if blockDominatedByEdge(f, b, nilSucc, at) {
				return retSuccess, true
			}
		}
	}
	return retUnknown, false
}

// blockDominatedByEdge: every path from entry to t uses edge from->to.
func blockDominatedByEdge(f *ssa.Function, from, to, t *ssa.BasicBlock) bool {
	if to == t && len(to.Preds) == 1 {
		return true
	}
	return edgeDominates(f, from, to, t)
}

func successReturns(f *ssa.Function) (succ, errs, unk []*ssa.Return) {
	for _, r := range returnsOf(f) {
		switch classifyReturn(f, r) {
		case retSuccess:
			succ = append(succ, r)
		case retError:
			errs = append(errs, r)
		default:
			unk = append(unk, r)
		}
	}
	return
}

// ---------------------------------------------------------------- loops

type sliceRange struct {
	X      ssa.Value       // ranged slice/array value
	Idx    ssa.Value       // index value used in the body (t2 = phi+1)
	Header *ssa.BasicBlock // block holding the loop test
	Body   *ssa.BasicBlock // first body block
	Done   *ssa.BasicBlock // exit
}

// findSliceRanges recognises `for i, v := range xs` over slices (rangeindex
// pattern of go/ssa).
func findSliceRanges(f *ssa.Function) []*sliceRange {
	var out []*sliceRange
	for _, b := range f.Blocks {
		t, fl, i := ifSuccs(b)
		if i == nil {
			continue
		}
		cmp, ok := i.Cond.(*ssa.BinOp)
		if !ok || cmp.Op != token.LSS {
			continue
		}
		inc, ok := cmp.X.(*ssa.BinOp)
		if !ok || inc.Op != token.ADD {
			continue
		}
		phi, ok := inc.X.(*ssa.Phi)
		if !ok {
			continue
		}
		if c, ok := constInt(inc.Y); !ok || c != 1 {
			continue
		}
		hasM1 := false
		for _, e := range phi.Edges {
			if c, ok := constInt(e); ok && c == -1 {
				hasM1 = true
			}
		}
		if !hasM1 {
			continue
		}
		ln, ok := cmp.Y.(*ssa.Call)
		if !ok || builtinName(ln) != "len" {
			// range over an array (value or pointer): the bound is the constant length;
			// the ranged array is the one indexed with the loop counter in the body
			if n, isK := constInt(cmp.Y); isK && n >= 0 {
				var arr ssa.Value
				for _, blk := range f.Blocks {
					for _, in := range blk.Instrs {
						var x, idx ssa.Value
						switch y := in.(type) {
						case *ssa.IndexAddr:
							x, idx = y.X, y.Index
						case *ssa.Index:
							x, idx = y.X, y.Index
						default:
							continue
						}
						if idx != ssa.Value(inc) {
							continue
						}
						t0 := x.Type()
						if p, isP := t0.Underlying().(*types.Pointer); isP {
							t0 = p.Elem()
						}
						if a, isA := t0.Underlying().(*types.Array); isA && a.Len() == n && arr == nil {
							arr = x
						}
					}
				}
				if arr != nil {
					out = append(out, &sliceRange{X: arr, Idx: inc, Header: b, Body: t, Done: fl})
				}
			}
			continue
		}
		out = append(out, &sliceRange{X: ln.Call.Args[0], Idx: inc, Header: b, Body: t, Done: fl})
	}
	return out
}

// elemOf: is v the element of the ranged slice for this loop iteration
// (xs[idx] loaded, or its address)?
func (sr *sliceRange) isElem(v ssa.Value) bool {
	v = stripLoad(v)
	ia, ok := v.(*ssa.IndexAddr)
	if ok {
		return sameValue(ia.X, sr.X) && ia.Index == sr.Idx
	}
	ix, ok := v.(*ssa.Index)
	if ok {
		return sameValue(ix.X, sr.X) && ix.Index == sr.Idx
	}
	return false
}

func stripLoad(v ssa.Value) ssa.Value {
	if u, ok := v.(*ssa.UnOp); ok && u.Op == token.MUL {
		return u.X
	}
	return v
}

// sameValue: identical SSA value, or both loads of the same local Alloc with
// a single store (spilled variables), or both ChangeType of same.
func sameValue(a, b ssa.Value) bool {
	if a == b {
		return true
	}
	if ca, ok := a.(*ssa.Const); ok {
		if cb, ok := b.(*ssa.Const); ok {
			return ca.Value != nil && cb.Value != nil && ca.Value.String() == cb.Value.String() && ca.Value.Kind() == cb.Value.Kind()
		}
	}
	a2, b2 := stripConv(a), stripConv(b)
	if a2 == b2 {
		return true
	}
	la, oka := loadOf(a2)
	lb, okb := loadOf(b2)
	if oka && okb && la == lb {
		if al, ok := la.(*ssa.Alloc); ok {
			return singleStore(al) != nil
		}
	}
	return false
}

// singleStore returns the only value ever stored into the alloc, if unique.
func singleStore(al *ssa.Alloc) ssa.Value {
	var val ssa.Value
	n := 0
	for _, ref := range *al.Referrers() {
		switch x := ref.(type) {
		case *ssa.Store:
			if x.Addr == al {
				n++
				val = x.Val
			}
		case *ssa.UnOp:
		default:
			return nil // address escapes / field addr etc.
		}
	}
	if n == 1 {
		return val
	}
	return nil
}

// resolve follows loads of single-store local allocs and conversions.
func resolve(v ssa.Value) ssa.Value {
	for i := 0; i < 10; i++ {
		v = stripConv(v)
		p, ok := loadOf(v)
		if !ok {
			return v
		}
		al, ok := p.(*ssa.Alloc)
		if !ok {
			return v
		}
		s := singleStore(al)
		if s == nil {
			if u, ok := v.(*ssa.UnOp); ok {
				s = reachingStore(u, al)
			}
			if s == nil {
				return v
			}
		}
		v = s
	}
	return v
}

// reachingStore: the unique store into local variable al that reaches the
// load ld (flow-sensitive, within one function): a store S that dominates the
// load such that no other store to al (and no creation or call of a closure
// capturing al) lies on a path from S to the load.
func reachingStore(ld *ssa.UnOp, al *ssa.Alloc) ssa.Value {
	f := ld.Parent()
	if f == nil {
		return nil
	}
	type site struct {
		blk *ssa.BasicBlock
		idx int
		val ssa.Value // nil for clobbering sites
	}
	var sites []site
	for _, b := range f.Blocks {
		for i, in := range b.Instrs {
			switch x := in.(type) {
			case *ssa.Store:
				if x.Addr == ssa.Value(al) {
					sites = append(sites, site{b, i, x.Val})
				}
				// a store into one element / field of the variable changes its value too
				switch a := x.Addr.(type) {
				case *ssa.IndexAddr:
					if a.X == ssa.Value(al) {
						sites = append(sites, site{b, i, nil})
					}
				case *ssa.FieldAddr:
					if a.X == ssa.Value(al) {
						sites = append(sites, site{b, i, nil})
					}
				}
			case *ssa.MakeClosure:
				for _, bd := range x.Bindings {
					if bd == ssa.Value(al) {
						sites = append(sites, site{b, i, nil})
					}
				}
			case *ssa.RunDefers:
				// a deferred closure that assigns the variable runs here (named results
				// adjusted on the way out: defer func() { if err == nil { ids = unique(ids) } }())
				if closureWrites(al) {
					sites = append(sites, site{b, i, nil})
				}
			case *ssa.Call:
				for _, a := range x.Call.Args {
					if a == ssa.Value(al) {
						sites = append(sites, site{b, i, nil})
					}
				}
			}
		}
	}
	lb := ld.Block()
	li := -1
	for i, in := range lb.Instrs {
		if in == ssa.Instruction(ld) {
			li = i
		}
	}
	// candidate: last site before the load in its block, else walk up the dominator tree
	var best *site
	for i := range sites {
		s := &sites[i]
		if s.blk == lb && s.idx < li && (best == nil || best.blk != lb || s.idx > best.idx) {
			best = s
		}
	}
	if best == nil {
		for d := lb.Idom(); d != nil && best == nil; d = d.Idom() {
			for i := range sites {
				s := &sites[i]
				if s.blk == d && (best == nil || s.idx > best.idx) {
					best = s
				}
			}
		}
	}
	if best == nil || best.val == nil {
		return nil
	}
	if best.blk == lb && best.idx < li {
		// the store precedes the load in the load's own block: every path into
		// the load passes it, so only sites between the two can interfere
		for i := range sites {
			t := &sites[i]
			if t != best && t.blk == lb && t.idx > best.idx && t.idx < li {
				return nil
			}
		}
		return best.val
	}
	// no other site between best and the load
	for i := range sites {
		t := &sites[i]
		if t == best {
			continue
		}
		if t.blk == best.blk && t.idx < best.idx {
			if t.blk != lb { // earlier in the same block: irrelevant unless in a loop back to it
				if !reachableFrom(best.blk, nil)[best.blk] || !selfReach(best.blk) {
					continue
				}
			}
		}
		// t reachable from best without re-passing best, and load reachable from t
		fromBest := reachAfter(best.blk, best.idx)
		if !(fromBest[t.blk] || (t.blk == best.blk && t.idx > best.idx)) {
			continue
		}
		toLoad := reachAfter(t.blk, t.idx)
		if toLoad[lb] || (t.blk == lb && t.idx < li) {
			if t.blk == lb && t.idx > li {
				continue
			}
			return nil
		}
	}
	return best.val
}

func selfReach(b *ssa.BasicBlock) bool {
	for _, s := range b.Succs {
		if reachableFrom(s, nil)[b] {
			return true
		}
	}
	return false
}

// reachAfter: blocks reachable by leaving block b after instruction idx
// (b itself only if it lies on a cycle).
func reachAfter(b *ssa.BasicBlock, idx int) map[*ssa.BasicBlock]bool {
	out := map[*ssa.BasicBlock]bool{}
	for _, s := range b.Succs {
		for k := range reachableFrom(s, nil) {
			out[k] = true
		}
	}
	return out
}

// loopBlocks returns the blocks of the loop with the given header test block:
// blocks reachable from body without passing through done, that can reach header.
func (sr *sliceRange) blocks() map[*ssa.BasicBlock]bool {
	return reachableFrom(sr.Body, map[*ssa.BasicBlock]bool{sr.Done: true, sr.Header: true})
}

// mapRange describes `for k, v := range m`.
type mapRange struct {
	Range  *ssa.Range
	Next   *ssa.Next
	Header *ssa.BasicBlock
	Body   *ssa.BasicBlock
	Done   *ssa.BasicBlock
}

func findMapRanges(f *ssa.Function) []*mapRange {
	var out []*mapRange
	instrs(f, func(in ssa.Instruction) {
		nx, ok := in.(*ssa.Next)
		if !ok || nx.IsString {
			return
		}
		rg, ok := nx.Iter.(*ssa.Range)
		if !ok {
			return
		}
		if !isMap(rg.X.Type()) {
			return
		}
		b := nx.Block()
		t, fl, i := ifSuccs(b)
		if i == nil {
			return
		}
		out = append(out, &mapRange{Range: rg, Next: nx, Header: b, Body: t, Done: fl})
	})
	return out
}

func (mr *mapRange) key() ssa.Value {
	for _, ref := range *mr.Next.Referrers() {
		if e, ok := ref.(*ssa.Extract); ok && e.Index == 1 {
			return e
		}
	}
	return nil
}

func (mr *mapRange) blocks() map[*ssa.BasicBlock]bool {
	return reachableFrom(mr.Body, map[*ssa.BasicBlock]bool{mr.Done: true, mr.Header: true})
}

// ---------------------------------------------------------------- appends

// appendInfo describes how a slice value was built.
type appendInfo struct {
	Bases   []ssa.Value // non-append, non-phi origins (MakeSlice, literal, call, param, ...)
	Appends []*ssa.Call // every append in the chain (outermost first)
	Linear  bool        // no phi / multi-store variable in the chain
}

// appendChain follows v backwards through phi nodes, re-slicing and append
// calls (first argument).
func appendChain(v ssa.Value) *appendInfo {
	ai := &appendInfo{Linear: true}
	seen := map[ssa.Value]bool{}
	var walk func(x ssa.Value)
	walk = func(x ssa.Value) {
		x = stripConv(x)
		if seen[x] {
			return
		}
		seen[x] = true
		switch y := x.(type) {
		case *ssa.Phi:
			ai.Linear = false
			for _, e := range y.Edges {
				walk(e)
			}
		case *ssa.Call:
			if builtinName(y) == "append" {
				ai.Appends = append(ai.Appends, y)
				walk(y.Call.Args[0])
				return
			}
			ai.Bases = append(ai.Bases, y)
		case *ssa.UnOp:
			// load of a local variable (captured / address-taken): follow stores
			if al, ok := y.X.(*ssa.Alloc); ok && y.Op == token.MUL {
				n := 0
				for _, ref := range *al.Referrers() {
					if st, ok := ref.(*ssa.Store); ok && st.Addr == al {
						n++
						walk(st.Val)
					}
				}
				if n != 1 {
					ai.Linear = false
				}
				if n == 0 {
					ai.Bases = append(ai.Bases, y)
				}
				return
			}
			ai.Bases = append(ai.Bases, y)
		default:
			ai.Bases = append(ai.Bases, x)
		}
	}
	walk(v)
	return ai
}

// appendedElems returns the element values appended by one append call:
// for append(s, a, b) the values a, b; for append(s, xs...) returns (nil, xs).
func appendedElems(c *ssa.Call) (elems []ssa.Value, spread ssa.Value) {
	if len(c.Call.Args) < 2 {
		return nil, nil
	}
	arg := c.Call.Args[1]
	// varargs: slice of a `new [n]T` array with stores
	if sl, ok := arg.(*ssa.Slice); ok {
		if al, ok := sl.X.(*ssa.Alloc); ok {
			if arr, ok := al.Type().(*types.Pointer).Elem().Underlying().(*types.Array); ok {
				vals := make([]ssa.Value, arr.Len())
				okAll := true
				for _, ref := range *al.Referrers() {
					ia, ok := ref.(*ssa.IndexAddr)
					if !ok {
						continue
					}
					k, ok := constInt(ia.Index)
					if !ok || k < 0 || k >= arr.Len() {
						okAll = false
						continue
					}
					for _, r2 := range *ia.Referrers() {
						if st, ok := r2.(*ssa.Store); ok && st.Addr == ia {
							vals[k] = st.Val
						}
					}
				}
				for _, v := range vals {
					if v == nil {
						okAll = false
					}
				}
				if okAll && al.Comment == "varargs" {
					return vals, nil
				}
			}
		}
	}
	return nil, arg
}

// sliceLiteral: if v is a slice built from a composite literal
// (`new [n]T` + stores + slice), returns the element values by position.
func sliceLiteral(v ssa.Value) ([]ssa.Value, bool) {
	v = resolve(v)
	sl, ok := v.(*ssa.Slice)
	if !ok || sl.Low != nil || sl.High != nil {
		return nil, false
	}
	al, ok := sl.X.(*ssa.Alloc)
	if !ok {
		return nil, false
	}
	arr, ok := al.Type().(*types.Pointer).Elem().Underlying().(*types.Array)
	if !ok {
		return nil, false
	}
	vals := make([]ssa.Value, arr.Len())
	for _, ref := range *al.Referrers() {
		switch x := ref.(type) {
		case *ssa.IndexAddr:
			k, ok := constInt(x.Index)
			if !ok || k < 0 || k >= arr.Len() {
				return nil, false
			}
			for _, r2 := range *x.Referrers() {
				st, ok := r2.(*ssa.Store)
				if !ok || st.Addr != x {
					return nil, false
				}
				if vals[k] != nil {
					return nil, false
				}
				vals[k] = st.Val
			}
		case *ssa.Slice:
		default:
			return nil, false
		}
	}
	for _, x := range vals {
		if x == nil {
			return nil, false
		}
	}
	return vals, true
}

// arrayLiteral: elements of an array value built as `local [n]T` + stores +
// load (e.g. [2]int64{a, b}).
func arrayLiteral(v ssa.Value) ([]ssa.Value, bool) {
	u, ok := v.(*ssa.UnOp)
	if !ok || u.Op != token.MUL {
		return nil, false
	}
	al, ok := u.X.(*ssa.Alloc)
	if !ok {
		return nil, false
	}
	arr, ok := al.Type().(*types.Pointer).Elem().Underlying().(*types.Array)
	if !ok {
		return nil, false
	}
	vals := make([]ssa.Value, arr.Len())
	wholeStores := false
	for _, ref := range *al.Referrers() {
		if st, ok := ref.(*ssa.Store); ok && st.Addr == ssa.Value(al) {
			wholeStores = true
		}
	}
	if wholeStores {
		// the variable is also assigned as a whole: only element stores that
		// precede the load in its own block, after the last whole store, count
		blk := u.Block()
		for _, in := range blk.Instrs {
			if in == ssa.Instruction(u) {
				break
			}
			st, ok := in.(*ssa.Store)
			if !ok {
				continue
			}
			if st.Addr == ssa.Value(al) {
				vals = make([]ssa.Value, arr.Len())
				continue
			}
			if ia, ok := st.Addr.(*ssa.IndexAddr); ok && ia.X == ssa.Value(al) {
				k, ok := constInt(ia.Index)
				if !ok || k < 0 || k >= arr.Len() {
					return nil, false
				}
				vals[k] = st.Val
			}
		}
		for _, x := range vals {
			if x == nil {
				return nil, false
			}
		}
		return vals, true
	}
	for _, ref := range *al.Referrers() {
		switch x := ref.(type) {
		case *ssa.IndexAddr:
			k, ok := constInt(x.Index)
			if !ok || k < 0 || k >= arr.Len() {
				return nil, false
			}
			for _, r2 := range *x.Referrers() {
				if st, ok := r2.(*ssa.Store); ok && st.Addr == x {
					vals[k] = st.Val
				}
			}
		case *ssa.UnOp:
		default:
			return nil, false
		}
	}
	for _, x := range vals {
		if x == nil {
			return nil, false
		}
	}
	return vals, true
}

// callsIn lists static calls to callee inside f.
func callsTo(f *ssa.Function, pred func(*ssa.Function) bool) []*ssa.Call {
	var out []*ssa.Call
	instrs(f, func(in ssa.Instruction) {
		c, ok := in.(*ssa.Call)
		if !ok {
			return
		}
		g := calleeOf(c)
		if g != nil && pred(g) {
			out = append(out, c)
		}
	})
	return out
}

// extractOf returns the Extract #i of a tuple-valued call (nil if unused).
func extractOf(c ssa.Value, i int) *ssa.Extract {
	refs := c.Referrers()
	if refs == nil {
		return nil
	}
	for _, ref := range *refs {
		if e, ok := ref.(*ssa.Extract); ok && e.Index == i {
			return e
		}
	}
	return nil
}

// hasRealReferrer: the value is used by something other than DebugRef.
func hasRealReferrer(v ssa.Value) bool {
	refs := v.Referrers()
	if refs == nil {
		return false
	}
	for _, r := range *refs {
		if _, ok := r.(*ssa.DebugRef); ok {
			continue
		}
		return true
	}
	return false
}

// natLoop: a natural loop of the CFG (back edge tail -> header where the
// header dominates the tail): header plus every block that reaches the tail
// without passing the header.  Covers range loops and counted for loops alike.
type natLoop struct {
	Header *ssa.BasicBlock
	Blocks map[*ssa.BasicBlock]bool
}

func naturalLoops(f *ssa.Function) []*natLoop {
	byHdr := map[*ssa.BasicBlock]*natLoop{}
	var out []*natLoop
	for _, b := range f.Blocks {
		for _, h := range b.Succs {
			if !(h == b || h.Dominates(b)) {
				continue
			}
			l := byHdr[h]
			if l == nil {
				l = &natLoop{Header: h, Blocks: map[*ssa.BasicBlock]bool{h: true}}
				byHdr[h] = l
				out = append(out, l)
			}
			// walk predecessors from the tail up to the header
			stack := []*ssa.BasicBlock{b}
			for len(stack) > 0 {
				x := stack[len(stack)-1]
				stack = stack[:len(stack)-1]
				if l.Blocks[x] {
					continue
				}
				l.Blocks[x] = true
				stack = append(stack, x.Preds...)
			}
		}
	}
	return out
}

// innermostLoop: the smallest natural loop that contains b (nil if none).
// rotatedLatches: the latch blocks of a rotated loop (for i := range n, as go/ssa
// builds it): an in-loop block that either returns to the header or leaves to
// the very block the guard in front of the loop leaves to.  Arriving there is
// "going on with the next element"; its exit is the normal end of the loop.
func rotatedLatches(l *natLoop) map[*ssa.BasicBlock]bool {
	out := map[*ssa.BasicBlock]bool{}
	var guardExits []*ssa.BasicBlock
	for _, p := range l.Header.Preds {
		if !l.Blocks[p] {
			for _, s := range p.Succs {
				if s != l.Header {
					guardExits = append(guardExits, s)
				}
			}
		}
	}
	for b := range l.Blocks {
		if len(b.Succs) != 2 {
			continue
		}
		for i, s := range b.Succs {
			other := b.Succs[1-i]
			if s == l.Header && !l.Blocks[other] {
				for _, g := range guardExits {
					if g == other {
						out[b] = true
					}
				}
			}
		}
	}
	return out
}

func innermostLoop(loops []*natLoop, b *ssa.BasicBlock) *natLoop {
	var best *natLoop
	for _, l := range loops {
		if l.Blocks[b] && (best == nil || len(l.Blocks) < len(best.Blocks)) {
			best = l
		}
	}
	return best
}

// throughCall: for the result (or one extracted result) of a call to a module
// helper or local closure, the values the helper can return at that position,
// with its parameters replaced by the arguments of this call; nil when v is
// not such a result.
func throughCall(v ssa.Value, depth int) []ssa.Value {
	if depth > 3 {
		return nil
	}
	var call *ssa.Call
	idx := 0
	switch x := v.(type) {
	case *ssa.Extract:
		c, ok := x.Tuple.(*ssa.Call)
		if !ok {
			return nil
		}
		call, idx = c, x.Index
	case *ssa.Call:
		call = x
	default:
		return nil
	}
	g := calleeOf(call)
	if g == nil {
		if mc, ok := resolve(call.Call.Value).(*ssa.MakeClosure); ok {
			g, _ = mc.Fn.(*ssa.Function)
		} else if fn, ok := resolve(call.Call.Value).(*ssa.Function); ok {
			g = fn
		}
	}
	if g == nil || g.Blocks == nil {
		return nil
	}
	if p := pkgOf(g); p == nil || !strings.HasPrefix(p.Path(), modPath) {
		return nil
	}
	var out []ssa.Value
	for _, ret := range returnsOf(g) {
		if idx >= len(ret.Results) {
			return nil
		}
		r := resolve(ret.Results[idx])
		if pi := paramIndex(g, r); pi >= 0 && pi < len(call.Call.Args) {
			r = resolve(call.Call.Args[pi])
		}
		if inner := throughCall(r, depth+1); inner != nil {
			out = append(out, inner...)
		} else {
			out = append(out, r)
		}
	}
	return out
}

// closureWrites: some closure that captured the variable stores into it.
func closureWrites(al *ssa.Alloc) bool {
	if al.Referrers() == nil {
		return false
	}
	for _, ref := range *al.Referrers() {
		mc, ok := ref.(*ssa.MakeClosure)
		if !ok {
			continue
		}
		fn, _ := mc.Fn.(*ssa.Function)
		if fn == nil {
			continue
		}
		for i, b := range mc.Bindings {
			if b != ssa.Value(al) || i >= len(fn.FreeVars) || fn.FreeVars[i].Referrers() == nil {
				continue
			}
			for _, r2 := range *fn.FreeVars[i].Referrers() {
				if st, ok := r2.(*ssa.Store); ok && st.Addr == ssa.Value(fn.FreeVars[i]) {
					return true
				}
			}
		}
	}
	return false
}

// defersKeepNilness: every store a closure makes into the captured error
// variable happens on the non-nil edge of a test of that same variable and
// stores a constructed error (defer func() { if err != nil { err = wrap(err) } }()):
// whether the function returns nil or non-nil is then decided by the last
// ordinary assignment.
func defersKeepNilness(al *ssa.Alloc) bool {
	if al.Referrers() == nil {
		return true
	}
	for _, ref := range *al.Referrers() {
		mc, ok := ref.(*ssa.MakeClosure)
		if !ok {
			continue
		}
		fn, _ := mc.Fn.(*ssa.Function)
		if fn == nil {
			return false
		}
		for i, b := range mc.Bindings {
			if b != ssa.Value(al) || i >= len(fn.FreeVars) || fn.FreeVars[i].Referrers() == nil {
				continue
			}
			fv := fn.FreeVars[i]
			for _, r2 := range *fv.Referrers() {
				st, ok := r2.(*ssa.Store)
				if !ok || st.Addr != ssa.Value(fv) {
					continue
				}
				if !isErrorCtor(st.Val) {
					if _, isCall := st.Val.(*ssa.Call); !isCall {
						return false
					}
				}
				// dominated by the non-nil edge of `*fv != nil`
				guarded := false
				for _, blk := range fn.Blocks {
					t, fl, ifi := ifSuccs(blk)
					if ifi == nil {
						continue
					}
					bo, ok := ifi.Cond.(*ssa.BinOp)
					if !ok || (bo.Op != token.NEQ && bo.Op != token.EQL) {
						continue
					}
					var other, tested ssa.Value
					if isNilConst(bo.Y) {
						tested, other = bo.X, bo.Y
					} else if isNilConst(bo.X) {
						tested, other = bo.Y, bo.X
					}
					_ = other
					if tested == nil {
						continue
					}
					if ld, ok := tested.(*ssa.UnOp); !ok || ld.Op != token.MUL || ld.X != ssa.Value(fv) {
						continue
					}
					nonNil := t
					if bo.Op == token.EQL {
						nonNil = fl
					}
					if nonNil == st.Block() || blockDominatedByEdge(fn, blk, nonNil, st.Block()) {
						guarded = true
					}
				}
				if !guarded {
					return false
				}
			}
		}
	}
	return true
}

// lastStoreBeforeDefers: for a load that follows `rundefers` in its block, the
// value of the variable just before the deferred calls ran.
func lastStoreBeforeDefers(ld *ssa.UnOp, al *ssa.Alloc) ssa.Value {
	b := ld.Block()
	for i, in := range b.Instrs {
		if _, ok := in.(*ssa.RunDefers); !ok {
			continue
		}
		// a pseudo load placed right before rundefers: reuse reachingStore through a
		// scan of the stores of this block, else give up
		var last ssa.Value
		for j := 0; j < i; j++ {
			if st, ok := b.Instrs[j].(*ssa.Store); ok && st.Addr == ssa.Value(al) {
				last = st.Val
			}
		}
		if last != nil {
			return last
		}
		// no store in this block: the unique store that dominates it, if there is one and
		// no other store lies between
		var cand ssa.Value
		n := 0
		if al.Referrers() != nil {
			for _, ref := range *al.Referrers() {
				if st, ok := ref.(*ssa.Store); ok && st.Addr == ssa.Value(al) {
					n++
					if st.Block().Dominates(b) {
						cand = st.Val
					}
				}
			}
		}
		if n == 1 {
			return cand
		}
		return nil
	}
	return nil
}

// sameSlotLoad: a and b are two loads of the same element xs[i] (same list value,
// same index value) with no store into xs in the function: `if errs[i] != nil {
// return res, errs[i] }`.
func sameSlotLoad(a, b ssa.Value) bool {
	la, ok1 := a.(*ssa.UnOp)
	lb, ok2 := b.(*ssa.UnOp)
	if !ok1 || !ok2 || la.Op != token.MUL || lb.Op != token.MUL {
		return false
	}
	// the same field path below the element (list[i].f.g)
	ax, bx := la.X, lb.X
	for {
		fa, oka := ax.(*ssa.FieldAddr)
		fb, okb := bx.(*ssa.FieldAddr)
		if !oka && !okb {
			break
		}
		if !oka || !okb || fa.Field != fb.Field {
			return false
		}
		ax, bx = fa.X, fb.X
	}
	ia, ok1 := ax.(*ssa.IndexAddr)
	ib, ok2 := bx.(*ssa.IndexAddr)
	if !ok1 || !ok2 {
		return false
	}
	sameList := ia.X == ib.X
	if !sameList {
		// the list lives in a variable cell (captured by a closure): two loads of that cell
		pa, oka := loadOf(ia.X)
		pb, okb := loadOf(ib.X)
		sameList = oka && okb && pa == pb
	}
	if !ok1 || !ok2 || !sameList || ia.Index != ib.Index {
		return false
	}
	// no store through an element address of this list inside the same function
	f := la.Parent()
	clean := true
	instrs(f, func(in ssa.Instruction) {
		st, ok := in.(*ssa.Store)
		if !ok {
			return
		}
		ad := st.Addr
		for {
			if fa, ok := ad.(*ssa.FieldAddr); ok {
				ad = fa.X
				continue
			}
			break
		}
		if x, ok := ad.(*ssa.IndexAddr); ok && x.X == ia.X {
			clean = false
		}
	})
	return clean
}
