package main

// A1 -- component-kind inference (a units-of-measure analysis) over SSA.
//
// Every numeric value may carry a set of component kinds (HZ, X, F, ...);
// strings carry a layout (sequence of kinds of their "/"-separated fields);
// slices carry either a positional sequence or a homogeneous element
// abstraction.  Unknown is silent: rules only report from singleton kinds.

import (
	"go/token"
	"go/types"
	"sort"
	"strings"

	"golang.org/x/tools/go/ssa"
)

type Kind uint8

const (
	kNone Kind = iota
	kHZ
	kVZ
	kZ // single zoom of a spatial ID (acts as HZ and VZ)
	kX
	kY
	kF
	kTVZ   // zoom of an altitude key / tile z
	kTZ    // altitude key / tile z index
	kZBASE // base exponent
	kZOFF  // base offset
	kQK    // quadkey
	kDX
	kDY
	kDF
	kDHZ
	kDVZ
	kLON
	kLAT
	kALT
	kMAXH
	kMINH
	kHL
	kVL
	kRADIUS
	kSCALE
	kPX
	kPY
	kCRS
	kRES // altitude resolution (metres per cell)
	kMax
)

var kindNames = map[Kind]string{kHZ: "HZ", kVZ: "VZ", kZ: "Z", kX: "X", kY: "Y", kF: "F", kTVZ: "TVZ", kTZ: "TZ",
	kZBASE: "ZBASE", kZOFF: "ZOFF", kQK: "QK", kDX: "dX", kDY: "dY", kDF: "dF", kDHZ: "dHZ", kDVZ: "dVZ",
	kLON: "LON", kLAT: "LAT", kALT: "ALT", kMAXH: "MAXH", kMINH: "MINH", kHL: "HL", kVL: "VL", kRADIUS: "RADIUS",
	kSCALE: "SCALE", kPX: "PX", kPY: "PY", kCRS: "CRS", kRES: "RES"}

var kindByName = func() map[string]Kind {
	m := map[string]Kind{}
	for k, n := range kindNames {
		m[n] = k
	}
	return m
}()

type KindSet uint64

func ks(k ...Kind) KindSet {
	var s KindSet
	for _, x := range k {
		s |= 1 << x
	}
	return s
}
func (s KindSet) has(k Kind) bool { return s&(1<<k) != 0 }
func (s KindSet) single() (Kind, bool) {
	if s == 0 || s&(s-1) != 0 {
		return kNone, false
	}
	for k := Kind(1); k < kMax; k++ {
		if s.has(k) {
			return k, true
		}
	}
	return kNone, false
}
func (s KindSet) String() string {
	if s == 0 {
		return "?"
	}
	var out []string
	for k := Kind(1); k < kMax; k++ {
		if s.has(k) {
			out = append(out, kindNames[k])
		}
	}
	return strings.Join(out, "|")
}

var vfam = ks(kF, kTZ, kALT) // signed vertical quantities: rounding must be floor

func rankOf(k Kind) int {
	switch k {
	case kX, kY, kF, kTZ, kQK, kLON, kLAT, kALT, kMAXH, kMINH, kPX, kPY:
		return 3
	case kDX, kDY, kDF, kZOFF, kHL, kVL, kRADIUS, kRES:
		return 2
	}
	return 1
}

func topRank(s KindSet) (int, KindSet) {
	best := 0
	var out KindSet
	for k := Kind(1); k < kMax; k++ {
		if !s.has(k) {
			continue
		}
		r := rankOf(k)
		if r > best {
			best, out = r, 0
		}
		if r == best {
			out |= 1 << k
		}
	}
	return best, out
}

// arith: kind of the result of a binary arithmetic operation.
// arithOp refines arith for coordinate-system changes by the base offset.
func arithOp(op token.Token, a, b KindSet) KindSet {
	if b.has(kZOFF) {
		if op == token.SUB && a.has(kTZ) {
			return ks(kF) // altitude key minus base offset = vertical index scale
		}
		if op == token.ADD && a.has(kF) {
			return ks(kTZ)
		}
	}
	if a.has(kZOFF) && op == token.ADD && b.has(kF) {
		return ks(kTZ)
	}
	if a.has(kZOFF) && op == token.SUB && b.has(kTZ) {
		return ks(kF) // offset - key = -(key - offset): the negated value on the index scale (ceil(x) = -floor(-x))
	}
	return arith(a, b)
}

func arith(a, b KindSet) KindSet {
	if (a.has(kRES) && b.has(kF)) || (b.has(kRES) && a.has(kF)) {
		return ks(kALT) // index times cell height = altitude
	}
	if a == 0 {
		return b
	}
	if b == 0 {
		return a
	}
	ra, ta := topRank(a)
	rb, tb := topRank(b)
	if ra > rb {
		return ta
	}
	if rb > ra {
		return tb
	}
	return ta | tb
}

// AV: abstract value.
type AV struct {
	Scalar   KindSet
	StrKnown bool
	Str      []KindSet // layout of a string (fields separated by "/")
	Seq      []*AV     // positional slice/array
	Elem     *AV       // homogeneous element
	Key      *AV       // map keys
	Top      bool      // conflicting structure: unknown
}

func (a *AV) String() string {
	if a == nil {
		return "?"
	}
	if a.Top {
		return "T"
	}
	var parts []string
	if a.Scalar != 0 {
		parts = append(parts, a.Scalar.String())
	}
	if a.StrKnown {
		var s []string
		for _, k := range a.Str {
			s = append(s, k.String())
		}
		parts = append(parts, "\""+strings.Join(s, "/")+"\"")
	}
	if a.Seq != nil {
		var s []string
		for _, e := range a.Seq {
			s = append(s, e.String())
		}
		parts = append(parts, "["+strings.Join(s, ", ")+"]")
	}
	if a.Elem != nil {
		parts = append(parts, "[]"+a.Elem.String())
	}
	if a.Key != nil {
		parts = append(parts, "map["+a.Key.String()+"]")
	}
	if len(parts) == 0 {
		return "?"
	}
	return strings.Join(parts, "&")
}

func joinAV(a, b *AV) *AV {
	if a == nil {
		return b
	}
	if b == nil {
		return a
	}
	if a == b {
		return a
	}
	if a.Top || b.Top {
		return &AV{Top: true}
	}
	out := &AV{Scalar: a.Scalar | b.Scalar}
	switch {
	case a.StrKnown && b.StrKnown:
		if len(a.Str) != len(b.Str) {
			return &AV{Top: true}
		}
		out.StrKnown = true
		out.Str = make([]KindSet, len(a.Str))
		for i := range a.Str {
			out.Str[i] = a.Str[i] | b.Str[i]
		}
	case a.StrKnown:
		out.StrKnown, out.Str = true, a.Str
	case b.StrKnown:
		out.StrKnown, out.Str = true, b.Str
	}
	switch {
	case a.Seq != nil && b.Seq != nil && len(a.Seq) == 0:
		out.Seq = b.Seq
	case a.Seq != nil && b.Seq != nil && len(b.Seq) == 0:
		out.Seq = a.Seq
	case a.Seq != nil && b.Seq != nil:
		if len(a.Seq) != len(b.Seq) {
			// demote to homogeneous
			var e *AV
			for _, x := range a.Seq {
				e = joinAV(e, x)
			}
			for _, x := range b.Seq {
				e = joinAV(e, x)
			}
			out.Elem = e
		} else {
			out.Seq = make([]*AV, len(a.Seq))
			for i := range a.Seq {
				out.Seq[i] = joinAV(a.Seq[i], b.Seq[i])
			}
		}
	case a.Seq != nil:
		out.Seq = a.Seq
	case b.Seq != nil:
		out.Seq = b.Seq
	}
	out.Elem = joinAV(out.Elem, joinAV(a.Elem, b.Elem))
	out.Key = joinAV(a.Key, b.Key)
	if out.Seq != nil && len(out.Seq) == 0 && out.Elem != nil {
		out.Seq = nil
	}
	return out
}

func avEqual(a, b *AV) bool {
	return a.String() == b.String()
}

func scalarAV(k KindSet) *AV {
	if k == 0 {
		return nil
	}
	return &AV{Scalar: k}
}

// elemOf: abstraction of an element of the slice at unknown index.
func (a *AV) elemAny() *AV {
	if a == nil || a.Top {
		return nil
	}
	e := a.Elem
	for _, x := range a.Seq {
		e = joinAV(e, x)
	}
	return e
}

// ---------------------------------------------------------------- layouts

var layoutEXT = []KindSet{ks(kHZ), ks(kX), ks(kY), ks(kVZ), ks(kF)}
var layoutSP = []KindSet{ks(kZ), ks(kF), ks(kX), ks(kY)}
var layoutH = []KindSet{ks(kHZ), ks(kX), ks(kY)}
var layoutV = []KindSet{ks(kVZ), ks(kF)}

func strAV(l []KindSet) *AV { return &AV{StrKnown: true, Str: l} }

// parseRole: "HZ", "id:EXT", "ids:SP", "-" (none)
func parseRole(s string) *AV {
	switch s {
	case "", "-":
		return nil
	case "id:EXT":
		return strAV(layoutEXT)
	case "id:SP":
		return strAV(layoutSP)
	case "ids:EXT":
		return &AV{Elem: strAV(layoutEXT)}
	case "ids:SP":
		return &AV{Elem: strAV(layoutSP)}
	case "seq:EXT":
		out := &AV{}
		for _, k := range layoutEXT {
			out.Seq = append(out.Seq, &AV{Scalar: k})
		}
		return out
	case "ids:H":
		return &AV{Elem: strAV(layoutH)}
	case "ids:V":
		return &AV{Elem: strAV(layoutV)}
	}
	if k, ok := kindByName[s]; ok {
		return scalarAV(ks(k))
	}
	panic("bad role " + s)
}

// kindCompatible: may a value of kind k be used where role r is expected?
func kindCompatible(k, r Kind) bool {
	if k == r {
		return true
	}
	switch r {
	case kHZ, kVZ:
		return k == kZ
	case kZ:
		return k == kHZ || k == kVZ
	case kTVZ:
		return k == kVZ || k == kZ // an altitude-key zoom may be given as a vertical zoom
	}
	return false
}

// ---------------------------------------------------------------- engine

type KindEngine struct {
	w          *World
	roles      map[*ssa.Function]*funcRoles
	fieldK     map[*types.Var]KindSet
	paramAV    map[*ssa.Parameter]*AV // joined from call sites (unexported functions)
	retAV      map[*ssa.Function][]*AV
	memo       map[ssa.Value]*AV
	busy       map[ssa.Value]bool
	env        map[ssa.Value]*AV // overrides (element-wise evaluation)
	newParamAV map[*ssa.Parameter]*AV
	newRetAV   map[*ssa.Function][]*AV
	inCall     map[*ssa.Function]bool
	depth      int
	prov       map[ssa.Value]*AV // provisional values of phis being resolved
	openHits   map[ssa.Value]bool
	changed    bool
	Unresolved []string
}

type funcRoles struct {
	Params   []*AV
	NoCheck  []bool // role is used inside the body but any zoom is accepted at call sites
	Results  []*AV
	SelfOnly bool // Results are checked against the body; call sites evaluate the callee in context
}

func NewKindEngine(w *World) *KindEngine {
	ke := &KindEngine{w: w, roles: map[*ssa.Function]*funcRoles{}, fieldK: map[*types.Var]KindSet{},
		paramAV: map[*ssa.Parameter]*AV{}, retAV: map[*ssa.Function][]*AV{}}
	ke.seed()
	for iter := 0; iter < 12; iter++ {
		ke.changed = false
		ke.memo = map[ssa.Value]*AV{}
		ke.busy = map[ssa.Value]bool{}
		ke.newParamAV = map[*ssa.Parameter]*AV{}
		ke.newRetAV = map[*ssa.Function][]*AV{}
		for _, f := range w.ModFuncs {
			ke.propagate(f)
		}
		for p, a := range ke.newParamAV {
			if !avEqual(ke.paramAV[p], a) {
				ke.changed = true
			}
		}
		for f, rs := range ke.newRetAV {
			old := ke.retAV[f]
			for i := range rs {
				var o *AV
				if i < len(old) {
					o = old[i]
				}
				if !avEqual(o, rs[i]) {
					ke.changed = true
				}
			}
		}
		ke.paramAV, ke.retAV = ke.newParamAV, ke.newRetAV
		if !ke.changed {
			break
		}
	}
	ke.memo = map[ssa.Value]*AV{}
	return ke
}

func (ke *KindEngine) seed() {
	w := ke.w
	for name, spec := range roleTable {
		f := lookupByName(w, name)
		if f == nil {
			ke.Unresolved = append(ke.Unresolved, "role table: "+name)
			continue
		}
		fr := &funcRoles{}
		ps := strings.Split(spec[0], ",")
		if spec[0] == "" {
			ps = nil
		}
		off := 0
		if f.Signature.Recv() != nil {
			off = 1
			fr.Params = append(fr.Params, nil)
			fr.NoCheck = append(fr.NoCheck, false)
		}
		if len(ps)+off != len(f.Params) {
			ke.Unresolved = append(ke.Unresolved, "role table arity: "+name)
			continue
		}
		for _, p := range ps {
			p = strings.TrimSpace(p)
			fr.NoCheck = append(fr.NoCheck, strings.HasSuffix(p, "?"))
			fr.Params = append(fr.Params, parseRole(strings.TrimSuffix(p, "?")))
		}
		if strings.HasPrefix(spec[1], "~") {
			fr.SelfOnly = true
			spec[1] = spec[1][1:]
		}
		if spec[1] != "" {
			for _, p := range strings.Split(spec[1], ",") {
				fr.Results = append(fr.Results, parseRole(strings.TrimSpace(p)))
			}
		}
		ke.roles[f] = fr
	}
	// field kinds from accessor methods
	for key, kind := range accessorTable {
		parts := strings.Split(key, ".")
		f := w.Method(parts[0], parts[1], parts[2])
		if len(parts) == 4 {
			f = w.Method(parts[0]+"/"+parts[1], parts[2], parts[3])
		}
		if f == nil {
			ke.Unresolved = append(ke.Unresolved, "accessor table: "+key)
			continue
		}
		fv := accessorField(f)
		if fv == nil {
			ke.Unresolved = append(ke.Unresolved, "accessor is not a plain field getter: "+key)
			continue
		}
		ke.fieldK[fv] |= ks(kindByName[kind])
	}
	// exported struct fields
	for key, kind := range fieldTable {
		parts := strings.Split(key, ".") // common/object.ProjectedPoint.X
		sp := w.SSAPkg[parts[0]]
		if sp == nil || sp.Type(parts[1]) == nil {
			ke.Unresolved = append(ke.Unresolved, "field table: "+key)
			continue
		}
		st, _ := sp.Type(parts[1]).Type().Underlying().(*types.Struct)
		found := false
		if st != nil {
			for i := 0; i < st.NumFields(); i++ {
				if st.Field(i).Name() == parts[2] {
					ke.fieldK[st.Field(i)] |= ks(kindByName[kind])
					found = true
				}
			}
		}
		if !found {
			ke.Unresolved = append(ke.Unresolved, "field table: "+key)
		}
	}
}

// accessorField: for `func (s T) X() int64 { return s.x }` returns field x.
func accessorField(f *ssa.Function) *types.Var {
	rets := returnsOf(f)
	if len(rets) != 1 || len(rets[0].Results) != 1 {
		return nil
	}
	v := rets[0].Results[0]
	if ld, ok := loadOf(v); ok {
		v = ld
	}
	fv, base, ok := fieldOf(v)
	if !ok {
		return nil
	}
	// base must be the receiver (possibly spilled to a local)
	b := base
	if al, ok := b.(*ssa.Alloc); ok {
		if s := singleStoreAny(al); s != nil {
			b = s
		}
	}
	if len(f.Params) == 0 || b != f.Params[0] {
		return nil
	}
	return fv
}

func singleStoreAny(al *ssa.Alloc) ssa.Value {
	var val ssa.Value
	n := 0
	for _, ref := range *al.Referrers() {
		if x, ok := ref.(*ssa.Store); ok && x.Addr == al {
			n++
			val = x.Val
		}
	}
	if n == 1 {
		return val
	}
	return nil
}

func lookupByName(w *World, name string) *ssa.Function {
	// "integrate.VerticalZoom" or "common/object.(ExtendedSpatialID).Higher"
	i := strings.LastIndex(name, ".(")
	if i >= 0 {
		rel := name[:i]
		rest := name[i+2:]
		j := strings.Index(rest, ").")
		typ := strings.TrimPrefix(rest[:j], "*")
		return w.Method(rel, typ, rest[j+2:])
	}
	j := strings.LastIndex(name, ".")
	return w.Func(name[:j], name[j+1:])
}

// propagate: compute call-site parameter joins and return summaries.
func (ke *KindEngine) propagate(f *ssa.Function) {
	instrs(f, func(in ssa.Instruction) {
		switch x := in.(type) {
		case ssa.CallInstruction:
			g := calleeOf(x)
			if g == nil || !ke.w.InModule(g) || g.Blocks == nil {
				return
			}
			if ke.roles[g] != nil {
				return
			}
			args := x.Common().Args
			for i, a := range args {
				if i >= len(g.Params) {
					break
				}
				av := ke.Eval(a)
				if av == nil {
					continue
				}
				ke.newParamAV[g.Params[i]] = joinAV(ke.newParamAV[g.Params[i]], av)
			}
		case *ssa.Return:
			if classifyReturn(f, x) == retError {
				return
			}
			old := ke.newRetAV[f]
			nw := make([]*AV, len(x.Results))
			for i, rv := range x.Results {
				var o *AV
				if i < len(old) {
					o = old[i]
				}
				nw[i] = joinAV(o, ke.Eval(rv))
			}
			ke.newRetAV[f] = nw
		}
	})
}

func (ke *KindEngine) paramRole(f *ssa.Function, i int) *AV {
	if fr := ke.roles[f]; fr != nil {
		if i < len(fr.Params) {
			return fr.Params[i]
		}
		return nil
	}
	// inferred: parameter stored directly into a field of known kind
	if i < len(f.Params) {
		p := f.Params[i]
		var k KindSet
		if refs := p.Referrers(); refs != nil {
			for _, ref := range *refs {
				if st, ok := ref.(*ssa.Store); ok && st.Val == p {
					if fv, _, ok := fieldOf(st.Addr); ok {
						k |= ke.fieldK[fv]
					}
				}
			}
		}
		if k != 0 {
			return scalarAV(k)
		}
	}
	return nil
}

func (ke *KindEngine) Eval(v ssa.Value) *AV {
	if ke.env != nil {
		if o, ok := ke.env[v]; ok {
			return o
		}
	}
	if ke.env == nil {
		if a, ok := ke.memo[v]; ok {
			return a
		}
	}
	if ke.busy[v] {
		// cycle through a phi: use the provisional value of this round
		if ke.openHits == nil {
			ke.openHits = map[ssa.Value]bool{}
		}
		ke.openHits[v] = true
		return ke.prov[v]
	}
	ke.busy[v] = true
	a := ke.eval(v)
	if _, isPhi := v.(*ssa.Phi); isPhi {
		for i := 0; i < 4 && ke.openHits[v]; i++ {
			if ke.prov == nil {
				ke.prov = map[ssa.Value]*AV{}
			}
			ke.prov[v] = a
			a2 := ke.eval(v)
			if avEqual(a, a2) {
				break
			}
			a = a2
		}
		delete(ke.openHits, v)
		delete(ke.prov, v)
	}
	delete(ke.busy, v)
	if ke.env == nil && len(ke.openHits) == 0 {
		ke.memo[v] = a
	}
	return a
}

func isSeparator(s string) bool { return s == "/" }

func (ke *KindEngine) eval(v ssa.Value) *AV {
	switch x := v.(type) {
	case *ssa.Parameter:
		f := x.Parent()
		i := paramIndex(f, x)
		if r := ke.paramRole(f, i); r != nil {
			return r
		}
		return ke.paramAV[x]
	case *ssa.Const:
		if s, ok := constString(x); ok {
			if isSeparator(s) {
				return &AV{StrKnown: true, Str: []KindSet{}}
			}
		}
		return nil
	case *ssa.Phi:
		// a string grown in a loop (id += "/" + field): the number of fields is not fixed
		if isStringType(x.Type()) && selfConcat(x) {
			return &AV{Top: true}
		}
		var out *AV
		for _, e := range x.Edges {
			out = joinAV(out, ke.Eval(e))
		}
		return out
	case *ssa.ChangeType:
		return ke.Eval(x.X)
	case *ssa.Convert:
		a := ke.Eval(x.X)
		if a != nil && a.Scalar != 0 && isIntType(x.Type()) && isFloatType(x.X.Type()) {
			// quantising a coordinate yields the index of its axis
			var out KindSet
			for k := Kind(1); k < kMax; k++ {
				if !a.Scalar.has(k) {
					continue
				}
				switch k {
				case kLON:
					out |= ks(kX)
				case kLAT:
					out |= ks(kY)
				case kALT:
					out |= ks(kF)
				default:
					out |= ks(k)
				}
			}
			return scalarAV(out)
		}
		return a
	case *ssa.MakeInterface:
		return ke.Eval(x.X)
	case *ssa.MakeMap:
		out := &AV{}
		if refs := x.Referrers(); refs != nil {
			for _, ref := range *refs {
				if mu, ok := ref.(*ssa.MapUpdate); ok && mu.Map == x {
					out.Key = joinAV(out.Key, ke.Eval(mu.Key))
					out.Elem = joinAV(out.Elem, ke.Eval(mu.Value))
				}
			}
		}
		if out.Key == nil && out.Elem == nil {
			return nil
		}
		return out
	case *ssa.UnOp:
		switch x.Op {
		case token.MUL:
			return ke.evalLoad(x)
		case token.SUB:
			return ke.Eval(x.X)
		}
		return nil
	case *ssa.BinOp:
		switch x.Op {
		case token.ADD:
			if isStringType(x.Type()) {
				a, b := ke.Eval(x.X), ke.Eval(x.Y)
				if a == nil || b == nil || !a.StrKnown || !b.StrKnown {
					return nil
				}
				return &AV{StrKnown: true, Str: append(append([]KindSet{}, a.Str...), b.Str...)}
			}
			fallthrough
		case token.SUB, token.MUL, token.QUO, token.REM, token.SHL, token.SHR, token.AND, token.OR, token.XOR, token.AND_NOT:
			a, b := ke.Eval(x.X), ke.Eval(x.Y)
			var sa, sb KindSet
			if a != nil {
				sa = a.Scalar
			}
			if b != nil {
				sb = b.Scalar
			}
			// a quadkey is a packed (bit-interleaved) value: whatever is carved out of it
			// with shifts, masks, division or remainder is no longer a quadkey -- it is a
			// component whose kind this analysis does not derive
			if sa.has(kQK) || sb.has(kQK) {
				sa &^= ks(kQK)
				sb &^= ks(kQK)
				if sa == 0 && sb == 0 {
					return nil
				}
			}
			if x.Op == token.SHL || x.Op == token.SHR {
				// shift count does not contribute
				return scalarAV(sa)
			}
			out := arithOp(x.Op, sa, sb)
			// an altitude-scale value plus/minus a quantity read from memory whose kind is not
			// known (a table of per-stage origins, a field of a step record) may be the
			// change of origin between the key scale and the index scale: either kind
			if (x.Op == token.ADD || x.Op == token.SUB) && (out.has(kTZ) || out.has(kF)) {
				for _, side := range []struct {
					v ssa.Value
					k KindSet
				}{{x.X, sa}, {x.Y, sb}} {
					if side.k != 0 {
						continue
					}
					if u, isLoad := stripConv(side.v).(*ssa.UnOp); isLoad && u.Op == token.MUL {
						if _, isAlloc := u.X.(*ssa.Alloc); !isAlloc {
							out |= ks(kTZ, kF)
						}
					}
				}
			}
			return scalarAV(out)
		}
		return nil
	case *ssa.Field:
		if fv, _, ok := fieldOf(x); ok {
			return scalarAV(ke.fieldK[fv])
		}
		return nil
	case *ssa.Index:
		return ke.indexInto(ke.Eval(x.X), x.Index)
	case *ssa.Slice:
		if x.Low == nil && x.High == nil {
			if vals, ok := sliceLiteral(x); ok {
				out := &AV{Seq: make([]*AV, len(vals))}
				for i, e := range vals {
					out.Seq[i] = ke.Eval(e)
					if out.Seq[i] == nil {
						out.Seq[i] = &AV{}
					}
				}
				return out
			}
		}
		a := ke.Eval(x.X)
		if a == nil {
			return nil
		}
		return &AV{Elem: a.elemAny()}
	case *ssa.Extract:
		return ke.evalExtract(x)
	case *ssa.Call:
		return ke.evalCall(x, -1)
	case *ssa.Lookup:
		a := ke.Eval(x.X)
		if a == nil {
			return nil
		}
		return a.Elem
	case *ssa.MakeSlice:
		return ke.makeSliceAV(x)
	case *ssa.Alloc:
		return nil
	}
	return nil
}

// makeSliceAV: a slice created by make and filled by indexed stores
// (s[i] = f(xs[i]) inside a range over xs, or constant indices).
func (ke *KindEngine) makeSliceAV(m *ssa.MakeSlice) *AV {
	refs := m.Referrers()
	if refs == nil {
		return nil
	}
	f := m.Parent()
	var elem *AV
	var seq []*AV
	positional := true
	for _, ref := range *refs {
		ia, ok := ref.(*ssa.IndexAddr)
		if !ok {
			continue
		}
		for _, r2 := range *ia.Referrers() {
			st, ok := r2.(*ssa.Store)
			if !ok || st.Addr != ia {
				continue
			}
			// index = loop counter of a range over a positional slice?
			done := false
			for _, sr := range findSliceRanges(f) {
				if ia.Index != sr.Idx {
					continue
				}
				xs := ke.Eval(sr.X)
				if xs == nil || len(xs.Seq) == 0 {
					continue
				}
				out := make([]*AV, len(xs.Seq))
				saved := ke.env
				for k := range xs.Seq {
					ke.env = map[ssa.Value]*AV{}
					for kk, vv := range saved {
						ke.env[kk] = vv
					}
					instrs(f, func(in ssa.Instruction) {
						if val, ok := in.(ssa.Value); ok && sr.isElem(val) {
							if _, isAddr := val.(*ssa.IndexAddr); !isAddr {
								ke.env[val] = xs.Seq[k]
							}
						}
					})
					out[k] = ke.Eval(st.Val)
					if out[k] == nil {
						out[k] = &AV{}
					}
				}
				ke.env = saved
				if seq == nil {
					seq = out
				}
				done = true
			}
			if !done {
				positional = false
				elem = joinAV(elem, ke.Eval(st.Val))
			}
		}
	}
	if positional && seq != nil {
		return &AV{Seq: seq}
	}
	if elem == nil && seq == nil {
		return nil
	}
	for _, e := range seq {
		elem = joinAV(elem, e)
	}
	return &AV{Elem: elem}
}

func (ke *KindEngine) indexInto(a *AV, idx ssa.Value) *AV {
	if a == nil || a.Top {
		return nil
	}
	if k, ok := constInt(idx); ok && a.Seq != nil {
		if int(k) < len(a.Seq) && k >= 0 {
			return a.Seq[k]
		}
		return nil
	}
	return a.elemAny()
}

func (ke *KindEngine) evalLoad(u *ssa.UnOp) *AV {
	switch p := u.X.(type) {
	case *ssa.FieldAddr:
		if fv, _, ok := fieldOf(p); ok {
			if k := ke.fieldK[fv]; k != 0 {
				return scalarAV(k)
			}
		}
		return nil
	case *ssa.IndexAddr:
		return ke.indexInto(ke.Eval(p.X), p.Index)
	case *ssa.Alloc:
		// local variable: join of stored values; arrays: positional
		if arr, ok := p.Type().(*types.Pointer).Elem().Underlying().(*types.Array); ok {
			if vals, ok := arrayLiteral(u); ok && int64(len(vals)) == arr.Len() {
				out := &AV{Seq: make([]*AV, len(vals))}
				for i, e := range vals {
					out.Seq[i] = ke.Eval(e)
					if out.Seq[i] == nil {
						out.Seq[i] = &AV{}
					}
				}
				return out
			}
			return nil
		}
		// a variable that closures assign as well: what they store is not followed
		if closureWrites(p) {
			return nil
		}
		var out *AV
		for _, ref := range *p.Referrers() {
			if st, ok := ref.(*ssa.Store); ok && st.Addr == p {
				out = joinAV(out, ke.Eval(st.Val))
			}
		}
		return out
	case *ssa.FreeVar, *ssa.Global:
		return nil
	}
	return nil
}

func (ke *KindEngine) evalExtract(x *ssa.Extract) *AV {
	switch t := x.Tuple.(type) {
	case *ssa.Call:
		return ke.evalCall(t, x.Index)
	case *ssa.Next:
		// range over map: key (1) / value (2)
		rg, ok := t.Iter.(*ssa.Range)
		if !ok {
			return nil
		}
		a := ke.Eval(rg.X)
		if a == nil {
			return nil
		}
		if x.Index == 2 {
			return a.Elem
		}
		if x.Index == 1 {
			return a.Key
		}
		return nil
	case *ssa.Lookup:
		if x.Index == 0 {
			a := ke.Eval(t.X)
			if a != nil {
				return a.Elem
			}
		}
	}
	return nil
}

// appendAV: abstraction of a slice built by an append chain.
func (ke *KindEngine) appendAV(c *ssa.Call) *AV {
	// element-wise map loop?  (exactly one append, inside a range loop over X
	// with positional abstraction)
	f := c.Parent()
	ai := appendChain(c)
	if len(ai.Appends) == 1 {
		for _, sr := range findSliceRanges(f) {
			if !sr.blocks()[c.Block()] {
				continue
			}
			xs := ke.Eval(sr.X)
			if xs == nil || len(xs.Seq) == 0 {
				continue
			}
			elems, spread := appendedElems(c)
			if spread != nil || len(elems) != 1 {
				continue
			}
			// all bases must be empty literals / make
			okBase := true
			for _, b := range ai.Bases {
				if !isEmptySliceBase(b) {
					okBase = false
				}
			}
			if !okBase {
				continue
			}
			// evaluate the appended element with the loop element bound to X[k]
			out := &AV{Seq: make([]*AV, len(xs.Seq))}
			saved := ke.env
			for k := range xs.Seq {
				ke.env = map[ssa.Value]*AV{}
				for kk, vv := range saved {
					ke.env[kk] = vv
				}
				instrs(f, func(in ssa.Instruction) {
					if val, ok := in.(ssa.Value); ok && sr.isElem(val) {
						if _, isAddr := val.(*ssa.IndexAddr); !isAddr {
							ke.env[val] = xs.Seq[k]
						}
					}
				})
				out.Seq[k] = ke.Eval(elems[0])
				if out.Seq[k] == nil {
					out.Seq[k] = &AV{}
				}
			}
			ke.env = saved
			return out
		}
	}
	// straight-line literal building: s = append(s, a); s = append(s, b)
	if ai.Linear && len(ai.Bases) == 1 && isEmptySliceBase(ai.Bases[0]) {
		out := &AV{}
		ok := true
		for i := len(ai.Appends) - 1; i >= 0; i-- {
			elems, spread := appendedElems(ai.Appends[i])
			if spread != nil {
				ok = false
				break
			}
			for _, el := range elems {
				e := ke.Eval(el)
				if e == nil {
					e = &AV{}
				}
				out.Seq = append(out.Seq, e)
			}
		}
		if ok && len(out.Seq) > 0 {
			return out
		}
	}
	// homogeneous
	var e *AV
	for _, ap := range ai.Appends {
		elems, spread := appendedElems(ap)
		for _, el := range elems {
			e = joinAV(e, ke.Eval(el))
		}
		if spread != nil {
			if s := ke.Eval(spread); s != nil {
				e = joinAV(e, s.elemAny())
			}
		}
	}
	for _, b := range ai.Bases {
		if isEmptySliceBase(b) {
			continue
		}
		if s := ke.Eval(b); s != nil {
			e = joinAV(e, s.elemAny())
		}
	}
	if e == nil {
		return nil
	}
	return &AV{Elem: e}
}

func isEmptySliceBase(b ssa.Value) bool {
	switch x := b.(type) {
	case *ssa.MakeSlice:
		if n, ok := constInt(x.Len); ok && n == 0 {
			return true
		}
	case *ssa.Slice:
		if h, ok := constInt(x.High); x.High != nil && ok && h == 0 && x.Low == nil {
			if _, isAlloc := x.X.(*ssa.Alloc); isAlloc {
				return true // make([]T, 0, constCap)
			}
		}
		if vals, ok := sliceLiteral(x); ok && len(vals) == 0 {
			return true
		}
		if al, ok := x.X.(*ssa.Alloc); ok {
			if arr, ok := al.Type().(*types.Pointer).Elem().Underlying().(*types.Array); ok && arr.Len() == 0 {
				return true
			}
		}
	case *ssa.Const:
		return x.Value == nil
	}
	return false
}

func (ke *KindEngine) evalCall(c *ssa.Call, res int) *AV {
	if bn := builtinName(c); bn != "" {
		switch bn {
		case "append":
			return ke.appendAV(c)
		case "min", "max":
			var out *AV
			for _, a := range c.Call.Args {
				out = joinAV(out, ke.Eval(a))
			}
			return out
		}
		return nil
	}
	g := calleeOf(c)
	if g == nil {
		return nil
	}
	args := c.Call.Args
	arg := func(i int) *AV {
		if i < len(args) {
			return ke.Eval(args[i])
		}
		return nil
	}
	p := pkgOf(g)
	pp := ""
	if p != nil {
		pp = p.Path()
	}
	name := g.Name()
	if o := g.Origin(); o != nil {
		name = o.Name()
	}
	switch pp {
	case "strconv":
		switch name {
		case "FormatInt", "Itoa", "FormatFloat", "FormatUint":
			a := arg(0)
			if a == nil {
				return &AV{StrKnown: true, Str: []KindSet{0}}
			}
			return &AV{StrKnown: true, Str: []KindSet{a.Scalar}}
		case "ParseInt", "Atoi", "ParseFloat", "ParseUint":
			if res > 0 {
				return nil
			}
			a := arg(0)
			if a != nil && a.StrKnown && len(a.Str) == 1 {
				return scalarAV(a.Str[0])
			}
			return nil
		}
	case "strings":
		switch name {
		case "Split", "SplitN":
			a := arg(0)
			if a == nil || !a.StrKnown {
				return nil
			}
			if !isSplitCall(c, int64(len(a.Str))) {
				return nil
			}
			if s, ok := constString(args[1]); !ok || !isSeparator(s) {
				return nil
			}
			out := &AV{Seq: make([]*AV, len(a.Str))}
			for i, k := range a.Str {
				out.Seq[i] = &AV{StrKnown: true, Str: []KindSet{k}}
			}
			return out
		case "Join":
			a := arg(0)
			if a == nil || a.Seq == nil {
				return nil
			}
			if s, ok := constString(args[1]); !ok || !isSeparator(s) {
				return nil
			}
			var l []KindSet
			for _, e := range a.Seq {
				if e == nil || !e.StrKnown {
					return nil
				}
				l = append(l, e.Str...)
			}
			return &AV{StrKnown: true, Str: l}
		}
	case "fmt":
		// fmt.Sprintf("%d/%d/%d/%d/%d", ...) / Sprint-like ID assembly: one verb per '/'-separated field
		if name == "Sprintf" && len(args) == 2 {
			format, ok := constString(args[0])
			if !ok {
				return nil
			}
			vals, ok := sliceLiteral(args[1])
			if !ok {
				return nil
			}
			var out []KindSet
			vi := 0
			for _, piece := range strings.Split(format, "/") {
				switch piece {
				case "%d", "%v", "%s":
					if vi >= len(vals) {
						return nil
					}
					v := vals[vi]
					vi++
					if mi, isMI := v.(*ssa.MakeInterface); isMI {
						v = mi.X
					}
					a := ke.Eval(v)
					switch {
					case a == nil:
						out = append(out, 0)
					case a.StrKnown:
						out = append(out, a.Str...)
					default:
						out = append(out, a.Scalar)
					}
				default:
					return nil // literal text or a composite verb: not an ID layout the engine reads
				}
			}
			if vi != len(vals) {
				return nil
			}
			return &AV{StrKnown: true, Str: out}
		}
		return nil
	case "math":
		switch name {
		case "Floor", "Ceil", "Trunc", "Round", "Abs", "Tan", "Cos", "Sin", "Log", "Atan", "Sinh", "Exp", "Sqrt", "Asin", "Acos", "Cosh", "Tanh":
			return arg(0)
		case "Pow":
			if c, ok := constFloat(args[0]); ok && c == 2 {
				return scalarAV(ks(kSCALE))
			}
			return nil
		case "Ldexp":
			if c, ok := constFloat(args[0]); ok && c == 1 {
				return scalarAV(ks(kSCALE))
			}
			return arg(0)
		case "Mod":
			a, b := arg(0), arg(1)
			var sa, sb KindSet
			if a != nil {
				sa = a.Scalar
			}
			if b != nil {
				sb = b.Scalar
			}
			return scalarAV(arith(sa, sb))
		case "Max", "Min":
			return joinAV(arg(0), arg(1))
		}
		return nil
	}
	if !ke.w.InModule(g) {
		return nil
	}
	// module function: declared result role, else summary
	if fr := ke.roles[g]; fr != nil && len(fr.Results) > 0 && !fr.SelfOnly {
		i := res
		if i < 0 {
			i = 0
		}
		if i < len(fr.Results) && fr.Results[i] != nil {
			return fr.Results[i]
		}
	}
	// generic set helpers keep the element abstraction of their arguments
	if pp == modPath+"/common" {
		switch name {
		case "Unique":
			return arg(0)
		case "Union":
			return joinAV(arg(0), arg(1))
		case "Difference":
			return arg(0)
		case "Intersect":
			return arg(1)
		case "CalculateArithmeticShift":
			return arg(0)
		}
	}
	// accessor methods
	if fv := accessorField(g); fv != nil && g.Signature.Recv() != nil {
		if k := ke.fieldK[fv]; k != 0 {
			return scalarAV(k)
		}
	}
	i := res
	if i < 0 {
		i = 0
	}
	// context-sensitive: evaluate the callee's returns with its parameters
	// bound to this call's arguments (helpers used with several layouts)
	if ke.depth < 3 && !ke.inCall[g] && g.Blocks != nil {
		if ke.inCall == nil {
			ke.inCall = map[*ssa.Function]bool{}
		}
		bind := map[ssa.Value]*AV{}
		for j, p := range g.Params {
			if j < len(args) {
				bind[p] = ke.Eval(args[j])
				if fr := ke.roles[g]; fr != nil && j < len(fr.Params) && fr.Params[j] != nil && !fr.NoCheck[j] {
					bind[p] = fr.Params[j]
				}
			}
		}
		saved := ke.env
		ke.env = bind
		ke.inCall[g] = true
		ke.depth++
		var out *AV
		for _, r := range returnsOf(g) {
			if classifyReturn(g, r) == retError {
				continue
			}
			if i < len(r.Results) {
				out = joinAV(out, ke.Eval(r.Results[i]))
			}
		}
		ke.depth--
		delete(ke.inCall, g)
		ke.env = saved
		return out
	}
	rs := ke.retAV[g]
	if i < len(rs) {
		return rs[i]
	}
	return nil
}

// ---------------------------------------------------------------- tables

// roleTable: exported function -> {parameter roles, result roles}.
// Transcribed from the doc comments (parameter descriptions) of /repo.
var roleTable = map[string][2]string{
	"shape.GetExtendedSpatialIdsOnPoints":                           {"-,HZ,VZ", "ids:EXT,-"},
	"shape.GetSpatialIdsOnPoints":                                   {"-,Z", "ids:SP,-"},
	"shape.GetExtendedSpatialIdsOnLine":                             {"-,-,HZ,VZ", "ids:EXT,-"},
	"shape.GetSpatialIdsOnLine":                                     {"-,-,Z", "ids:SP,-"},
	"shape.GetPointOnExtendedSpatialId":                             {"id:EXT,-", ""},
	"shape.GetPointOnSpatialId":                                     {"id:SP,-", ""},
	"shape.ConvertSpatialIdsToExtendedSpatialIds":                   {"ids:SP", "ids:EXT,-"},
	"shape.ConvertExtendedSpatialIdsToSpatialIds":                   {"ids:EXT", "ids:SP,-"},
	"shape.ConvertPointListToProjectedPointList":                    {"-,CRS", ""},
	"shape.ConvertProjectedPointListToPointList":                    {"-,CRS", ""},
	"integrate.ChangeExtendedSpatialIdsZoom":                        {"ids:EXT,HZ,VZ", "ids:EXT,-"},
	"integrate.ChangeSpatialIdsZoom":                                {"ids:SP,Z", "ids:SP,-"},
	"integrate.HorizontalZoom":                                      {"HZ,X,Y,HZ?", "~ids:H"},
	"integrate.HorizontalZoomMinMax":                                {"HZ,X,Y,HZ?", "~X,Y,X,Y"},
	"integrate.VerticalZoom":                                        {"VZ,F,VZ?", "~ids:V"},
	"integrate.MergeExtendedSpatialIds":                             {"ids:EXT,HZ,VZ", "ids:EXT,-"},
	"integrate.MergeSpatialIds":                                     {"ids:SP,Z", "ids:SP,-"},
	"operated.GetShiftingSpatialID":                                 {"id:EXT,dX,dY,dF", "id:EXT"},
	"operated.Get6spatialIdsAdjacentToFaces":                        {"id:EXT", "ids:EXT"},
	"operated.Get8spatialIdsAroundHorizontal":                       {"id:EXT", "ids:EXT"},
	"operated.Get26spatialIdsAroundVoxel":                           {"id:EXT", "ids:EXT"},
	"operated.GetNspatialIdsAroundVoxcels":                          {"ids:EXT,HL,VL", "ids:EXT,-"},
	"detector.CheckSpatialIdsOverlap":                               {"id:SP,id:SP", ""},
	"detector.CheckSpatialIdsArrayOverlap":                          {"ids:SP,ids:SP", ""},
	"detector.CheckExtendedSpatialIdsOverlap":                       {"id:EXT,id:EXT", ""},
	"detector.CheckExtendedSpatialIdsArrayOverlap":                  {"ids:EXT,ids:EXT", ""},
	"transform.ConvertQuadkeysAndVerticalIDsToExtendedSpatialIDs":   {"-,HZ,VZ", "ids:EXT,-"},
	"transform.ConvertQuadkeysAndVerticalIDsToSpatialIDs":           {"-,Z", "ids:SP,-"},
	"transform.ConvertExtendedSpatialIDsToQuadkeysAndVerticalIDs":   {"ids:EXT,HZ,VZ,MAXH,MINH", ""},
	"transform.ConvertSpatialIDsToQuadkeysAndVerticalIDs":           {"ids:SP,HZ,VZ,MAXH,MINH", ""},
	"transform.ConvertExtendedSpatialIDsToQuadkeysAndAltitudekeys":  {"ids:EXT,HZ,TVZ,ZBASE,ZOFF", ""},
	"transform.ConvertExtendedSpatialIDToSpatialIDs":                {"-", "ids:SP"},
	"transform.ConvertTileXYZsToExtendedSpatialIDs":                 {"-,ZBASE,ZOFF,VZ", ""},
	"transform.ConvertTileXYZsToSpatialIDs":                         {"-,ZBASE,ZOFF,VZ", "ids:SP,-"},
	"transform.ConvertAltitudekeyToMinMaxZ":                         {"TZ,TVZ,VZ,ZBASE,ZOFF", "F,F,-"},
	"transform.ConvertZToMinMaxAltitudekey":                         {"F,VZ,TVZ,ZBASE,ZOFF", "TZ,TZ,-"},
	"transform.GetExtendedSpatialIdsWithinRadiusOfLine":             {"-,-,RADIUS,HZ,VZ,-", "ids:EXT,-"},
	"transform.FitClearanceAroundExtendedSpatialID":                 {"id:EXT,RADIUS", "HL,VL,-"},
	"transform.GetVoxelIDfromSpatialID":                             {"id:EXT", ""},
	"common.CalculateArithmeticShift":                               {"-,-", ""},
	"common/object.NewExtendedSpatialID":                            {"id:EXT", ""},
	"common/object.(ExtendedSpatialID).ID":                          {"", "id:EXT"},
	"common/object.(*ExtendedSpatialID).FieldParams":                {"", "seq:EXT"},
	"common/object.(*ExtendedSpatialID).ResetExtendedSpatialID":     {"id:EXT", ""},
	"common/object.(ExtendedSpatialID).Higher":                      {"HZ,VZ", ""},
	"common/object.(*ExtendedSpatialID).SetZoom":                    {"HZ,VZ", ""},
	"common/object.NewPoint":                                        {"LON,LAT,ALT", ""},
	"common/object.NewTileXYZ":                                      {"HZ,X,Y,TVZ,TZ", ""},
	"common/object.NewQuadkeyAndVerticalID":                         {"HZ,QK,VZ,F,MAXH,MINH", ""},
	"common/object.NewFromExtendedSpatialIDToQuadkeyAndVerticalID":  {"HZ,-,VZ,MAXH,MINH", ""},
	"common/object.NewFromExtendedSpatialIDToQuadkeyAndAltitudekey": {"HZ,-,TVZ,ZBASE,ZOFF", ""},
}

// accessorTable: getter -> kind of the field it returns.
var accessorTable = map[string]string{
	"common/object.ExtendedSpatialID.HZoom": "HZ", "common/object.ExtendedSpatialID.X": "X", "common/object.ExtendedSpatialID.Y": "Y",
	"common/object.ExtendedSpatialID.VZoom": "VZ", "common/object.ExtendedSpatialID.Z": "F",
	"common/object.TileXYZ.HZoom": "HZ", "common/object.TileXYZ.X": "X", "common/object.TileXYZ.Y": "Y",
	"common/object.TileXYZ.VZoom": "TVZ", "common/object.TileXYZ.Z": "TZ",
	"common/object.Point.Lon": "LON", "common/object.Point.Lat": "LAT", "common/object.Point.Alt": "ALT",
	"common/object.QuadkeyAndVerticalID.QuadkeyZoom": "HZ", "common/object.QuadkeyAndVerticalID.Quadkey": "QK",
	"common/object.QuadkeyAndVerticalID.VZoom": "VZ", "common/object.QuadkeyAndVerticalID.VIndex": "F",
	"common/object.QuadkeyAndVerticalID.MaxHeight": "MAXH", "common/object.QuadkeyAndVerticalID.MinHeight": "MINH",
	"common/object.FromExtendedSpatialIDToQuadkeyAndVerticalID.QuadkeyZoom": "HZ", "common/object.FromExtendedSpatialIDToQuadkeyAndVerticalID.VerticalZoom": "VZ",
	"common/object.FromExtendedSpatialIDToQuadkeyAndVerticalID.MaxHeight": "MAXH", "common/object.FromExtendedSpatialIDToQuadkeyAndVerticalID.MinHeight": "MINH",
	"common/object.FromExtendedSpatialIDToQuadkeyAndAltitudekey.QuadkeyZoom": "HZ", "common/object.FromExtendedSpatialIDToQuadkeyAndAltitudekey.AltitudekeyZoom": "TVZ",
	"common/object.FromExtendedSpatialIDToQuadkeyAndAltitudekey.ZBaseExponent": "ZBASE", "common/object.FromExtendedSpatialIDToQuadkeyAndAltitudekey.ZBaseOffset": "ZOFF",
}

// fieldTable: exported struct fields.
var fieldTable = map[string]string{
	"common/object.ProjectedPoint.X": "PX", "common/object.ProjectedPoint.Y": "PY", "common/object.ProjectedPoint.Alt": "ALT",
	"common/object.VerticalPoint.Alt": "ALT", "common/object.VerticalPoint.Resolution": "RES",
	"common/spatial.Point3.X": "LON", "common/spatial.Point3.Y": "LAT", "common/spatial.Point3.Z": "ALT",
}

func sortedFuncs(m map[*ssa.Function]*funcRoles, w *World) []*ssa.Function {
	var fs []*ssa.Function
	for f := range m {
		fs = append(fs, f)
	}
	sort.Slice(fs, func(i, j int) bool { return w.FuncName(fs[i]) < w.FuncName(fs[j]) })
	return fs
}

// selfConcat: some incoming value of the string phi is a concatenation that
// contains the phi itself.
func selfConcat(p *ssa.Phi) bool {
	seen := map[ssa.Value]bool{}
	var reach func(v ssa.Value, d int) bool
	reach = func(v ssa.Value, d int) bool {
		if d > 8 || seen[v] {
			return false
		}
		seen[v] = true
		switch x := v.(type) {
		case *ssa.Phi:
			if x == p && d > 0 {
				return true
			}
			for _, e := range x.Edges {
				if reach(e, d+1) {
					return true
				}
			}
		case *ssa.BinOp:
			if x.Op == token.ADD && isStringType(x.Type()) {
				return reach(x.X, d+1) || reach(x.Y, d+1)
			}
		}
		return false
	}
	for _, e := range p.Edges {
		if b, ok := e.(*ssa.BinOp); ok && reach(b, 1) {
			return true
		}
		if q, ok := e.(*ssa.Phi); ok && q != p && reach(q, 1) {
			return true
		}
	}
	return false
}
